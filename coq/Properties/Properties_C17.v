(* C17 - File watchers.  Only statements, each closed by [exact] of a lemma proved in
   Proofs/, with Print Assumptions beneath.  fx = false is the model of the code as it is,
   fx = true the model with notes/C17_fix_fs_poll_ctx.diff applied. *)
From UV Require Import Lib.Base Model.FsPoll Model.Inotify Proofs.FsPollProofs Proofs.InotifyProofs.
Local Open Scope Z_scope.

(* ---------------- fs_poll (Model/FsPoll.v) ---------------- *)

(* statbuf_eq is equality of exactly the 14 compared fields *)
Theorem C17_statbuf_eq_spec : forall a b, statbuf_eq a b = true <-> same_compared a b.
Proof. exact statbuf_eq_spec. Qed.
Print Assumptions C17_statbuf_eq_spec.

(* For every state, context c whose handle is active (not [gone]), stat answer (r, sb) with
   r <= 0, and every callback behaviour: poll_cb calls the user callback exactly when this
   answer differs from the previous answer of the same context in status or in a compared
   field ([differs]; the first answer counts only when it is an error), exactly once, with
   (status, prev, curr) = (r, the previous good answer, this answer); and it remembers this
   answer for the next comparison.  Both variants. *)
Theorem C17_poll_cb_iff_differs :
  forall fx s c r sb beh cnt,
  r <= 0 -> (c < length (cs s))%nat ->
  let x := getc s c in
  gone fx (upd_c s c (c_set_inflight false)) (c_parent x) c = false ->
  let '(s', evs, _) := poll_cb fx s c (r, sb) beh cnt in
  polls_of evs =
    (if differs x r sb
     then [EPoll (c_parent x) (c_cb x) (c_path x) r (c_sb x) (if r =? 0 then sb else zero_sb)]
     else []) /\
  c_busy (getc s' c) = (if r =? 0 then 1 else r) /\
  c_sb (getc s' c) = (if r =? 0 then sb else c_sb x).
Proof. exact poll_cb_iff_differs. Qed.
Print Assumptions C17_poll_cb_iff_differs.

(* ... i.e. one poll_cb is one step of the two-field memory (busy_polling, statbuf) *)
Theorem C17_poll_cb_is_mem_step :
  forall fx s c r sb beh cnt,
  r <= 0 -> (c < length (cs s))%nat ->
  let x := getc s c in
  let m := (c_busy x, c_sb x) in
  gone fx (upd_c s c (c_set_inflight false)) (c_parent x) c = false ->
  let '(s', evs, _) := poll_cb fx s c (r, sb) beh cnt in
  map (fun e => match e with EPoll _ _ _ st p q => (st, p, q) | _ => (0, zero_sb, zero_sb) end)
      (polls_of evs) = reports m [(r, sb)] /\
  (c_busy (getc s' c), c_sb (getc s' c)) = mem_next m (r, sb).
Proof. exact poll_cb_is_mem_step. Qed.
Print Assumptions C17_poll_cb_is_mem_step.

(* hence, for every sequence of stat answers of one context, the reports chain: the prev of
   every report agrees, in every compared field, with the curr of the latest good report
   before it (an error report in between leaves it alone) *)
Theorem C17_chain : forall rs m, chained_from_first (reports m rs).
Proof. exact reports_chain. Qed.
Print Assumptions C17_chain.

(* After uv_fs_poll_stop, or a restart, the old context is silent -- full statement, holds
   for the repaired variant: in every state reached by any script with any callback
   behaviour only the current context of an active, not closing handle has its timer armed
   (no other context submits another stat), and a context that is not current makes no
   callback when its stat completes and closes its timer. *)
Theorem C17_old_ctx_silent : old_ctx_silent_stmt true /\ old_ctx_no_callback_stmt true.
Proof. exact (conj old_ctx_silent_fixed old_ctx_no_callback_fixed). Qed.
Print Assumptions C17_old_ctx_silent.

(* The same statement is false for the code as it is: start A; stop; start B while A's stat is
   in flight -- A's poll_cb sees an active handle, keeps polling A's path and calls A's callback. *)
Theorem C17_restart_in_flight_refuted :
  (~ old_ctx_silent_stmt false /\
   In (EPoll 0 1 0 0 w_sbA w_sbA') (snd (run false (init 1000) w_restart w_nobeh 0)) /\
   snd (run false (init 1000) w_restart w_nobeh 0) =
     [ERet 0; ERet 0; ERet 0; EStat 0; EStat 1; EIter; EIter; EStat 0; EStat 1; EIter;
      EPoll 0 1 0 0 w_sbA w_sbA'] /\
   snd (run true (init 1000) w_restart w_nobeh 0) =
     [ERet 0; ERet 0; ERet 0; EStat 0; EStat 1; EIter; EIter; EStat 1; EIter]) /\
  ~ old_ctx_no_callback_stmt false.
Proof. exact (conj restart_in_flight_refuted old_ctx_no_callback_refuted). Qed.
Print Assumptions C17_restart_in_flight_refuted.

(* Close/free/uv_loop_close.  Full statement [closes_clean_stmt]: after any script, closing
   every handle and running the loop until it is not alive leaves no context and
   uv_loop_close returns 0.  Refuted for the code as it is (same restart, then uv_close: the
   close callback never runs, one context stays, UV_EBUSY); the repaired variant closes
   cleanly on that script. *)
Theorem C17_never_blocks_loop_close_refuted :
  ~ closes_clean_stmt false /\
  snd (run false (init 1000) (w_close ++ [OClose 0; ODrain w_res1]) w_nobeh 0) =
    [ERet 0; ERet 0; ERet 0; EStat 0; EStat 1; EIter; EIter; EFinal UV_EBUSY 1] /\
  snd (run true (init 1000) (w_close ++ [OClose 0; ODrain w_res1]) w_nobeh 0) =
    [ERet 0; ERet 0; ERet 0; EStat 0; EStat 1; EIter; EIter; EIter; EClosed 0; EFinal 0 0].
Proof. exact closes_clean_refuted. Qed.
Print Assumptions C17_never_blocks_loop_close_refuted.

(* What is proved of it (both variants), per step: uv_close makes the handle close-pending at
   once only when it has no context (so a stat in flight postpones the close callback) ... *)
Theorem C17_close_waits_for_stat_partial :
  forall s h, In (CHandle h) (closingq (do_close s h)) -> ~ In (CHandle h) (closingq s) ->
  h_chain (geth (do_close s h) h) = [].
Proof. exact close_pending_iff_no_ctx. Qed.
Print Assumptions C17_close_waits_for_stat_partial.

(* ... a context is freed by its own timer_close_cb only ... *)
Theorem C17_ctx_all_freed_partial :
  forall s c c', c' <> c -> c_freed (getc (timer_close_cb s c) c') = c_freed (getc s c').
Proof. exact freed_only_own. Qed.
Print Assumptions C17_ctx_all_freed_partial.

(* ... and when the last context of a closing handle goes, the handle becomes close-pending. *)
Theorem C17_never_blocks_loop_close_partial :
  forall s c h, h = c_parent (getc s c) -> (h < length (hs s))%nat ->
  h_chain (geth s h) = [c] -> h_closing (geth s h) = true ->
  In (CHandle h) (closingq (timer_close_cb s c)) /\ h_chain (geth (timer_close_cb s c) h) = [].
Proof. exact last_ctx_makes_pending. Qed.
Print Assumptions C17_never_blocks_loop_close_partial.

(* ---------------- fs_event / inotify (Model/Inotify.v) ---------------- *)

(* While uv__inotify_read iterates over a watcher list, whatever the callbacks do (stop or
   close every handle of the list, start others on the same path), the list stays in the
   tree and stays marked; maybe_free_watcher_list leaves a marked list alone. *)
Theorem C17_list_not_freed_while_iterating :
  (forall s wd w, find_w (wls s) wd = Some w -> w_iter w = true -> maybe_free s wd = (s, [])) /\
  (forall fuel s wd name bits beh cnt,
   Iter s wd -> Iter (fst (fst (dispatch_loop fuel s wd name bits beh cnt))) wd).
Proof. exact (conj maybe_free_respects_iterating list_not_freed_while_iterating). Qed.
Print Assumptions C17_list_not_freed_while_iterating.

(* A list is freed only when it is empty and not iterated; and in every state reached by any
   script (any kernel answers, any events, any callback behaviour) no list outside an
   iteration is empty and the descriptors in the tree are unique: no dangling list, no leak. *)
Theorem C17_list_freed_iff_empty :
  (forall s wd s' ev, maybe_free s wd = (s', ev) -> ev <> [] ->
   exists w, find_w (wls s) wd = Some w /\ w_hs w = [] /\ w_iter w = false /\
             ev = [IRm wd] /\ find_w (wls s') wd = find_w (del_w (wls s) wd) wd) /\
  (forall os beh, NoEmpty (fst (irun iinit os beh 0))).
Proof.
  exact (conj freed_only_if_empty (fun os beh => list_freed_when_empty os iinit beh 0%nat NoEmpty_init)).
Qed.
Print Assumptions C17_list_freed_iff_empty.

(* uv_fs_event_stop unlinks the handle from the list and from the local queue of an iteration
   in progress (partial: with the next theorem -- only the head of the local queue is called --
   this is why a stopped handle gets no callback) *)
Theorem C17_no_cb_for_stopped_partial :
  forall s h w', NoDup (map w_wd (wls s)) -> e_active (gete s h) = true ->
  find_w (wls (fst (ev_stop s h))) (e_wd (gete s h)) = Some w' ->
  ~ In h (w_hs w') /\ ~ In h (w_local w').
Proof. exact stop_unlinks. Qed.
Print Assumptions C17_no_cb_for_stopped_partial.

Theorem C17_cb_is_head_of_local :
  forall f s wd name bits beh cnt w h rest,
  find_w (wls s) wd = Some w -> w_local w = h :: rest ->
  exists s' evs n, dispatch_loop (S f) s wd name bits beh cnt =
                   (s', ICb h (e_cb (gete s h)) name bits :: evs, n).
Proof. exact cb_is_head_of_local. Qed.
Print Assumptions C17_cb_is_head_of_local.

(* Every handle in the list when dispatch starts gets exactly one callback, in list order, with
   the event's name (or the list's base name) and the mapped bits -- proved for callbacks that
   make no API call (partial; with API calls inside callbacks the statement is checked by the
   correspondence monitor only). *)
Theorem C17_event_reaches_all_partial :
  forall s wd mask nm w cnt,
  find_w (wls s) wd = Some w ->
  exists tail,
    snd (fst (dispatch_one s (wd, mask, nm) (fun _ => []) cnt)) =
      map (fun h => ICb h (e_cb (gete s h)) (match nm with Some n => n | None => w_base w end)
                        (ev_bits mask)) (w_hs w) ++ tail /\
    (tail = [] \/ tail = [IRm wd]).
Proof. exact event_reaches_all_quiet. Qed.
Print Assumptions C17_event_reaches_all_partial.

(* hypotheses are satisfiable: a reachable state with two contexts in one chain, one armed *)
Example C17_example_reachable :
  let s := fst (run true (init 1000) w_restart w_nobeh 0) in
  SI s /\ length (cs s) = 2%nat /\ h_active (geth s 0) = true.
Proof.
  split; [apply (SI_run w_restart (init 1000) w_nobeh 0 (SI_init 1000))|].
  vm_compute. auto.
Qed.
