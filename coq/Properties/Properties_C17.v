(* C17 - File watchers.  Only statements, each closed by [exact] of a lemma proved in
   Proofs/, with Print Assumptions beneath.  fx = true is the model of the code as it is
   (/repo since 834ed95 and 9bc8132); fx = false and start's fail = 3 are history: the code
   before those two commits. *)
From UV Require Import Lib.Base Model.FsPoll Model.Inotify Proofs.FsPollProofs Proofs.FsPollDrainProofs
  Proofs.FsPollCloseProofs Proofs.InotifyProofs.
Local Open Scope Z_scope.

(* ---------------- fs_poll (Model/FsPoll.v) ---------------- *)

(* statbuf_eq is equality of exactly the 14 compared fields *)
Theorem C17_statbuf_eq_spec : forall a b, statbuf_eq a b = true <-> same_compared a b.
Proof. exact statbuf_eq_spec. Qed.
Print Assumptions C17_statbuf_eq_spec.

(* For every state, context c whose handle is active (not [gone]), stat answer (r, sb) with
   r <= 0, and every callback behaviour: poll_cb calls the user callback exactly when this
   answer differs from the previous answer of the same context in status or in a compared
   field ([differs]; the first answer counts only when it is an error), exactly once, with
   (status, prev, curr) = (r, the previous good answer, this answer); and it remembers this
   answer for the next comparison.  Both variants. *)
Theorem C17_poll_cb_iff_differs :
  forall fx s c r sb beh cnt,
  r <= 0 -> (c < length (cs s))%nat ->
  let x := getc s c in
  gone fx (upd_c s c (c_set_inflight false)) (c_parent x) c = false ->
  let '(s', evs, _) := poll_cb fx s c (r, sb) beh cnt in
  polls_of evs =
    (if differs x r sb
     then [EPoll (c_parent x) (c_cb x) (c_path x) r (c_sb x) (if r =? 0 then sb else zero_sb)]
     else []) /\
  c_busy (getc s' c) = (if r =? 0 then 1 else r) /\
  c_sb (getc s' c) = (if r =? 0 then sb else c_sb x).
Proof. exact poll_cb_iff_differs. Qed.
Print Assumptions C17_poll_cb_iff_differs.

(* ... i.e. one poll_cb is one step of the two-field memory (busy_polling, statbuf) *)
Theorem C17_poll_cb_is_mem_step :
  forall fx s c r sb beh cnt,
  r <= 0 -> (c < length (cs s))%nat ->
  let x := getc s c in
  let m := (c_busy x, c_sb x) in
  gone fx (upd_c s c (c_set_inflight false)) (c_parent x) c = false ->
  let '(s', evs, _) := poll_cb fx s c (r, sb) beh cnt in
  map (fun e => match e with EPoll _ _ _ st p q => (st, p, q) | _ => (0, zero_sb, zero_sb) end)
      (polls_of evs) = reports m [(r, sb)] /\
  (c_busy (getc s' c), c_sb (getc s' c)) = mem_next m (r, sb).
Proof. exact poll_cb_is_mem_step. Qed.
Print Assumptions C17_poll_cb_is_mem_step.

(* hence, for every sequence of stat answers of one context, the reports chain: the prev of
   every report agrees, in every compared field, with the curr of the latest good report
   before it (an error report in between leaves it alone) *)
Theorem C17_chain : forall rs m, chained_from_first (reports m rs).
Proof. exact reports_chain. Qed.
Print Assumptions C17_chain.

(* HEADLINE for the current code.  After uv_fs_poll_stop, or a restart, the old context is
   silent: in every state reached by any script with any callback
   behaviour only the current context of an active, not closing handle has its timer armed
   (no other context submits another stat), and a context that is not current makes no
   callback when its stat completes and closes its timer. *)
Theorem C17_old_ctx_silent : old_ctx_silent_stmt true /\ old_ctx_no_callback_stmt true.
Proof. exact (conj old_ctx_silent_fixed old_ctx_no_callback_fixed). Qed.
Print Assumptions C17_old_ctx_silent.

(* uv_fs_poll_stop (hence uv_close, hence stop + start) called from another timer's callback while
   the handle's interval timer is already in the ready queue of the running uv__run_timers pass:
   nothing happens at stop time (the timer is inactive, it is not closed); the teardown happens at
   the timer's own callback later in the same pass: a context whose handle is stopped, or which is
   not the handle's current context any more, closes its timer there instead of submitting a stat
   (/repo 56a9a49).  The trace theorems below quantify over scripts with timers of their own
   ([OTimer]) whose callbacks stop / close / restart handles inside the pass. *)
Theorem C17_stop_while_timer_in_ready_queue :
  (forall s h c rest,
   h_active (geth s h) = true -> h_chain (geth s h) = c :: rest -> c_timer (getc s c) = TReady ->
   do_stop s h = upd_h s h (h_set_active false)) /\
  (forall s c,
   let h := c_parent (getc s c) in
   h_active (geth s h) = false \/ is_head s h c = false ->
   timer_fire true s c = close_timer s c).
Proof. exact (conj stop_in_ready_state timer_cb_tears_down). Qed.
Print Assumptions C17_stop_while_timer_in_ready_queue.

(* the failing input of the repaired finding fs_poll_timer_cb_assert_after_restart_in_same_timer_pass on
   the current model (no stat of the old path 0 after the restart, clean close) and on the history
   variant (stray [EStat 0] after the restart; debug builds aborted in an assert there) *)
Example C17_restart_inside_timer_pass :
  snd (run true (init 1000) w_pass w_beh 0) =
    [ERet 0; EStat 0; EIter; EIter; EUser 1; ERet 0; ERet 0; EStat 1; EIter; EIter; EIter;
     EClosed 0 0; EFinal 0 0] /\
  snd (run false (init 1000) w_pass w_beh 0) =
    [ERet 0; EStat 0; EIter; EIter; EUser 1; ERet 0; ERet 0; EStat 1; EStat 0; EIter; EIter;
     EFinal UV_EBUSY 1].
Proof. exact w_pass_traces. Qed.

(* uv_walk (handle_queue minus the handles flagged UV_HANDLE_INTERNAL) shows exactly the program's
   handles: every fs_poll handle that is initialised and not yet closed, never a context's
   interval timer -- in every state.  The walk-and-close-all teardown [OWalk] (uv_close on every
   visited handle that is not closing, from anywhere: with a stat in flight, from poll callbacks,
   from a script timer's callback inside the timer pass) is an operation of the scripts all the
   trace theorems of this file quantify over. *)
Theorem C17_walk_sees_only_user_handles :
  forall s,
  uv_walk s = map QH (filter (fun h => negb (h_closed (geth s h))) (seq 0 (length (hs s)))) /\
  (forall c, ~ In (QT c) (uv_walk s)) /\
  walk_targets s = filter (fun h => negb (h_closed (geth s h))) (seq 0 (length (hs s))).
Proof. exact walk_sees_only_user_handles. Qed.
Print Assumptions C17_walk_sees_only_user_handles.

(* uv_fs_poll_getpath in the model ([OObs]): a handle answers with a path iff it is active, and the
   path is that of its current context, i.e. of the last uv_fs_poll_start; a handle that is stopped,
   closing or never started answers nothing (UV_EINVAL, *size = 0) whatever contexts it still has *)
Theorem C17_getpath_iff_active :
  forall s,
  observe s = EObs (map (fun x => (h_active x, h_closing x,
                                   if h_active x then match h_chain x with
                                                      | c :: _ => Some (c_path (getc s c))
                                                      | [] => None end
                                   else None)) (hs s)).
Proof. reflexivity. Qed.

(* History (before 834ed95): the same statement was false: start A; stop; start B while A's
   stat is in flight -- A's poll_cb saw an active handle, kept polling A's path and called A's
   callback.  Kept as the regression witness (corpus/C17/fspoll_known.txt replays it). *)
Theorem C17_hist_restart_in_flight_before_834ed95 :
  (~ old_ctx_silent_stmt false /\
   In (EPoll 0 1 0 0 w_sbA w_sbA') (snd (run false (init 1000) w_restart w_nobeh 0)) /\
   snd (run false (init 1000) w_restart w_nobeh 0) =
     [ERet 0; ERet 0; ERet 0; EStat 0; EStat 1; EIter; EIter; EStat 0; EStat 1; EIter;
      EPoll 0 1 0 0 w_sbA w_sbA'] /\
   snd (run true (init 1000) w_restart w_nobeh 0) =
     [ERet 0; ERet 0; ERet 0; EStat 0; EStat 1; EIter; EIter; EStat 1; EIter]) /\
  ~ old_ctx_no_callback_stmt false.
Proof. exact (conj restart_in_flight_refuted old_ctx_no_callback_refuted). Qed.
Print Assumptions C17_hist_restart_in_flight_before_834ed95.

(* Close / free / uv_loop_close, trace level, for the current code: after ANY script (any API
   calls at any phase, any stat answers, any callback behaviour), closing every handle and
   running the loop until it is not alive (callbacks may do anything but create handles) ends
   with every close callback run (uv_loop_close = 0) and no context allocated.  Proof: the
   invariant R of every reachable state (each live context is queued, completed, closing or
   armed; chains hold live contexts; a closing handle without context is close-pending), and
   with every handle closing the first iteration turns every stat into a timer close and frees
   every context, the second runs the remaining close callbacks. *)
Theorem C17_ctx_all_freed :
  forall t0 os beh res,
  (forall k, Forall (fun o => match o with OInit => False | _ => True end) (beh k)) ->
  live_ctx (fst (fst (drain true drain_fuel (close_all (set_ut (fst (run true (init t0) os beh 0)) [])) res beh 0))) = 0%nat.
Proof. intros t0 os beh res B. exact (proj2 (closes_clean_current t0 os beh res B)). Qed.
Print Assumptions C17_ctx_all_freed.

Theorem C17_never_blocks_loop_close :
  forall t0 os beh res,
  (forall k, Forall (fun o => match o with OInit => False | _ => True end) (beh k)) ->
  loop_close (fst (fst (drain true drain_fuel (close_all (set_ut (fst (run true (init t0) os beh 0)) [])) res beh 0))) = 0.
Proof. intros t0 os beh res B. exact (proj1 (closes_clean_current t0 os beh res B)). Qed.
Print Assumptions C17_never_blocks_loop_close.

(* the invariant itself, for every script: nothing is forgotten at any moment *)
Theorem C17_every_ctx_accounted :
  forall t0 os beh, R [] [] None (fst (run true (init t0) os beh 0)).
Proof. exact reachable_R. Qed.
Print Assumptions C17_every_ctx_accounted.

(* History (before 834ed95): [closes_clean_stmt false] was false -- the restart above followed by
   uv_close: the close callback never ran, one context stayed, UV_EBUSY. *)
Theorem C17_hist_close_blocked_before_834ed95 :
  ~ closes_clean_stmt false /\
  snd (run false (init 1000) (w_close ++ [OClose 0; ODrain w_res1]) w_nobeh 0) =
    [ERet 0; ERet 0; ERet 0; EStat 0; EStat 1; EIter; EIter; EFinal UV_EBUSY 1] /\
  snd (run true (init 1000) (w_close ++ [OClose 0; ODrain w_res1]) w_nobeh 0) =
    [ERet 0; ERet 0; ERet 0; EStat 0; EStat 1; EIter; EIter; EIter; EClosed 0 0; EFinal 0 0].
Proof. exact closes_clean_refuted. Qed.
Print Assumptions C17_hist_close_blocked_before_834ed95.

(* C17_close_waits_for_stat -- full, trace level, current code.  [EClosed h n] is the close
   callback of handle h; n is a ghost the model computes at that moment: the number of contexts
   of h that are allocated.  In the trace of every script, with any stat answers and any
   callback behaviour, every close callback is made with n = 0: uv_close waits until the last
   context (hence the last stat in flight) of the handle is gone.  Proof: two more reachable
   invariants (a context that is not freed is in its parent's chain; a handle in the closing
   list is closing and has an empty chain) on top of R. *)
Theorem C17_close_waits_for_stat :
  forall t0 os beh,
  Forall (fun e => match e with EClosed _ n => n = 0%nat | _ => True end)
         (snd (run true (init t0) os beh 0)).
Proof. exact close_waits_for_stat. Qed.
Print Assumptions C17_close_waits_for_stat.

(* per step: uv_close makes the handle close-pending at once only when it has no context *)
Theorem C17_uv_close_pending_only_without_ctx :
  forall s h, In (CHandle h) (closingq (do_close s h)) -> ~ In (CHandle h) (closingq s) ->
  h_chain (geth (do_close s h) h) = [].
Proof. exact close_pending_iff_no_ctx. Qed.
Print Assumptions C17_uv_close_pending_only_without_ctx.

(* a context is freed by its own timer_close_cb only *)
Theorem C17_ctx_freed_only_by_own_close_cb :
  forall s c c', c' <> c -> c_freed (getc (timer_close_cb s c) c') = c_freed (getc s c').
Proof. exact freed_only_own. Qed.
Print Assumptions C17_ctx_freed_only_by_own_close_cb.

(* when the last context of a closing handle goes, the handle becomes close-pending *)
Theorem C17_last_ctx_makes_close_pending :
  forall s c h, h = c_parent (getc s c) -> (h < length (hs s))%nat ->
  h_chain (geth s h) = [c] -> h_closing (geth s h) = true ->
  In (CHandle h) (closingq (timer_close_cb s c)) /\ h_chain (geth (timer_close_cb s c) h) = [].
Proof. exact last_ctx_makes_pending. Qed.
Print Assumptions C17_last_ctx_makes_close_pending.

(* ---------------- fs_event / inotify (Model/Inotify.v) ---------------- *)

(* While uv__inotify_read iterates over a watcher list, whatever the callbacks do (stop or
   close every handle of the list, start others on the same path), the list stays in the
   tree and stays marked; maybe_free_watcher_list leaves a marked list alone. *)
Theorem C17_list_not_freed_while_iterating :
  (forall s wd w, find_w (wls s) wd = Some w -> w_iter w = true -> maybe_free s wd = (s, [])) /\
  (forall fuel s wd name bits beh cnt,
   Iter s wd -> Iter (fst (fst (dispatch_loop fuel s wd name bits beh cnt))) wd).
Proof. exact (conj maybe_free_respects_iterating list_not_freed_while_iterating). Qed.
Print Assumptions C17_list_not_freed_while_iterating.

(* A list is freed only when it is empty and not iterated; and in every state reached by any
   script (any kernel answers, any events, any callback behaviour) no list outside an
   iteration is empty and the descriptors in the tree are unique: no dangling list, no leak. *)
Theorem C17_list_freed_iff_empty :
  (forall s wd s' ev, maybe_free s wd = (s', ev) -> ev <> [] ->
   exists w, find_w (wls s) wd = Some w /\ w_hs w = [] /\ w_iter w = false /\
             ev = [IRm wd] /\ find_w (wls s') wd = find_w (del_w (wls s) wd) wd) /\
  (forall os beh, NoEmpty (fst (irun iinit os beh 0))).
Proof.
  exact (conj freed_only_if_empty (fun os beh => list_freed_when_empty os iinit beh 0%nat NoEmpty_init)).
Qed.
Print Assumptions C17_list_freed_iff_empty.

(* C17_no_cb_for_stopped -- full, trace level.  [ICb h cb name bits a]: a is a ghost the model
   computes when the callback is made: is handle h active (started, not stopped, not closed) at
   that moment.  In the trace of every script -- any inotify_add_watch answers, any events, any
   uv_fs_event_start/stop/uv_close made from inside the callbacks, on the same path or not --
   every callback is made to an active handle.  Proof: the membership invariant [Mem] (the handles
   linked in a watcher list or in the local queue of its iteration are active handles with that
   wd, each linked once; wds unique) through every operation. *)
Theorem C17_no_cb_for_stopped :
  forall os beh,
  Forall (fun e => match e with ICb _ _ _ _ a => a = true | _ => True end) (snd (irun iinit os beh 0)).
Proof. intros os beh. exact (no_cb_for_stopped os iinit beh 0%nat Mem_init). Qed.
Print Assumptions C17_no_cb_for_stopped.

(* per step: uv_fs_event_stop unlinks the handle from the list and from the local queue *)
Theorem C17_stop_unlinks :
  forall s h w', NoDup (map w_wd (wls s)) -> e_active (gete s h) = true ->
  find_w (wls (fst (ev_stop s h))) (e_wd (gete s h)) = Some w' ->
  ~ In h (w_hs w') /\ ~ In h (w_local w').
Proof. exact stop_unlinks. Qed.
Print Assumptions C17_stop_unlinks.

Theorem C17_cb_is_head_of_local :
  forall f s wd name bits beh cnt w h rest,
  find_w (wls s) wd = Some w -> w_local w = h :: rest ->
  exists s' evs n, dispatch_loop (S f) s wd name bits beh cnt =
                   (s', ICb h (e_cb (gete s h)) name bits (e_active (gete s h)) :: evs, n).
Proof. exact cb_is_head_of_local. Qed.
Print Assumptions C17_cb_is_head_of_local.

(* The event bits of the code as it is (since 5f75e89), for EVERY inotify mask: UV_CHANGE is set iff
   the mask has IN_ATTRIB or IN_MODIFY; UV_RENAME is set iff it has a bit other than
   IN_ATTRIB|IN_MODIFY|IN_ISDIR; nothing else is ever set. *)
Theorem C17_event_bits : forall mask,
  let change := Z.land mask IN_ATTRIB <> 0 \/ Z.land mask IN_MODIFY <> 0 in
  let rename := Z.land mask (Z.lnot (Z.lor (Z.lor IN_ATTRIB IN_MODIFY) IN_ISDIR)) <> 0 in
  (change -> rename -> ev_bits mask = UV_CHANGE + UV_RENAME) /\
  (change -> ~ rename -> ev_bits mask = UV_CHANGE) /\
  (~ change -> rename -> ev_bits mask = UV_RENAME) /\
  (~ change -> ~ rename -> ev_bits mask = 0).
Proof. exact ev_bits_spec. Qed.
Print Assumptions C17_event_bits.

(* in particular: chmod / content change of a watched directory (IN_ATTRIB|IN_ISDIR, IN_MODIFY|IN_ISDIR)
   is exactly UV_CHANGE; create (256), delete (512), moved-from (64), moved-to (128) of a subdirectory
   are UV_RENAME; delete-self (1024) and IN_IGNORED (32768) are UV_RENAME.  Last line: the failing input
   of the repaired finding fs_event_attrib_on_directory_reports_rename_too -- the mapping before
   5f75e89 gave UV_CHANGE|UV_RENAME for chmod of a directory. *)
Example C17_event_bits_directory_subjects :
  ev_bits (Z.lor IN_ATTRIB IN_ISDIR) = UV_CHANGE /\ ev_bits (Z.lor IN_MODIFY IN_ISDIR) = UV_CHANGE /\
  ev_bits (Z.lor 256 IN_ISDIR) = UV_RENAME /\ ev_bits (Z.lor 512 IN_ISDIR) = UV_RENAME /\
  ev_bits (Z.lor 64 IN_ISDIR) = UV_RENAME /\ ev_bits (Z.lor 128 IN_ISDIR) = UV_RENAME /\
  ev_bits IN_ATTRIB = UV_CHANGE /\ ev_bits 1024 = UV_RENAME /\ ev_bits 32768 = UV_RENAME /\
  ev_bits_old (Z.lor IN_ATTRIB IN_ISDIR) = UV_CHANGE + UV_RENAME.
Proof. exact ev_bits_examples. Qed.

(* C17_event_reaches_all -- full.  In any state s reached by any script (any kernel answers,
   events, callback behaviours), for any event (wd, mask, name) whose watcher list is w and any
   behaviour [beh] of the callbacks made while this event is dispatched: every handle h that is in
   the list when dispatch starts and that no callback stops or closes gets EXACTLY ONE callback,
   with the event's name (or the list's base name), the mapped bits (ev_bits, see C17_event_bits) and while it is active -- whatever else the
   callbacks do (start/stop/close of other handles on the same path, start of h itself). *)
Theorem C17_event_reaches_all :
  forall os0 beh0 wd mask nm w beh cnt h,
  let s := fst (irun iinit os0 beh0 0) in
  find_w (wls s) wd = Some w -> In h (w_hs w) ->
  (forall k, Forall (fun o => o <> IStop h /\ o <> IClose h) (beh k)) ->
  filter (fun e => match e with ICb h' _ _ _ _ => Nat.eqb h h' | _ => false end)
         (snd (fst (dispatch_one s (wd, mask, nm) beh cnt))) =
  [ICb h (e_cb (gete s h)) (match nm with Some n => n | None => w_base w end) (ev_bits mask) true].
Proof.
  intros os0 beh0 wd mask nm w beh cnt h s Fw Ih NT.
  exact (event_reaches_all s wd mask nm w beh cnt h (Mem_irun os0 iinit beh0 0%nat Mem_init) Fw Ih NT).
Qed.
Print Assumptions C17_event_reaches_all.

(* and in list order when the callbacks make no API call *)
Theorem C17_event_reaches_all_in_order :
  forall s wd mask nm w cnt,
  find_w (wls s) wd = Some w ->
  exists tail,
    snd (fst (dispatch_one s (wd, mask, nm) (fun _ => []) cnt)) =
      map (fun h => ICb h (e_cb (gete s h)) (match nm with Some n => n | None => w_base w end)
                        (ev_bits mask) (e_active (gete s h))) (w_hs w) ++ tail /\
    (tail = [] \/ tail = [IRm wd]).
Proof. exact event_reaches_all_quiet. Qed.
Print Assumptions C17_event_reaches_all_in_order.

(* uv_loop_fork in a child (uv__inotify_fork: every handle of every watcher list is stopped and
   started again on a fresh inotify descriptor).  In any state outside uv__inotify_read ([Quiet]) that
   satisfies the membership invariant (every reachable state does: Mem_irun), with the kernel giving
   equal new descriptors exactly to the handles of one old list (same inode <=> same wd: [phi]
   injective): the inotify part returns 0; every handle that was linked in a watcher list is active
   afterwards, with its callback, in a list whose path (base name) is the path of its old list;
   every other handle is untouched.  So the set of watching handles and their paths is the same
   before and after.  (The scripts of C17_no_cb_for_stopped / C17_list_freed_iff_empty may fork:
   [IFork] runs the child's part from the forked state, [IChildEnd] resumes the parent from its
   own state at the fork, unaffected by what the child did.) *)
Theorem C17_fork_keeps_watchers :
  forall s wds (phi : Z -> Z),
  Mem s -> Quiet s ->
  (forall wd, 0 <= phi wd) -> (forall a b, phi a = phi b -> a = b) ->
  wds = map (fun hb => phi (e_wd (gete s (fst hb)))) (fork_tmp s) ->
  let s' := fst (inotify_fork s wds) in
  (exists ev, snd (inotify_fork s wds) = ev ++ [IRet 0]) /\
  (forall wd w h, find_w (wls s) wd = Some w -> In h (w_hs w) ->
     e_active (gete s' h) = true /\ e_cb (gete s' h) = e_cb (gete s h) /\
     exists w', find_w (wls s') (e_wd (gete s' h)) = Some w' /\ w_base w' = w_base w) /\
  (forall h, (forall wd w, find_w (wls s) wd = Some w -> ~ In h (w_hs w)) -> gete s' h = gete s h).
Proof. exact fork_keeps_watchers. Qed.
Print Assumptions C17_fork_keeps_watchers.

(* three handles on two paths (two share a list), one stopped handle; fork with new descriptors 1, 1, 2 *)
Example C17_fork_example :
  let s := fst (irun iinit [IInit; IInit; IInit; IInit; IStart 0 1 5 7; IStart 1 2 6 9; IStart 2 3 5 7;
                            IStart 3 1 6 9; IStop 3] (fun _ => []) 0) in
  snd (inotify_fork s [1; 1; 2]) = [IRm 7; IRm 9; IRet 0] /\
  map (fun e => (e_active e, e_wd e)) (ehs (fst (inotify_fork s [1; 1; 2]))) =
    [(true, 1); (true, 2); (true, 1); (false, -1)].
Proof. vm_compute. split; reflexivity. Qed.

(* hypotheses are satisfiable: a reachable state with two contexts in one chain, one armed *)
Example C17_example_reachable :
  let s := fst (run true (init 1000) w_restart w_nobeh 0) in
  SI s /\ length (cs s) = 2%nat /\ h_active (geth s 0) = true.
Proof.
  split; [apply (SI_run w_restart (init 1000) w_nobeh 0 (SI_init 1000))|].
  vm_compute. auto.
Qed.
