(* C04 - Timers.  Only statements, each closed by [exact] of a lemma proved in
   Proofs/, with Print Assumptions beneath. *)
From UV Require Import Lib.Base Model.Heap Model.Timer Proofs.HeapProofs.
From Coq Require Import Permutation.

(* The priority queue under the timers: for every tree satisfying the
   invariant, every element and every order [lt] that is asymmetric with a
   transitive complement, insertion keeps the invariant (complete shape,
   parent <= child) and adds exactly the element. *)
Theorem C04_Heap_inv_insert :
  forall (elt : Type) (lt : elt -> elt -> bool),
  (forall a b, lt a b = true -> lt b a = false) ->
  (forall a b c, le lt a b -> le lt b c -> le lt a c) ->
  forall (h : heap elt) (x : elt),
  heap_inv lt h ->
  heap_inv lt (heap_insert lt h x) /\
  Permutation (elements (h_tree (heap_insert lt h x))) (x :: elements (h_tree h)).
Proof.
  intros elt lt Ha Ht h x Hi. split.
  - exact (heap_insert_inv lt (fun _ => O) Ha Ht h x Hi).
  - exact (heap_insert_elements lt h x Hi).
Qed.
Print Assumptions C04_Heap_inv_insert.

Theorem C04_Heap_inv_remove :
  forall (elt : Type) (lt : elt -> elt -> bool) (ident : elt -> nat),
  (forall a b, lt a b = true -> lt b a = false) ->
  (forall a b c, le lt a b -> le lt b c -> le lt a c) ->
  forall (h : heap elt) (i : nat),
  heap_inv lt h ->
  (exists x, In x (elements (h_tree h)) /\ ident x = i) ->
  heap_inv lt (heap_remove lt ident h i) /\
  exists x, ident x = i /\
    Permutation (elements (h_tree h)) (x :: elements (h_tree (heap_remove lt ident h i))).
Proof. intros elt lt ident Ha Ht h i. exact (heap_remove_spec lt ident Ha Ht h i). Qed.
Print Assumptions C04_Heap_inv_remove.

Theorem C04_Heap_min_least :
  forall (elt : Type) (lt : elt -> elt -> bool),
  (forall a b, lt a b = true -> lt b a = false) ->
  (forall a b c, le lt a b -> le lt b c -> le lt a c) ->
  forall (h : heap elt) (x : elt),
  heap_inv lt h -> heap_min h = Some x -> Forall (le lt x) (elements (h_tree h)).
Proof. intros elt lt Ha Ht h x. exact (heap_min_least lt Ha h x). Qed.
Print Assumptions C04_Heap_min_least.

(* ---- timers (Model/Timer.v) ---- *)
From UV Require Import Proofs.TimerProofs.
Local Open Scope Z_scope.

(* Never early: in the trace of every script (any operations, any callback
   behaviour [beh], any initial clock), every timer callback event
   EFire i cb now due sid at req satisfies due <= now and due = clamp at req,
   where (at, req) are the loop time and timeout of the latest arm of i. *)
Theorem C04_never_early :
  forall (t0 : Z) (os : list op) (beh : nat -> list op),
  Forall (fun e => match e with
                   | EFire _ _ nw due _ at_ req => due <= nw /\ due = clamp at_ req
                   | _ => True end)
         (snd (run (tinit t0) os beh 0)).
Proof. exact never_early. Qed.
Print Assumptions C04_never_early.

(* ... and the clamp saturates instead of wrapping: for 64-bit operands it is
   the sum when that fits and UINT64_MAX otherwise, never below "now". *)
Theorem C04_saturates :
  forall nw t, 0 <= nw < two64 -> 0 <= t < two64 ->
  clamp nw t = (if nw + t <? two64 then nw + t else max64) /\ nw <= clamp nw t.
Proof. intros nw t Hn Ht. split; [exact (clamp_sat nw t Hn Ht)| exact (clamp_ge_now nw t Hn Ht)]. Qed.
Print Assumptions C04_saturates.

(* A pass fires only timers that were in the ready queue when it began to
   fire, each at most once: a timer (re)armed during the pass waits. *)
Theorem C04_started_in_pass_waits :
  forall fuel s beh cnt i, TI s -> ~ In i (ready s) ->
  ~ In i (fire_ids (snd (fst (fire fuel s beh cnt)))).
Proof. exact fire_only_ready. Qed.
Print Assumptions C04_started_in_pass_waits.

Theorem C04_start_arms_and_unreadies :
  forall s i cb t r, TI s -> (i < length (tms s))%nat -> snd (timer_start s i cb t r) = 0 ->
  ~ In i (ready (fst (timer_start s i cb t r))) /\
  t_active (get (fst (timer_start s i cb t r)) i) = true /\
  t_timeout (get (fst (timer_start s i cb t r)) i) = clamp (now s) t.
Proof. exact start_leaves_ready. Qed.
Print Assumptions C04_start_arms_and_unreadies.

Theorem C04_pass_fires_each_once :
  forall s beh cnt, TI s -> ready s = [] ->
  let '(s', evs, _) := run_timers s beh cnt in
  TI s' /\ ready s' = [] /\ now s <= now s' /\ Forall ev_ok evs /\ NoDup (fire_ids evs).
Proof. exact run_timers_spec. Qed.
Print Assumptions C04_pass_fires_each_once.

(* Stopping (hence closing) removes the timer from the heap and from the
   ready queue, so by C04_started_in_pass_waits it cannot fire. *)
Theorem C04_stop_prevents :
  forall s i, TI s -> (i < length (tms s))%nat ->
  ~ In i (ready (timer_stop s i)) /\ t_active (get (timer_stop s i) i) = false.
Proof. exact stop_prevents. Qed.
Print Assumptions C04_stop_prevents.

Theorem C04_due_in :
  forall s i, timer_due_in s i = Z.max 0 (t_timeout (get s i) - now s).
Proof. exact due_in_spec. Qed.
Print Assumptions C04_due_in.

Theorem C04_next_timeout_bound :
  forall s, -1 <= next_timeout s <= int_max /\
  (forall k, heap_min (hp s) = Some k -> now s + next_timeout s <= Z.max (now s) (k_timeout k)).
Proof. exact next_timeout_bound. Qed.
Print Assumptions C04_next_timeout_bound.

(* A repeating timer is re-armed by uv_timer_again (which uv__run_timers
   calls just before the callback) relative to the loop time of that moment,
   with the repeat value then in force, saturating. *)
Theorem C04_repeat_rearm :
  forall s i c, TI s -> (i < length (tms s))%nat ->
  t_cb (get s i) = Some c -> t_repeat (get s i) <> 0 -> t_closing (get s i) = false ->
  let s' := fst (timer_again s i) in
  snd (timer_again s i) = 0 /\
  t_active (get s' i) = true /\
  t_timeout (get s' i) = clamp (now s) (t_repeat (get s i)) /\
  t_repeat (get s' i) = t_repeat (get s i) /\
  ~ In i (ready s').
Proof. exact again_rearms. Qed.
Print Assumptions C04_repeat_rearm.

(* the invariant all of the above rest on is reachable and non-trivial *)
Example C04_invariant_nonvacuous :
  let s := fst (run (tinit 100) [OInit; OInit; OStart 0 (Some 1%nat) 10 5; OStart 1 (Some 2%nat) 3 0;
                                OAdvance 4; ORun] (fun _ => [ODueIn 0]) 0) in
  TI s /\ ready s = [] /\ length (elements (h_tree (hp s))) = 1%nat.
Proof.
  split; [|split].
  - apply run_spec; [apply TI_init|reflexivity].
  - apply run_spec; [apply TI_init|reflexivity].
  - vm_compute. reflexivity.
Qed.
Print Assumptions C04_invariant_nonvacuous.

(* Pass order: the callbacks of one timer pass run in non-decreasing
   (due time, start id) order -- i.e. by due time and, for equal due times,
   in the order the timers were started -- for every heap shape and whatever
   the callbacks do to other timers meanwhile. *)
From UV Require Import Proofs.TimerOrder.
From Coq Require Import Sorting.Sorted.
Theorem C04_pass_order :
  forall s beh cnt, TI s -> ready s = [] ->
  StronglySorted
    (fun a b => k_timeout a < k_timeout b \/ (k_timeout a = k_timeout b /\ k_sid a <= k_sid b))
    (fire_keys (snd (fst (run_timers s beh cnt)))).
Proof.
  intros s beh cnt T Hr. pose proof (pass_order s beh cnt T Hr) as H.
  eapply SS_ext; [|exact H]. intros a b _ _. apply kle_spec.
Qed.
Print Assumptions C04_pass_order.
