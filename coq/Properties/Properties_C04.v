(* C04 - Timers.  Only statements, each closed by [exact] of a lemma proved in
   Proofs/, with Print Assumptions beneath. *)
From UV Require Import Lib.Base Model.Heap Model.Timer Proofs.HeapProofs.
From Coq Require Import Permutation.

(* The priority queue under the timers: for every tree satisfying the
   invariant, every element and every order [lt] that is asymmetric with a
   transitive complement, insertion keeps the invariant (complete shape,
   parent <= child) and adds exactly the element. *)
Theorem C04_Heap_inv_insert :
  forall (elt : Type) (lt : elt -> elt -> bool),
  (forall a b, lt a b = true -> lt b a = false) ->
  (forall a b c, le lt a b -> le lt b c -> le lt a c) ->
  forall (h : heap elt) (x : elt),
  heap_inv lt h ->
  heap_inv lt (heap_insert lt h x) /\
  Permutation (elements (h_tree (heap_insert lt h x))) (x :: elements (h_tree h)).
Proof.
  intros elt lt Ha Ht h x Hi. split.
  - exact (heap_insert_inv lt (fun _ => O) Ha Ht h x Hi).
  - exact (heap_insert_elements lt h x Hi).
Qed.
Print Assumptions C04_Heap_inv_insert.

Theorem C04_Heap_inv_remove :
  forall (elt : Type) (lt : elt -> elt -> bool) (ident : elt -> nat),
  (forall a b, lt a b = true -> lt b a = false) ->
  (forall a b c, le lt a b -> le lt b c -> le lt a c) ->
  forall (h : heap elt) (i : nat),
  heap_inv lt h ->
  (exists x, In x (elements (h_tree h)) /\ ident x = i) ->
  heap_inv lt (heap_remove lt ident h i) /\
  exists x, ident x = i /\
    Permutation (elements (h_tree h)) (x :: elements (h_tree (heap_remove lt ident h i))).
Proof. intros elt lt ident Ha Ht h i. exact (heap_remove_spec lt ident Ha Ht h i). Qed.
Print Assumptions C04_Heap_inv_remove.

Theorem C04_Heap_min_least :
  forall (elt : Type) (lt : elt -> elt -> bool),
  (forall a b, lt a b = true -> lt b a = false) ->
  (forall a b c, le lt a b -> le lt b c -> le lt a c) ->
  forall (h : heap elt) (x : elt),
  heap_inv lt h -> heap_min h = Some x -> Forall (le lt x) (elements (h_tree h)).
Proof. intros elt lt Ha Ht h x. exact (heap_min_least lt Ha h x). Qed.
Print Assumptions C04_Heap_min_least.
