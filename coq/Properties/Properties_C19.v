(* C19 - String getters: never write past the buffer, terminate, report the
   needed size.  Only statements, each closed by [exact] of a lemma proved in
   Proofs/GettersProofs.v, with Print Assumptions beneath.

   Reading guide.  A getter of Model/Getters.v applied to its oracle (the value
   the operating system holds, without terminator) is a function
       g : cap -> memory at the buffer -> (return code, *size afterwards, memory afterwards).
   [buf] may be longer than [cap]: bytes at indices >= cap are the caller's other
   memory.  [nonul v]: v contains no NUL byte (it is a C string).
   [trim_slash v]: v without one trailing '/', unless v is a single byte.
   The clause predicates are spelled out by C19_clause_meanings. *)
From UV Require Import Lib.Base Model.Getters Proofs.GettersProofs.

Theorem C19_clause_meanings :
  forall (g : nat -> list N -> result) (tv : list N) (need : nat),
  (no_overflow g <->
     forall cap buf, 1 <= cap ->
       length (r_buf (g cap buf)) = length buf /\
       forall i, cap <= i -> nth_error (r_buf (g cap buf)) i = nth_error buf i) /\
  (terminated_on_success g <->
     forall cap buf, 1 <= cap <= length buf -> r_code (g cap buf) = UV_OK ->
       nth_error (r_buf (g cap buf)) (r_size (g cap buf)) = Some NUL) /\
  (exact_on_success g tv <->
     forall cap buf, 1 <= cap <= length buf -> r_code (g cap buf) = UV_OK ->
       r_size (g cap buf) = length tv /\ firstn (r_size (g cap buf)) (r_buf (g cap buf)) = tv) /\
  (refuses_properly g <->
     forall cap buf buf2, 1 <= cap <= length buf ->
       r_code (g cap buf) = UV_OK \/
       (r_code (g cap buf) = UV_ENOBUFS /\ cap < r_size (g cap buf) /\
        r_code (g (r_size (g cap buf)) buf2) = UV_OK)) /\
  (ample_succeeds g need <-> forall cap buf, need < cap -> r_code (g cap buf) = UV_OK) /\
  (truncates g tv <->
     forall cap buf, 1 <= cap <= length buf ->
       let k := Nat.min (length tv) (cap - 1) in
       r_code (g cap buf) = UV_OK /\
       firstn k (r_buf (g cap buf)) = firstn k tv /\
       nth_error (r_buf (g cap buf)) k = Some NUL).
Proof. intros. repeat match goal with |- _ /\ _ => split end; exact (iff_refl _). Qed.
Print Assumptions C19_clause_meanings.

Theorem C19_trim_slash_meaning :
  forall v, (has_trailing_slash v = false /\ trim_slash v = v) \/
            (has_trailing_slash v = true /\ 1 < length v /\ v = trim_slash v ++ [SLASH] /\
             length (trim_slash v) = length v - 1).
Proof. exact trim_slash_cases. Qed.
Print Assumptions C19_trim_slash_meaning.

(* No getter changes a byte at an index >= cap, whatever the value (no
   hypothesis on it at all), for every cap >= 1 and every memory. *)
Theorem C19_no_overflow :
  forall (value junk : list N) (home : option (list N)) (envs : list (option (list N)))
         (active known : bool),
  no_overflow (uv_os_getenv value) /\
  no_overflow (uv_os_homedir home value) /\
  no_overflow (uv_os_tmpdir envs) /\
  no_overflow (uv_os_gethostname value) /\
  no_overflow (uv_cwd value junk) /\
  no_overflow (uv_fs_event_getpath active value) /\
  no_overflow (uv_fs_poll_getpath active value) /\
  no_overflow (uv_if_indextoname value) /\
  no_overflow (uv_pipe_getname value) /\
  no_overflow (uv_exepath value) /\
  no_overflow (uv_get_process_title value) /\
  no_overflow (uv_thread_getname value) /\
  no_overflow (uv_err_name_r known value) /\
  no_overflow (uv_strerror_r value).
Proof. exact all_no_overflow. Qed.
Print Assumptions C19_no_overflow.

(* On success buf'[size'] = 0; the truncating getters terminate always.
   (Abstract socket names: see C19_pipe_abstract.) *)
Theorem C19_terminated :
  forall (value junk pw : list N) (home : option (list N)) (envs : list (option (list N)))
         (known : bool),
  nonul value -> nonul (homedir_value home pw) -> nonul (first_set envs tmp_default) ->
  terminated_on_success (uv_os_getenv value) /\
  terminated_on_success (uv_os_homedir home pw) /\
  terminated_on_success (uv_os_tmpdir envs) /\
  terminated_on_success (uv_os_gethostname value) /\
  terminated_on_success (uv_cwd value junk) /\
  terminated_on_success (uv_fs_event_getpath true value) /\
  terminated_on_success (uv_fs_poll_getpath true value) /\
  (length value <= 16 -> terminated_on_success (uv_if_indextoname value)) /\
  (1 <= length value <= sun_path_len -> terminated_on_success (uv_pipe_getname value)) /\
  (forall cap buf, 1 <= cap <= length buf ->
     r_code (uv_get_process_title value cap buf) = UV_OK ->
     nth_error (r_buf (uv_get_process_title value cap buf)) (length value) = Some NUL) /\
  terminated_on_success (uv_exepath value) /\
  (forall cap buf, 1 <= cap <= length buf ->
     nth_error (r_buf (uv_thread_getname value cap buf)) (Nat.min (length value) (cap - 1)) = Some NUL /\
     nth_error (r_buf (uv_err_name_r known value cap buf)) (Nat.min (length value) (cap - 1)) = Some NUL /\
     nth_error (r_buf (uv_strerror_r value cap buf)) (Nat.min (length value) (cap - 1)) = Some NUL).
Proof. exact all_terminated. Qed.
Print Assumptions C19_terminated.

(* On success the reported length is the length of the true value and the
   buffer starts with exactly the true value. *)
Theorem C19_success_exact :
  forall (value junk pw : list N) (home : option (list N)) (envs : list (option (list N))),
  nonul value -> nonul (homedir_value home pw) -> nonul (first_set envs tmp_default) ->
  exact_on_success (uv_os_getenv value) value /\
  exact_on_success (uv_os_homedir home pw) (homedir_value home pw) /\
  exact_on_success (uv_os_tmpdir envs) (tmpdir_value envs) /\
  exact_on_success (uv_os_gethostname value) (firstn hostname_max value) /\
  exact_on_success (uv_cwd value junk) (trim_slash value) /\
  exact_on_success (uv_fs_event_getpath true value) value /\
  exact_on_success (uv_fs_poll_getpath true value) value /\
  (length value <= 16 -> exact_on_success (uv_if_indextoname value) value) /\
  (1 <= length value <= sun_path_len -> exact_on_success (uv_pipe_getname value) value) /\
  (forall cap buf, 1 <= cap <= length buf ->
     r_code (uv_get_process_title value cap buf) = UV_OK ->
     firstn (length value) (r_buf (uv_get_process_title value cap buf)) = value).
Proof. exact all_success_exact. Qed.
Print Assumptions C19_success_exact.

(* Abstract (leading NUL) or absent socket names: the reported length is
   authoritative, the bytes are the name, no terminator is appended, and the
   buffer reads as the empty C string; the size protocol is the same. *)
Theorem C19_pipe_abstract :
  forall value, hd NUL value = NUL -> length value <= sun_path_len ->
  exact_on_success (uv_pipe_getname value) value /\
  refuses_properly (uv_pipe_getname value) /\
  ample_succeeds (uv_pipe_getname value) (length value) /\
  (forall cap buf, 1 <= cap <= length buf -> r_code (uv_pipe_getname value cap buf) = UV_OK ->
     nth_error (r_buf (uv_pipe_getname value cap buf)) 0 = Some NUL).
Proof. exact pipe_abstract_exact. Qed.
Print Assumptions C19_pipe_abstract.

(* Every call either succeeds or returns UV_ENOBUFS with a *size larger than
   cap, and the call with cap := *size succeeds (any memory).  This covers the
   uv_os_tmpdir trailing-slash case.  uv_cwd: C19_cwd_long_partial below. *)
Theorem C19_enobufs_retry :
  forall (value pw : list N) (home : option (list N)) (envs : list (option (list N))),
  nonul value -> nonul (homedir_value home pw) -> nonul (first_set envs tmp_default) ->
  refuses_properly (uv_os_getenv value) /\
  refuses_properly (uv_os_homedir home pw) /\
  refuses_properly (uv_os_tmpdir envs) /\
  refuses_properly (uv_os_gethostname value) /\
  refuses_properly (uv_fs_event_getpath true value) /\
  refuses_properly (uv_fs_poll_getpath true value) /\
  (length value <= 16 -> refuses_properly (uv_if_indextoname value)) /\
  (1 <= length value <= sun_path_len -> refuses_properly (uv_pipe_getname value)) /\
  (forall cap buf, 1 <= cap <= length buf ->
     (cap <= length value /\ uv_get_process_title value cap buf = (UV_ENOBUFS, cap, buf)) \/
     (length value < cap /\ r_code (uv_get_process_title value cap buf) = UV_OK)).
Proof. exact all_enobufs_retry. Qed.
Print Assumptions C19_enobufs_retry.

(* uv_cwd.  The clause (success, or UV_ENOBUFS with a size that works; the
   second call may see different unspecified bytes from getcwd):
     cwd_refuses_properly value :=
       forall junk junk2 cap buf buf2, 1 <= cap <= length buf ->
         let r := uv_cwd value junk cap buf in r_size r <= length buf2 ->
         r_code r = UV_OK \/
         (r_code r = UV_ENOBUFS /\ cap < r_size r /\
          r_code (uv_cwd value junk2 (r_size r) buf2) = UV_OK).
   It does NOT hold for all working directories on the current code: *)
Theorem C19_cwd_long_refuted :
  exists value, nonul value /\ has_trailing_slash value = false /\ ~ cwd_refuses_properly value.
Proof. exact cwd_long_refuted. Qed.
Print Assumptions C19_cwd_long_refuted.

(* ... it holds when the working directory has at most PATH_MAX bytes ... *)
Theorem C19_cwd_long_partial :
  forall value, nonul value -> has_trailing_slash value = false ->
  length value <= path_max -> cwd_refuses_properly value.
Proof. exact cwd_retry_partial. Qed.
Print Assumptions C19_cwd_long_partial.

(* ... and this is exactly what uv_cwd does for every length: beyond PATH_MAX a
   too-small buffer yields UV_ERANGE with *size unchanged; a large enough one
   still succeeds. *)
Theorem C19_cwd_behaviour :
  forall value junk cap buf, nonul value -> 1 <= cap <= length buf ->
  let r := uv_cwd value junk cap buf in
  (length value < cap ->
     r_code r = UV_OK /\ r_size r = length (trim_slash value) /\
     firstn (r_size r) (r_buf r) = trim_slash value /\ nth_error (r_buf r) (r_size r) = Some NUL) /\
  (cap <= length value <= path_max ->
     r_code r = UV_ENOBUFS /\ r_size r = length (trim_slash value) + 1) /\
  (cap <= length value -> path_max < length value ->
     r_code r = UV_ERANGE /\ r_size r = cap).
Proof. exact cwd_behaviour. Qed.
Print Assumptions C19_cwd_behaviour.

(* Model-level remark (Linux getcwd never ends in '/' except for "/"): were the
   value to end in '/', the size reported with UV_ENOBUFS would be one short. *)
Theorem C19_cwd_trailing_slash_refuted :
  exists value, nonul value /\ length value <= path_max /\
    r_code (uv_cwd value [] 1 [170%N]) = UV_ENOBUFS /\
    r_code (uv_cwd value [] (r_size (uv_cwd value [] 1 [170%N])) (repeat 170%N 3)) = UV_ENOBUFS.
Proof. exact cwd_trailing_slash_retry_fails. Qed.
Print Assumptions C19_cwd_trailing_slash_refuted.

(* uv_exepath, uv_thread_getname, uv_err_name_r, uv_strerror_r: always success,
   the longest prefix of the true value that fits, terminated; uv_exepath
   reports its length. *)
Theorem C19_truncating_prefix :
  forall (value : list N) (known : bool),
  (truncates (uv_exepath value) value /\
   forall cap buf, 1 <= cap <= length buf ->
     r_size (uv_exepath value cap buf) = Nat.min (length value) (cap - 1)) /\
  (nonul value ->
   truncates (uv_thread_getname value) value /\
   truncates (uv_err_name_r known value) value /\
   truncates (uv_strerror_r value) value).
Proof. exact all_truncating. Qed.
Print Assumptions C19_truncating_prefix.

(* A buffer longer than the value is always enough (so UV_ENOBUFS is not
   returned forever and C19_success_exact is not vacuous). *)
Theorem C19_ample_succeeds :
  forall (value junk pw : list N) (home : option (list N)) (envs : list (option (list N))),
  nonul value -> nonul (homedir_value home pw) -> nonul (first_set envs tmp_default) ->
  ample_succeeds (uv_os_getenv value) (length value) /\
  ample_succeeds (uv_os_homedir home pw) (length (homedir_value home pw)) /\
  ample_succeeds (uv_os_tmpdir envs) (length (first_set envs tmp_default)) /\
  ample_succeeds (uv_os_gethostname value) (length (firstn hostname_max value)) /\
  (forall cap buf, 1 <= cap <= length buf -> length value < cap ->
     r_code (uv_cwd value junk cap buf) = UV_OK) /\
  ample_succeeds (uv_fs_event_getpath true value) (length value) /\
  ample_succeeds (uv_fs_poll_getpath true value) (length value) /\
  (length value <= 16 -> ample_succeeds (uv_if_indextoname value) (length value)) /\
  (1 <= length value <= sun_path_len -> ample_succeeds (uv_pipe_getname value) (length value)).
Proof. exact all_ample. Qed.
Print Assumptions C19_ample_succeeds.

(* Observation: uv_os_tmpdir tests the size before it trims the slash, so a
   buffer that could hold the result is refused ("/tmp/" with 5 bytes). *)
Theorem C19_tmpdir_refuses_sufficient_buffer :
  exists value cap buf, nonul value /\ length (trim_slash value) < cap <= length buf /\
    r_code (uv_os_tmpdir_val value cap buf) = UV_ENOBUFS.
Proof. exact tmpdir_refuses_sufficient_buffer. Qed.
Print Assumptions C19_tmpdir_refuses_sufficient_buffer.

(* The hypotheses are satisfiable and the clauses bite: "HOME" (4 bytes) into 2
   bytes is refused with size 5, into 5 bytes it is returned with its terminator
   and the byte after it is untouched; TMPDIR="/tmp/" gives "/tmp"; a 3-byte
   thread name buffer holds 2 characters. *)
Example C19_example :
  let v := [72; 79; 77; 69]%N in
  let c := 170%N in
  nonul v /\
  uv_os_getenv v 2 [c; c; c] = (UV_ENOBUFS, 5, [c; c; c]) /\
  uv_os_getenv v 5 [c; c; c; c; c; c] = (UV_OK, 4, v ++ [NUL; c]) /\
  uv_os_tmpdir [None; Some [47; 116; 109; 112; 47]%N; None; None] 6 (repeat c 7)
    = (UV_OK, 4, [47; 116; 109; 112; NUL; c; c]%N) /\
  uv_thread_getname v 3 [c; c; c; c] = (UV_OK, 3, [72; 79; NUL; c]%N) /\
  uv_cwd [47; 97]%N [] 2 [c; c; c] = (UV_ENOBUFS, 3, [c; c; c]) /\
  uv_cwd [47; 97]%N [] 3 [c; c; c] = (UV_OK, 2, [47; 97; NUL]%N).
Proof.
  cbv zeta. split; [repeat constructor; discriminate|]. repeat split; vm_compute; reflexivity.
Qed.
Print Assumptions C19_example.
