(* C20 - placeholder until the proofs land *)
From UV Require Import Lib.Base Model.Thread.
Example C20_stub : uv_trylock_code 16 = Some (-16)%Z. Proof. reflexivity. Qed.
