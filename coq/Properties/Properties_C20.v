(* C20 - Threads and synchronisation primitives.  Only statements, each closed by a lemma
   proved in Proofs/ThreadProofs*.v, with Print Assumptions beneath.
   PARTIAL: what is proved is the logic libuv adds on top of pthread (code maps, stack-size
   arithmetic, deadline arithmetic, the fallback barrier and the custom semaphore as
   algorithms over a mutex and a condition variable).  The behaviour of the pthread objects
   themselves (mutual exclusion, wake-up, the meaning of ETIMEDOUT) enters as explicit
   hypotheses of the theorems below - the "posix_..." premises. *)
From UV Require Import Lib.Base Model.Thread Proofs.ThreadProofs Proofs.ThreadProofsBarrier
  Proofs.ThreadProofsSem Proofs.ThreadProofsPass.

Local Open Scope Z_scope.

(* ------------------------------------------------------------------ *)
(* (a)+(d) code maps and wrapper contracts                             *)

(* Exact code maps: 0 -> 0, EBUSY|EAGAIN -> UV_EBUSY, anything else aborts (None);
   PTHREAD_BARRIER_SERIAL_THREAD -> 1; ETIMEDOUT -> UV_ETIMEDOUT. *)
Theorem C20_code_maps_exact :
  (forall err, uv_trylock_code err =
     if err =? 0 then Some 0
     else if (err =? EBUSY) || (err =? EAGAIN) then Some UV_EBUSY else None) /\
  (forall rc, uv_barrier_wait_code rc =
     if rc =? 0 then Some 0 else if rc =? PTHREAD_BARRIER_SERIAL_THREAD then Some 1 else None) /\
  (forall r, uv_cond_timedwait_code r =
     if r =? 0 then Some 0 else if r =? ETIMEDOUT then Some UV_ETIMEDOUT else None).
Proof.
  exact (conj trylock_code_exact (conj barrier_wait_code_exact timedwait_code_exact)).
Qed.
Print Assumptions C20_code_maps_exact.

(* Given the POSIX contract of pthread_mutex_trylock on a non-recursive mutex,
   uv_mutex_trylock returns UV_EBUSY exactly when the mutex is held (and leaves it
   alone), otherwise 0 with the mutex now held; it never aborts. *)
Theorem C20_trylock_ebusy_iff_held :
  forall (St : Type) (held : St -> bool) (pthread_mutex_trylock : St -> Z * St),
  (forall s, if held s then pthread_mutex_trylock s = (EBUSY, s)
             else fst (pthread_mutex_trylock s) = 0 /\ held (snd (pthread_mutex_trylock s)) = true) ->
  forall s,
  let r := uv_mutex_trylock St pthread_mutex_trylock s in
  (fst r = Some UV_EBUSY <-> held s = true) /\
  (held s = true -> snd r = s) /\
  (held s = false -> fst r = Some 0 /\ held (snd r) = true) /\
  fst r <> None.
Proof. intros St held tr H s. exact (trylock_ebusy_iff_held St held tr H s). Qed.
Print Assumptions C20_trylock_ebusy_iff_held.

(* Recursive mutexes nest: the owner's trylock succeeds one level deeper, anybody else
   gets UV_EBUSY and the mutex is untouched. *)
Theorem C20_trylock_recursive_nests :
  forall (St : Type) (owner : St -> option nat) (depth : St -> nat) (me : nat)
         (pthread_mutex_trylock : St -> Z * St),
  (forall s,
    match owner s with
    | None => fst (pthread_mutex_trylock s) = 0 /\ owner (snd (pthread_mutex_trylock s)) = Some me
              /\ depth (snd (pthread_mutex_trylock s)) = 1%nat
    | Some o =>
        if Nat.eqb o me
        then (fst (pthread_mutex_trylock s) = 0 /\ owner (snd (pthread_mutex_trylock s)) = Some me
              /\ depth (snd (pthread_mutex_trylock s)) = S (depth s))
             \/ pthread_mutex_trylock s = (EAGAIN, s)
        else pthread_mutex_trylock s = (EBUSY, s)
    end) ->
  forall s,
  let r := uv_mutex_trylock St pthread_mutex_trylock s in
  fst r <> None /\
  (fst r = Some 0 -> owner (snd r) = Some me /\ (owner s = Some me -> depth (snd r) = S (depth s))) /\
  ((exists o, owner s = Some o /\ o <> me) -> fst r = Some UV_EBUSY /\ snd r = s).
Proof. intros St ow d me tr H s. exact (trylock_recursive_nests St ow d me tr H s). Qed.
Print Assumptions C20_trylock_recursive_nests.

(* rwlock: a write lock is refused (UV_EBUSY) exactly when anybody holds the lock;
   a read lock is never granted while a writer holds it. *)
Theorem C20_rwlock_trywr_ebusy_iff_held :
  forall (St : Type) (readers : St -> nat) (writer : St -> bool) (trywr : St -> Z * St),
  (forall s, if writer s || negb (Nat.eqb (readers s) 0) then trywr s = (EBUSY, s)
             else fst (trywr s) = 0 /\ writer (snd (trywr s)) = true /\ readers (snd (trywr s)) = O) ->
  forall s,
  let r := uv_rwlock_trywrlock St trywr s in
  (fst r = Some UV_EBUSY <-> (writer s = true \/ readers s <> O)) /\
  (fst r = Some 0 <-> (writer s = false /\ readers s = O)) /\
  (fst r = Some 0 -> writer (snd r) = true) /\
  fst r <> None.
Proof. intros St rd wr tw H s. exact (rwlock_trywr_ebusy_iff_held St rd wr tw H s). Qed.
Print Assumptions C20_rwlock_trywr_ebusy_iff_held.

Theorem C20_rwlock_tryrd_excludes_writer :
  forall (St : Type) (readers : St -> nat) (writer : St -> bool) (tryrd : St -> Z * St),
  (forall s, if writer s then tryrd s = (EBUSY, s)
             else (fst (tryrd s) = 0 /\ readers (snd (tryrd s)) = S (readers s) /\
                   writer (snd (tryrd s)) = false) \/ tryrd s = (EAGAIN, s)) ->
  forall s,
  let r := uv_rwlock_tryrdlock St tryrd s in
  (writer s = true -> fst r = Some UV_EBUSY /\ snd r = s) /\
  (fst r = Some 0 -> writer s = false /\ readers (snd r) = S (readers s)) /\
  (fst r = Some UV_EBUSY -> snd r = s) /\
  fst r <> None.
Proof. intros St rd wr tr H s. exact (rwlock_tryrd_excludes_writer St rd wr tr H s). Qed.
Print Assumptions C20_rwlock_tryrd_excludes_writer.

(* uv_sem_trywait (native semaphore): after any number of EINTR answers, UV_EAGAIN exactly
   at value zero, else 0; exactly the answers up to the decisive one are consumed. *)
Theorem C20_trywait_eagain_at_zero :
  forall (k : nat) (v e : Z) (rest : list (Z * Z)), 0 <= v ->
  uv_sem_trywait_code (repeat eintr_answer k ++ posix_sem_trywait_answer v e :: rest) =
    (Some (if v =? 0 then UV_EAGAIN else 0), rest).
Proof. exact trywait_eagain_at_zero. Qed.
Print Assumptions C20_trywait_eagain_at_zero.

(* passes <= initial value + posts behind the native wrappers, any operation sequence;
   UV_EAGAIN is never returned at a positive value *)
Theorem C20_sem_bound :
  forall (init : Z) (ops : list nsop), 0 <= init ->
  let s := fold_left nsem_step ops (mkNS init 0 0 false) in
  ns_passes s + ns_value s = init + ns_posts s /\ 0 <= ns_value s /\
  ns_passes s <= init + ns_posts s /\ ns_eagain_at_pos s = false.
Proof. exact sem_bound. Qed.
Print Assumptions C20_sem_bound.

(* uv_cond_init: 0 exactly when all four pthread calls succeed; attribute destroyed on
   every path that initialised it, condition variable destroyed when the last step fails *)
Theorem C20_cond_init_exits :
  forall e1 e2 e3 e4,
  let '(r, calls) := uv_cond_init_model e1 e2 e3 e4 in
  (r = 0 <-> e1 = 0 /\ e2 = 0 /\ e3 = 0 /\ e4 = 0) /\
  (e1 = 0 -> In 4 calls) /\
  (e1 = 0 -> e2 = 0 -> e3 = 0 -> e4 <> 0 -> In 5 calls).
Proof. exact cond_init_spec. Qed.
Print Assumptions C20_cond_init_exits.

(* ------------------------------------------------------------------ *)
(* (b) stack size                                                      *)

(* uv_thread_create_ex with the guard of commit 4452eb2; [stack_size_applied] = Some r: the
   size handed to pthread_attr_setstacksize, None: UV_EINVAL returned before anything is set
   up (no attribute, no thread).

   The full clause (DESIGN item 16, formerly C20_stack_wrap_refuted): for EVERY request
   0 < s < 2^64 - in particular those within a page of 2^64 - whenever a thread can be
   created (uv_thread_create_ex can only return 0 then) the size applied is >= the request,
   >= the minimum and page-aligned (or the minimum itself); a request is refused only when
   it lies within a page of 2^64, where no rounding can satisfy it. *)
Theorem C20_stack_never_smaller :
  forall page k psm rl s,
  page = 2 ^ k -> 0 <= k -> 0 < s < two64 ->
  match stack_size_applied page psm rl true s with
  | Some r => s <= r /\ min_stack_size psm <= r /\ (r mod page = 0 \/ r = min_stack_size psm)
  | None => two64 - page < s
  end.
Proof. exact stack_never_smaller. Qed.
Print Assumptions C20_stack_never_smaller.

(* For a page size 2^k and 0 < s <= 2^64 - page the request is accepted and the size is >= s,
   >= the minimum, page-aligned (or the minimum itself, which is page-aligned whenever
   min_ok), and less than a page above s unless the minimum applies. *)
Theorem C20_stack_at_least_requested :
  forall page k psm rl s,
  page = 2 ^ k -> 0 <= k -> 0 < s <= two64 - page ->
  exists r, stack_size_applied page psm rl true s = Some r /\
  s <= r /\ min_stack_size psm <= r /\
  (r mod page = 0 \/ r = min_stack_size psm) /\
  (min_ok page psm -> r mod page = 0) /\
  (r < s + page \/ r = min_stack_size psm).
Proof. exact stack_at_least_requested. Qed.
Print Assumptions C20_stack_at_least_requested.

(* within a page of 2^64: UV_EINVAL, nothing set up *)
Theorem C20_stack_near_max_rejected :
  forall page psm rl s, two64 - page < s -> 0 < s ->
  stack_size_applied page psm rl true s = None.
Proof. exact stack_near_max_rejected. Qed.
Print Assumptions C20_stack_near_max_rejected.

(* s = 0 (or no UV_THREAD_HAS_STACK_SIZE) gives the default of uv__thread_stack_size, which
   is the glibc default or the soft RLIMIT_STACK rounded down to a page, then >= minimum *)
Theorem C20_stack_zero_gives_default :
  forall page psm rl flag s, (flag = false \/ s = 0) ->
  stack_size_applied page psm rl flag s = Some (thread_stack_size page psm rl).
Proof. exact stack_zero_gives_default. Qed.
Print Assumptions C20_stack_zero_gives_default.

Theorem C20_thread_stack_size_spec :
  forall page psm rl, 0 < page ->
  let r := thread_stack_size page psm rl in
  r = default_stack_size \/
  (exists cur, rl = RlCur cur /\ cur <> RLIM_INFINITY /\ r = cur - cur mod page /\
               r mod page = 0 /\ min_stack_size psm <= r /\ (0 <= cur -> r <= cur)).
Proof. exact thread_stack_size_spec. Qed.
Print Assumptions C20_thread_stack_size_spec.

(* uv__thread_stack_size always yields a size a thread can be created with: >= the minimum,
   page-aligned, exactly the 2 MiB default whenever the soft RLIMIT_STACK is unlimited, cannot
   be read or rounds below the minimum, otherwise the limit rounded down to a page; never
   the unlimited marker or a value derived from it.  (So uv_thread_create / stack_size 0 /
   the thread pool start under every RLIMIT_STACK; checked on the library by the "tc"/"st"
   cases of checks/c20.py with a scripted getrlimit.) *)
Theorem C20_thread_stack_size_accepted :
  forall page psm rl,
  0 < page -> psm <= default_stack_size ->
  let r := thread_stack_size page psm rl in
  min_stack_size psm <= r /\
  (rl = RlFail -> r = default_stack_size) /\
  (rl = RlCur RLIM_INFINITY -> r = default_stack_size) /\
  (forall cur, rl = RlCur cur -> cur - cur mod page < min_stack_size psm -> r = default_stack_size) /\
  (forall cur, rl = RlCur cur -> cur <> RLIM_INFINITY -> min_stack_size psm <= cur - cur mod page ->
     r = cur - cur mod page /\ (0 <= cur -> r <= cur)) /\
  (forall cur, rl = RlCur cur -> 0 <= cur <= RLIM_INFINITY -> r <= Z.max default_stack_size (RLIM_INFINITY - 1)) /\
  (default_stack_size mod page = 0 -> r mod page = 0).
Proof. exact thread_stack_size_accepted. Qed.
Print Assumptions C20_thread_stack_size_accepted.

(* the old failing input of DESIGN item 16 on the repaired model: SIZE_MAX and 2^64-page+1
   are refused, 2^64-page and 2^64-page-1 round to 2^64-page; the code without the guard
   answered SIZE_MAX with the 16 KiB minimum *)
Example C20_stack_wrap_fixed_example :
  stack_size_applied 4096 16384 (RlCur 8388608) true (two64 - 1) = None /\
  stack_size_applied 4096 16384 (RlCur 8388608) true (two64 - 4095) = None /\
  stack_size_applied 4096 16384 (RlCur 8388608) true (two64 - 4096) = Some (two64 - 4096) /\
  stack_size_applied 4096 16384 (RlCur 8388608) true (two64 - 4097) = Some (two64 - 4096) /\
  stack_size_applied_unguarded 4096 16384 (two64 - 1) = 16384.
Proof. exact stack_wrap_fixed_example. Qed.

(* ------------------------------------------------------------------ *)
(* (c) uv_cond_timedwait                                               *)

(* Full clause ("UV_ETIMEDOUT only after at least the timeout has elapsed on uv_hrtime()"):
   for every condition variable honouring POSIX ("ETIMEDOUT only when abstime has passed"),
   every timeout and every clock reading hr at the call,
       result = UV_ETIMEDOUT -> hr + timeout <= clock at return. *)
Definition C20_timedwait_not_early : Prop :=
  forall (wait now_ret : Z * Z -> Z),
    (forall ts, wait ts = ETIMEDOUT -> ts_ns ts <= now_ret ts) ->
    forall timeout hr, 0 <= timeout < two64 -> 0 <= hr < two64 ->
    let '(res, ts) := uv_cond_timedwait_model add_wrap timeout hr wait in
    res = Some UV_ETIMEDOUT -> hr + timeout <= now_ret ts.

(* The statement above is about the wrapping addition [add_wrap] the code used before the /repo
   commit "fix: uv_cond_timedwait timed out at once for timeouts near UINT64_MAX"; it is refuted
   (DESIGN item 6): timeout = UINT64_MAX at hr = 5 s + 7 ns.  The code as it is now uses the
   saturating addition [add_sat]: see C20_timedwait_fixed_not_early below, which is the clause in
   full; the correspondence check runs the model in mode "timedfix" against the library. *)
Theorem C20_timedwait_wraps_refuted : ~ C20_timedwait_not_early.
Proof. exact timedwait_wraps_refuted. Qed.
Print Assumptions C20_timedwait_wraps_refuted.

(* what does hold: the clause for every call whose deadline does not wrap *)
Theorem C20_timedwait_not_early_partial :
  forall (wait now_ret : Z * Z -> Z),
    (forall ts, wait ts = ETIMEDOUT -> ts_ns ts <= now_ret ts) ->
    forall timeout hr, 0 <= timeout -> 0 <= hr -> timeout + hr < two64 ->
    let '(res, ts) := uv_cond_timedwait_model add_wrap timeout hr wait in
    res = Some UV_ETIMEDOUT -> hr + timeout <= now_ret ts.
Proof. intros w n H t h. exact (timedwait_not_early_partial w n H t h). Qed.
Print Assumptions C20_timedwait_not_early_partial.

(* every wrapping call hands pthread a deadline that is already in the past *)
Theorem C20_timedwait_wrap_deadline_in_past :
  forall timeout hr, 0 <= timeout < two64 -> 0 <= hr < two64 -> two64 <= timeout + hr ->
  ts_ns (timedwait_deadline timeout hr) < hr.
Proof. exact timedwait_wrap_deadline_in_past. Qed.
Print Assumptions C20_timedwait_wrap_deadline_in_past.

(* the code as it is now (saturating add, notes/C20_fix_timedwait.diff applied): the full clause,
   for every timeout, as long as the clock is below 2^64-1 ns when the wait returns *)
Theorem C20_timedwait_fixed_not_early :
  forall (wait now_ret : Z * Z -> Z),
    (forall ts, wait ts = ETIMEDOUT -> ts_ns ts <= now_ret ts) ->
    forall timeout hr, 0 <= timeout -> 0 <= hr ->
    (forall ts, now_ret ts < max64) ->
    let '(res, ts) := uv_cond_timedwait_model add_sat timeout hr wait in
    res = Some UV_ETIMEDOUT -> hr + timeout <= now_ret ts.
Proof. intros w n H t h. exact (timedwait_fixed_not_early w n H t h). Qed.
Print Assumptions C20_timedwait_fixed_not_early.

(* the timespec is well formed: tv_sec fits time_t, 0 <= tv_nsec < 10^9 *)
Theorem C20_timedwait_timespec_valid :
  forall timeout hr,
  let ts := timedwait_deadline timeout hr in
  0 <= fst ts < 2 ^ 63 /\ 0 <= snd ts < NANOSEC /\ ts_ns ts = add_wrap timeout hr.
Proof.
  intros timeout hr. exact (timedwait_timespec_valid add_wrap timeout hr (add_wrap_range timeout hr)).
Qed.
Print Assumptions C20_timedwait_timespec_valid.

(* ------------------------------------------------------------------ *)
(* (e) the algorithms libuv implements itself, over ALL schedules      *)

(* Fallback barrier: for every count, any number of threads making any number of calls
   each, and every schedule (including spurious wake-ups), after every step:
   (1) returns <= count * floor(calls / count): no thread leaves before the count-th
       thread of its round arrived; (2) among the first k returns exactly floor(k/count) are
       non-zero: one per round; (3) exits <= count * floor(joins / count), and while a round
       is being joined every earlier round has completely passed the exit (in<>0 -> out=0):
       rounds do not mix. *)
Theorem C20_barrier_fallback_correct :
  forall (thr : Z) (rems : list nat) (sched : list choice),
  0 < thr < two32 ->
  let s := brun (binit thr rems) sched in
  let tr := b_trace s in
  (rets tr <= thr * (calls tr / thr) /\
   nzrets tr = rets tr / thr /\
   leaves tr <= thr * (joins tr / thr) /\
   (joins tr mod thr <> 0 -> leaves tr = thr * (joins tr / thr)) /\
   joins tr <= calls tr /\ rets tr <= leaves tr) /\
  (b_in s <> 0 -> b_out s = 0).
Proof. exact barrier_fallback_correct. Qed.
Print Assumptions C20_barrier_fallback_correct.

Theorem C20_barrier_mutex_exclusive :
  forall thr rems sched, 0 < thr < two32 ->
  cnt holds (b_ths (brun (binit thr rems) sched)) <= 1.
Proof. exact barrier_mutex_exclusive. Qed.
Print Assumptions C20_barrier_mutex_exclusive.

Example C20_barrier_example :
  let s := brun (binit 3 [2; 2; 2]%nat) (rr 3 20) in
  bverdict s = 0 /\ calls (b_trace s) = 6 /\ rets (b_trace s) = 6 /\ nzrets (b_trace s) = 2.
Proof. exact barrier_example. Qed.

(* Custom semaphore: for every initial value, every program (post/wait/trywait sequences)
   of every thread and every schedule, after every step: completed passes <= decrements
   <= initial value + increments, and the counter never underflows. *)
Theorem C20_custom_sem_safe :
  forall (value : Z) (progs : list (list semop)) (sched : list choice),
  0 <= value < two32 ->
  let s := srun (sinit value progs) sched in
  passes (s_trace s) <= decs (s_trace s) /\
  decs (s_trace s) + s_value s <= value + incs (s_trace s) /\
  passes (s_trace s) <= value + incs (s_trace s) /\
  0 <= s_value s.
Proof. exact custom_sem_safe. Qed.
Print Assumptions C20_custom_sem_safe.

(* observation outside the property text (liveness): a lost wake-up is reachable *)
Theorem C20_custom_sem_lost_wakeup :
  let s := srun (sinit 0 [[SWait]; [SWait]; [SPost; SPost]]) lost_wakeup_sched in
  sverdict s = 2 /\ s_value s = 1 /\
  (exists th, nth_error (s_ths s) 1 = Some th /\ st_pc th = SWw false).
Proof. exact custom_sem_lost_wakeup. Qed.
Print Assumptions C20_custom_sem_lost_wakeup.

Example C20_custom_sem_example :
  let s := srun (sinit 1 [[SWait; SWait]; [STry; SPost]])
                (map (fun t => mkChoice t 0) [0; 1; 0; 0; 0; 1; 1; 1; 0; 0; 1]%nat) in
  sverdict s = 0 /\ passes (s_trace s) = 2 /\ incs (s_trace s) = 1.
Proof. exact custom_sem_example. Qed.

Example C20_stack_timedwait_examples :
  stack_size_applied 4096 16384 (RlCur 8388608) true 1048577 = Some 1052672 /\
  timedwait_deadline 1000 (hrtime_of 5 7) = (5, 1007) /\
  timedwait_deadline max64 (hrtime_of 5 7) = (5, 6).
Proof. vm_compute. auto. Qed.

(* ------------------------------------------------------------------ *)
(* (f) the blocking wrappers are the pthread call of the table [passthrough]; given that
   call's POSIX contract (premises) they have the property's contract.  The table itself is
   tied to the code by the pass-through correspondence of checks/c20.py. *)

(* uv_rwlock_rdlock IS pthread_rwlock_rdlock, hence admits concurrent readers: any number
   of readers is let in while no writer is inside, k successive readers are all inside,
   a reader blocks exactly while a writer is inside; the writer is excluded by everyone. *)
Theorem C20_rwlock_rdlock_shared :
  forall (pthread_rw : pfn -> nat * bool -> option (nat * bool)),
  (forall n w, pthread_rw PRwRdlock (n, w) = if w then None else Some (S n, false)) ->
  (forall n w, pthread_rw PRwWrlock (n, w) =
                 if w || negb (Nat.eqb n 0) then None else Some (O, true)) ->
  (forall n w, pthread_rw PRwUnlock (n, w) = Some (if w then (O, false) else (pred n, false))) ->
  (forall n, uv_rw pthread_rw UvRwlockRdlock (n, false) = Some (S n, false)) /\
  (forall k, rd_many pthread_rw k (O, false) = Some (k, false)) /\
  (forall n w, uv_rw pthread_rw UvRwlockRdlock (n, w) = None <-> w = true) /\
  (forall n w, uv_rw pthread_rw UvRwlockWrlock (n, w) = None <-> (w = true \/ n <> O)) /\
  (uv_rw pthread_rw UvRwlockWrlock (O, false) = Some (O, true)) /\
  (forall n, uv_rw pthread_rw UvRwlockRdunlock (S n, false) = Some (n, false)) /\
  (uv_rw pthread_rw UvRwlockWrunlock (O, true) = Some (O, false)).
Proof. exact rwlock_rdlock_shared. Qed.
Print Assumptions C20_rwlock_rdlock_shared.

Theorem C20_mutex_lock_exclusive :
  forall (pthread_mx : pfn -> bool -> option bool),
  (forall h, pthread_mx PMutexLock h = if h then None else Some true) ->
  (forall h, pthread_mx PMutexUnlock h = Some false) ->
  (forall h, uv_mx pthread_mx UvMutexLock h = None <-> h = true) /\
  uv_mx pthread_mx UvMutexLock false = Some true /\
  (forall h, uv_mx pthread_mx UvMutexUnlock h = Some false).
Proof. exact mutex_lock_exclusive. Qed.
Print Assumptions C20_mutex_lock_exclusive.

(* a semaphore of initial value k admits exactly k waiters *)
Theorem C20_sem_admits_exactly :
  forall (pthread_sem : pfn -> Z -> option Z),
  (forall v, pthread_sem PSemPost v = Some (v + 1)) ->
  (forall v, pthread_sem PSemWait v = if v =? 0 then None else Some (v - 1)) ->
  forall k,
  wait_many pthread_sem k (Z.of_nat k) = Some 0 /\
  wait_many pthread_sem (S k) (Z.of_nat k) = None /\
  (forall v, uv_sm pthread_sem UvSemPost v = Some (v + 1)).
Proof. exact sem_admits_exactly. Qed.
Print Assumptions C20_sem_admits_exactly.

(* uv_once runs its function exactly once however many calls arrive *)
Theorem C20_once :
  forall (pthread_once_sem : pfn -> bool -> bool * bool),
  (forall d, pthread_once_sem POnce d = (negb d, true)) ->
  forall n, once_runs pthread_once_sem (S n) false = 1.
Proof. exact once_exactly_once. Qed.
Print Assumptions C20_once.

(* uv_key_t values are private to each thread *)
Theorem C20_key_private :
  forall (pthread_set : pfn -> nat -> Z -> (nat -> Z) -> (nat -> Z))
         (pthread_get : pfn -> nat -> (nat -> Z) -> Z),
  (forall t v m t', pthread_set PSetspecific t v m t' = if Nat.eqb t t' then v else m t') ->
  (forall t m, pthread_get PGetspecific t m = m t) ->
  forall t t' v m,
  uv_key_get_sem pthread_get t (uv_key_set_sem pthread_set t v m) = v /\
  (t <> t' -> uv_key_get_sem pthread_get t' (uv_key_set_sem pthread_set t v m) =
              uv_key_get_sem pthread_get t' m).
Proof. intros ps pg H1 H2 t t' v m. exact (key_private ps pg H1 H2 t t' v m). Qed.
Print Assumptions C20_key_private.

Theorem C20_passthrough_table :
  length all_uvfn = 34%nat /\
  passthrough UvRwlockRdlock <> passthrough UvRwlockWrlock /\
  passthrough UvRwlockRdlock <> passthrough UvRwlockTryrdlock /\
  passthrough UvRwlockWrlock <> passthrough UvRwlockTrywrlock /\
  passthrough UvMutexLock <> passthrough UvMutexTrylock /\
  passthrough UvSemWait <> passthrough UvSemTrywait /\
  passthrough UvCondSignal <> passthrough UvCondBroadcast /\
  passthrough UvCondWait <> passthrough UvCondTimedwait.
Proof. exact passthrough_table_facts. Qed.
Print Assumptions C20_passthrough_table.

(* what the init wrappers ask pthread for (tied to the code by the attribute observations of
   harness/c20_pass.c, for the NDEBUG and the assert-enabled build) *)
Theorem C20_init_requests :
  forall debug arg,
  init_request debug UvRwlockInit arg = IRwlock PTHREAD_RWLOCK_PREFER_READER /\
  init_request debug UvCondInit arg = ICond CLOCK_MONOTONIC /\
  init_request debug UvMutexInitRecursive arg = IMutex PTHREAD_MUTEX_RECURSIVE /\
  init_request false UvMutexInit arg = IMutex PTHREAD_MUTEX_NORMAL /\
  init_request true UvMutexInit arg = IMutex PTHREAD_MUTEX_ERRORCHECK /\   (* only where the constant is a macro *)
  init_request debug UvSemInit arg = ISem 0 arg /\
  init_request debug UvBarrierInit arg = IBarrier arg.
Proof. exact init_requests. Qed.
Print Assumptions C20_init_requests.

(* uv_rwlock_init asks for the reader-preferring kind, hence (given glibc's rule for the
   kinds, the premise) a lock it made admits a further reader whenever no writer HOLDS it,
   also while a writer is queued in uv_rwlock_wrlock behind the readers inside *)
Theorem C20_rwlock_admits_readers_with_writer_queued :
  forall (admits : Z -> nat -> bool -> nat -> bool),
  (forall k n w q, admits k n w q =
     negb w && ((k =? PTHREAD_RWLOCK_PREFER_READER) || Nat.eqb q 0 || Nat.eqb n 0)) ->
  forall debug n w q, admits (uv_rwlock_kind debug) n w q = negb w.
Proof. exact rwlock_admits_readers_with_writer_queued. Qed.
Print Assumptions C20_rwlock_admits_readers_with_writer_queued.
