(* C15 - Descriptor hygiene.  Only statements, each closed by [exact] of a lemma proved in
   Proofs/FdLedgerProofs.v, with Print Assumptions beneath.
   Model/FdLedger.v: the descriptor table as a ledger fd -> (owner, close-on-exec, created-by-libuv);
   [run fixed fds ops orc]: a fresh process holding descriptors [fds] runs the libuv operations [ops];
   [orc] is the kernel's answer at each creation point (ok / EMFILE-ENFILE / other failure).
   [run true] is the code as it is (after /repo 9298bc0, 4ad4719 and c6159bf); [run false] is the code
   before those two commits, kept as history with its refutation witnesses. *)
From UV Require Import Lib.Base Model.FdLedger Proofs.FdLedgerProofs.

(* Every creation step of every operation carries the atomic close-on-exec flag: in the trace of
   every program, for every oracle, each ECreate event has cx = true, and in the table reached
   every descriptor created by libuv (e_lib) has FD_CLOEXEC (e_cx). *)
Theorem C15_cloexec_by_construction :
  forall (fixed : bool) (fds : list (nat * bool)) (ops : list op) (orc : list ans),
  let st := run fixed fds ops orc in
  (forall k cx fs os, In (ECreate k cx fs os) (i_tr (snd st)) -> cx = true) /\
  (forall fd e, In (fd, e) (i_led (snd st)) -> e_lib e = true -> e_cx e = true).
Proof. exact cloexec_by_construction. Qed.
Print Assumptions C15_cloexec_by_construction.

(* The ring route of the asynchronous uv_fs_open (IORING_OP_OPENAT on the SQPOLL ring, no libc call)
   is one of the operations the theorem above quantifies over ([OGive1 KRingOpen g]); spelled out:
   its creation step carries O_CLOEXEC. *)
Lemma C15_ring_open_cloexec : forall (m : mstate) (g : nat), all_cx (op_iou_open m g).
Proof. exact ring_open_cx. Qed.
Print Assumptions C15_ring_open_cloexec.

(* Every close libuv performs targets a table entry it owns - for every program, oracle and
   initial table of the current code: every close goes through a descriptor field (EClose) or is
   a field reset that spares a stdio descriptor (EKeep), the entry hit is owned by libuv (loop,
   handle, process-wide or call-local, never OUser / OGiven), and there is no close by a
   remembered number (ERawClose) at all. *)
Theorem C15_never_close_foreign :
  forall (fds : list (nat * bool)) (ops : list op) (orc : list ans),
  let tr := i_tr (snd (run true fds ops orc)) in
  (forall fd o, In (EClose fd o) tr \/ In (EKeep fd o) tr -> is_lib o = true) /\
  (forall fd x, ~ In (ERawClose fd x) tr).
Proof. exact never_close_foreign_current. Qed.
Print Assumptions C15_never_close_foreign.

(* The theorem applied to a failing uv_spawn: stdio = [UV_INHERIT_STREAM of an open tcp handle;
   UV_CREATE_PIPE; UV_CREATE_PIPE with a handle that is not a pipe -> UV_EINVAL].  The call
   returns an error, closes exactly the pair it created (12, 13), and the inherited stream's
   descriptor 11 is still held by its handle. *)
Example C15_failed_spawn_closes_only_its_own :
  let st := run true stdio3 failing_spawn_prog [] in
  hd (ERet RC_OK) (i_tr (snd st)) = ERet RC_ERR /\
  fd_of (OHandle 0 HIo) (i_led (snd st)) = Some 11 /\ count_if is_temp (i_led (snd st)) = 0 /\
  In (EClose 12 (OTemp 2)) (i_tr (snd st)) /\ In (EClose 13 (OTemp 3)) (i_tr (snd st)).
Proof. exact failing_spawn_example. Qed.

(* History (code before 4ad4719): uv_spawn's error path after a failing uv__stream_open closed the
   descriptor of an already opened stdio stream through the stream and then again by number
   (ERawClose _ None: the number is not open any more). *)
Lemma C15_history_spawn_double_close :
  exists (fds : list (nat * bool)) (ops : list op) (orc : list ans) (fd : nat),
  In (ERawClose fd None) (i_tr (snd (run false fds ops orc))).
Proof. exists stdio3, double_close_prog, [], 13. exact double_close_witness. Qed.
Print Assumptions C15_history_spawn_double_close.

(* ... while the field-based closes were sound in both variants. *)
Lemma C15_history_field_closes_owned :
  forall (fixed : bool) (fds : list (nat * bool)) (ops : list op) (orc : list ans) (fd : nat) (o : owner),
  In (EClose fd o) (i_tr (snd (run fixed fds ops orc))) \/
  In (EKeep fd o) (i_tr (snd (run fixed fds ops orc))) -> is_lib o = true.
Proof. exact never_close_foreign. Qed.
Print Assumptions C15_history_field_closes_owned.

(* Descriptors 0-2 wrapped in a handle survive uv_close: in any state, uv_close of an open handle h
   that has an io_watcher.fd field (tcp, pipe, and - since /repo c6159bf - udp: [hok m h HIo])
   leaves the entry held in that field in the table when its number is <= 2, and hands it back to
   the caller. *)
Theorem C15_stdio_survives_uv_close :
  forall (m : mstate) (s : ist) (h fd : nat) (e : entry),
  m_abort m = false -> hok m h HIo = true ->
  In (fd, e) (i_led s) -> e_owner e = OHandle h HIo -> fd <= 2 ->
  In (fd, set_owner OUser e) (i_led (snd (step (m, s) (OClose h)))).
Proof. exact stdio_survives_uv_close. Qed.
Print Assumptions C15_stdio_survives_uv_close.

(* Balance - the headline, for the code as it is: for every program, every oracle (a failure may
   be injected at any creation point of any operation, uv_loop_init's included), every initial
   table: if the program's last call uv_loop_close() returns 0 (which requires all handles
   closed), every descriptor left in the table for which libuv is responsible is the process-wide
   signal lock pipe. *)
Theorem C15_ledger_balanced :
  forall (fds : list (nat * bool)) (ops : list op) (orc : list ans),
  let st := run true fds (ops ++ [OLoopClose]) orc in
  hd (ERet RC_ERR) (i_tr (snd st)) = ERet RC_OK ->
  forall fd e, In (fd, e) (i_led (snd st)) -> is_lib (e_owner e) = true -> exists w, e_owner e = OProc w.
Proof.
  intros fds ops orc st H fd e Hin Hl. subst st.
  destruct (ledger_balanced_gen true fds ops orc H) as (Hf & (Hk & _) & Hb).
  destruct (Hb fd e Hin Hl) as [Hw | (l & _ & Hl')]; [exact Hw|].
  cbn zeta in Hk, Hf, Hl'. rewrite (Hk Hf) in Hl'. destruct Hl'.
Qed.
Print Assumptions C15_ledger_balanced.

(* Both variants at once: what remains is the lock pipe or - before 9298bc0 only - the backend
   descriptor of a loop instance whose uv_loop_init failed after epoll_create1. *)
Theorem C15_ledger_balanced_general :
  forall (fixed : bool) (fds : list (nat * bool)) (ops : list op) (orc : list ans),
  let st := run fixed fds (ops ++ [OLoopClose]) orc in
  hd (ERet RC_ERR) (i_tr (snd st)) = ERet RC_OK ->
  forall fd e, In (fd, e) (i_led (snd st)) -> is_lib (e_owner e) = true ->
    (exists w, e_owner e = OProc w) \/
    (exists l, e_owner e = OLoop l SBackend /\ In l (m_leaked (fst st))).
Proof. intros fixed fds ops orc st H. exact (proj2 (proj2 (ledger_balanced_gen fixed fds ops orc H))). Qed.
Print Assumptions C15_ledger_balanced_general.

(* History (code before 9298bc0): uv_loop_init fails after uv__platform_loop_init (here: the
   cloexec rwlock cannot be initialised; the same with EMFILE at the signal pipe or the eventfd),
   the caller retries, closes the loop successfully - and descriptor 3, the first instance's
   epoll descriptor, is still open. *)
Lemma C15_history_loop_init_leaked_backend_fd :
  exists (fds : list (nat * bool)) (ops : list op) (orc : list ans),
  let st := run false fds (ops ++ [OLoopClose]) orc in
  hd (ERet RC_ERR) (i_tr (snd st)) = ERet RC_OK /\
  ~ (forall fd e, In (fd, e) (i_led (snd st)) -> is_lib (e_owner e) = true -> exists w, e_owner e = OProc w).
Proof.
  exists stdio3, leak_prog, []. destruct leak_witness as [H1 H2]. split; [exact H1|].
  intros H. destruct (H _ _ H2 eq_refl) as [w Hw]. discriminate Hw.
Qed.
Print Assumptions C15_history_loop_init_leaked_backend_fd.

(* The hypotheses are satisfiable by a non-trivial run: listen, connect, accept, close
   everything, uv_loop_close() = 0, nothing leaked, table = stdio + lock pipe. *)
Example C15_balanced_example :
  let st := run true stdio3 (tcp_prog ++ [OLoopClose]) [] in
  hd (ERet RC_ERR) (i_tr (snd st)) = ERet RC_OK /\ m_leaked (fst st) = [] /\ length (i_led (snd st)) = 5.
Proof. exact tcp_example. Qed.

(* The current code on the old refutation witness: only stdio and the lock pipe remain. *)
Example C15_current_on_old_witness :
  i_led (snd (run true stdio3 (leak_prog ++ [OLoopClose]) [])) =
  [(6, mkE (OProc true) true true); (5, mkE (OProc false) true true);
   (0, mkE OUser false false); (1, mkE OUser false false); (2, mkE OUser false false)].
Proof. exact leak_witness_fixed. Qed.
