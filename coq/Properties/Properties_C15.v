(* C15 - Descriptor hygiene.  Only statements, each closed by [exact] of a lemma proved in
   Proofs/FdLedgerProofs.v, with Print Assumptions beneath.
   Model/FdLedger.v: the descriptor table as a ledger fd -> (owner, close-on-exec, created-by-libuv);
   [run fixed fds ops orc]: a fresh process holding descriptors [fds] runs the libuv operations [ops];
   [orc] is the kernel's answer at each creation point (ok / EMFILE-ENFILE / other failure).
   [fixed] selects the variant of uv_loop_init with notes/C15_fix_loop_init_leak.diff applied. *)
From UV Require Import Lib.Base Model.FdLedger Proofs.FdLedgerProofs.

(* Every creation step of every operation carries the atomic close-on-exec flag: in the trace of
   every program, for every oracle, each ECreate event has cx = true, and in the table reached
   every descriptor created by libuv (e_lib) has FD_CLOEXEC (e_cx). *)
Theorem C15_cloexec_by_construction :
  forall (fixed : bool) (fds : list (nat * bool)) (ops : list op) (orc : list ans),
  let st := run fixed fds ops orc in
  (forall k cx fs os, In (ECreate k cx fs os) (i_tr (snd st)) -> cx = true) /\
  (forall fd e, In (fd, e) (i_led (snd st)) -> e_lib e = true -> e_cx e = true).
Proof. exact cloexec_by_construction. Qed.
Print Assumptions C15_cloexec_by_construction.

(* Full statement "every close libuv performs targets a table entry it owns": refuted by
   uv_spawn's error path after a failing uv__stream_open (process.c:1057-1092): the descriptor
   of an already opened stdio stream is closed by uv__stream_close and then again by number
   (ERawClose _ None = the number is not open any more; in a threaded program it may by then
   belong to somebody else). *)
Theorem C15_never_close_foreign_refuted :
  exists (fds : list (nat * bool)) (ops : list op) (orc : list ans) (fd : nat),
  In (ERawClose fd None) (i_tr (snd (run false fds ops orc))).
Proof. exists stdio3, double_close_prog, [], 13. exact double_close_witness. Qed.
Print Assumptions C15_never_close_foreign_refuted.

(* What holds for every program and oracle: every close through a descriptor field (EClose) and
   every field reset that spares a stdio descriptor (EKeep) hits an entry owned by libuv (loop,
   handle, process-wide or call-local) - never the caller's (OUser / OGiven). *)
Theorem C15_never_close_foreign_partial :
  forall (fixed : bool) (fds : list (nat * bool)) (ops : list op) (orc : list ans) (fd : nat) (o : owner),
  In (EClose fd o) (i_tr (snd (run fixed fds ops orc))) \/
  In (EKeep fd o) (i_tr (snd (run fixed fds ops orc))) -> is_lib o = true.
Proof. exact never_close_foreign. Qed.
Print Assumptions C15_never_close_foreign_partial.

(* Descriptors 0-2 wrapped in a stream handle survive uv_close: in any state, uv_close of an open
   tcp/pipe handle h leaves the entry held in h's io_watcher.fd in the table when its number is
   <= 2, and hands it back to the caller. *)
Theorem C15_stdio_survives_uv_close :
  forall (m : mstate) (s : ist) (h fd : nat) (e : entry),
  m_abort m = false -> is_open m h = true -> is_stream (ty_of m h) = true ->
  In (fd, e) (i_led s) -> e_owner e = OHandle h HIo -> fd <= 2 ->
  In (fd, set_owner OUser e) (i_led (snd (step (m, s) (OClose h)))).
Proof. exact stdio_survives_uv_close. Qed.
Print Assumptions C15_stdio_survives_uv_close.

(* Balance, for every program, every oracle, every initial table: if the program's last call
   uv_loop_close() returns 0 (which requires all handles closed), every descriptor left in the table
   for which libuv is responsible is the process-wide signal lock pipe - or, in the current code,
   the backend descriptor of a loop instance whose uv_loop_init failed after epoll_create1. *)
Theorem C15_ledger_balanced_general :
  forall (fixed : bool) (fds : list (nat * bool)) (ops : list op) (orc : list ans),
  let st := run fixed fds (ops ++ [OLoopClose]) orc in
  hd (ERet RC_ERR) (i_tr (snd st)) = ERet RC_OK ->
  forall fd e, In (fd, e) (i_led (snd st)) -> is_lib (e_owner e) = true ->
    (exists w, e_owner e = OProc w) \/
    (exists l, e_owner e = OLoop l SBackend /\ In l (m_leaked (fst st))).
Proof. intros fixed fds ops orc st H. exact (proj2 (proj2 (ledger_balanced_gen fixed fds ops orc H))). Qed.
Print Assumptions C15_ledger_balanced_general.

(* With the repair of notes/C15_fix_loop_init_leak.diff (fixed = true) the clause holds in full. *)
Theorem C15_ledger_balanced :
  forall (fds : list (nat * bool)) (ops : list op) (orc : list ans),
  let st := run true fds (ops ++ [OLoopClose]) orc in
  hd (ERet RC_ERR) (i_tr (snd st)) = ERet RC_OK ->
  forall fd e, In (fd, e) (i_led (snd st)) -> is_lib (e_owner e) = true -> exists w, e_owner e = OProc w.
Proof.
  intros fds ops orc st H fd e Hin Hl. subst st.
  destruct (ledger_balanced_gen true fds ops orc H) as (Hf & (Hk & _) & Hb).
  destruct (Hb fd e Hin Hl) as [Hw | (l & _ & Hl')]; [exact Hw|].
  cbn zeta in Hk, Hf, Hl'. rewrite (Hk Hf) in Hl'. destruct Hl'.
Qed.
Print Assumptions C15_ledger_balanced.

(* The current code: refuted.  uv_loop_init fails after uv__platform_loop_init (here: the
   cloexec rwlock cannot be initialised; the same with EMFILE at the signal pipe or the eventfd),
   the caller retries, closes the loop successfully - and descriptor 3, the first instance's
   epoll descriptor, is still open. *)
Theorem C15_loop_init_leaks_backend_fd_refuted :
  exists (fds : list (nat * bool)) (ops : list op) (orc : list ans),
  let st := run false fds (ops ++ [OLoopClose]) orc in
  hd (ERet RC_ERR) (i_tr (snd st)) = ERet RC_OK /\
  ~ (forall fd e, In (fd, e) (i_led (snd st)) -> is_lib (e_owner e) = true -> exists w, e_owner e = OProc w).
Proof.
  exists stdio3, leak_prog, []. destruct leak_witness as [H1 H2]. split; [exact H1|].
  intros H. destruct (H _ _ H2 eq_refl) as [w Hw]. discriminate Hw.
Qed.
Print Assumptions C15_loop_init_leaks_backend_fd_refuted.

(* ... and what holds for it: programs in which no uv_loop_init failed late balance. *)
Theorem C15_ledger_balanced_partial :
  forall (fds : list (nat * bool)) (ops : list op) (orc : list ans),
  let st := run false fds (ops ++ [OLoopClose]) orc in
  hd (ERet RC_ERR) (i_tr (snd st)) = ERet RC_OK ->
  m_leaked (fst st) = [] ->
  forall fd e, In (fd, e) (i_led (snd st)) -> is_lib (e_owner e) = true -> exists w, e_owner e = OProc w.
Proof.
  intros fds ops orc st H Hk fd e Hin Hl. subst st.
  destruct (ledger_balanced_gen false fds ops orc H) as (_ & _ & Hb).
  destruct (Hb fd e Hin Hl) as [Hw | (l & _ & Hl')]; [exact Hw|].
  cbn zeta in Hl'. rewrite Hk in Hl'. destruct Hl'.
Qed.
Print Assumptions C15_ledger_balanced_partial.

(* The hypotheses are satisfiable by a non-trivial run: listen, connect, accept, close
   everything, uv_loop_close() = 0, nothing leaked, table = stdio + lock pipe. *)
Example C15_balanced_example :
  let st := run false stdio3 (tcp_prog ++ [OLoopClose]) [] in
  hd (ERet RC_ERR) (i_tr (snd st)) = ERet RC_OK /\ m_leaked (fst st) = [] /\ length (i_led (snd st)) = 5.
Proof. exact tcp_example. Qed.

(* The repaired variant on the refutation witness: only stdio and the lock pipe remain. *)
Example C15_fixed_on_witness :
  i_led (snd (run true stdio3 (leak_prog ++ [OLoopClose]) [])) =
  [(6, mkE (OProc true) true true); (5, mkE (OProc false) true true);
   (0, mkE OUser false false); (1, mkE OUser false false); (2, mkE OUser false false)].
Proof. exact leak_witness_fixed. Qed.
