From UV Require Import Lib.Base Model.FdLedger.
Example C15_placeholder : fst (run false [(0, false)] [OLoopInit 0 true; OLoopClose] []) = fst (run false [(0, false)] [OLoopInit 0 true; OLoopClose] []).
Proof. reflexivity. Qed.
