(* C12 - Child processes.  Only statements, each closed by [exact] of a lemma
   proved in Proofs/ProcessProofs.v, with Print Assumptions beneath.

   Vocabulary (Model/Process.v): a table maps descriptor numbers to (open file,
   FD_CLOEXEC); [us] is pipes[0..stdio_count-1][1] as uv__process_child_init
   receives it (None = -1); [child_init us error_fd exec_errno t] is the child
   from process.c:320 to the exec; [spawn_child] is uv__spawn_and_init_child;
   [uv_spawn] and [run] are the parent and the loop; [eff_exec_err sp] is what
   stops the child after the shuffle: EPERM from setgid/setuid, else the errno
   of execvp (None: the program runs). *)
From UV Require Import Lib.Base Model.Process Proofs.ProcessProofs.

(* ---- the child's descriptors ------------------------------------------ *)

(* For every table of the parent at fork time, every stdio_count (= length us)
   and every mapping whose sources are open - permutations, swaps, duplicates,
   sources below, inside or above the target range - the shuffle succeeds and,
   after exec, slot i holds the file the container named (or /dev/null for an
   ignored slot 0-2; an ignored slot >= 3 keeps what the parent had there if
   that was inheritable), FD_CLOEXEC is clear on every descriptor, and any
   descriptor >= stdio_count is open iff the parent had it open without
   FD_CLOEXEC.  Hence, when every descriptor of the parent that is not the
   target of a mapping is FD_CLOEXEC, nothing else is open in the child. *)
Theorem C12_child_fds :
  forall (t : tbl) (us : list (option nat)) (efd : nat),
  sources_open t us ->
  get t efd <> None ->                      (* error_fd is open (the error pipe) *)
  exists t', child_init us efd None t = CExec t' /\
    (forall i, i < length us ->
       get t' i = match nth i us None with
                  | Some u => option_map (fun e => mkE (e_file e) false) (get t u)
                  | None => if i <? 3 then Some (mkE devnull false) else exec_entry (get t i)
                  end) /\
    (forall d, length us <= d -> get t' d = exec_entry (get t d)) /\
    (forall d e, get t' d = Some e -> e_cx e = false) /\
    (others_cloexec t us ->
     forall d, get t' d <> None -> d < length us /\ (d < 3 \/ nth d us None <> None)).
Proof.
  intros t us efd Ho He. destruct (child_fds t us efd Ho He) as (t' & E & A & B).
  exists t'. split; [exact E|]. split; [exact A|]. split; [exact B|]. split.
  - intros d e H. unfold child_init in E.
    destruct (move_efd (length us) efd t) as [[t0 efd1]|]; [|discriminate].
    destruct (pass1 (length us) 0 us t0) as [[t1 us1]|]; [|discriminate].
    destruct (pass2 (length us) 0 us1 t1); [|discriminate].
    inversion E; subst. exact (exec_cx_clear _ _ _ H).
  - intros Hc. exact (child_no_other t us efd t' Ho He Hc E).
Qed.
Print Assumptions C12_child_fds.

(* the hypotheses are satisfiable by a non-trivial layout: 0,1,2, a file on 3
   (close-on-exec), the error pipe on 4 (inside the target range, so it is
   moved first; its copies are close-on-exec and gone after exec) and a file
   on 7; swap of 1 and 2, 3 from 7, 4 from 3, 5 ignored *)
Example C12_child_fds_example :
  let t := [Some (mkE 1 false); Some (mkE 2 false); Some (mkE 3 false);
            Some (mkE 4 true); Some (mkE 9 true); None; None; Some (mkE 5 true)] in
  let us := [Some 0; Some 2; Some 1; Some 7; Some 3; None] in
  sources_open t us /\ others_cloexec t us /\ get t 4 <> None /\
  exists t', child_init us 4 None t = CExec t' /\
    dump t' = [(0, mkE 1 false); (1, mkE 3 false); (2, mkE 2 false);
               (3, mkE 5 false); (4, mkE 4 false)].
Proof.
  cbv zeta. split; [|split; [|split; [discriminate|eexists; split; vm_compute; reflexivity]]].
  - intros k u Hk.
    do 6 (destruct k as [|k]; [inversion Hk; subst; vm_compute; discriminate|]).
    destruct k; discriminate.
  - intros d e [H|[H3 Hn]] Hg.
    + simpl in H. do 6 (destruct d as [|d]; [lia|]).
      destruct d as [|d]; [discriminate|]. destruct d as [|d]; [inversion Hg; reflexivity|].
      destruct d; discriminate.
    + do 3 (destruct d as [|d]; [lia|]).
      do 2 (destruct d as [|d]; [discriminate|]).
      destruct d as [|d]; [discriminate|].
      destruct d as [|d]; [discriminate|]. destruct d as [|d]; [inversion Hg; reflexivity|].
      destruct d; discriminate.
Qed.
Print Assumptions C12_child_fds_example.

(* The same through uv_spawn, from the stdio containers (any stdio_count, the
   rows above it padded to 3): with inherited descriptors that are open and no
   failing step, uv_spawn returns 0, the handle is active, and in the child
   slot i is the inherited file / /dev/null / the child's end (file 2j+1 of
   the j-th socketpair) of a UV_CREATE_PIPE slot, nothing above max(3, count)
   except what the parent held inheritable ... *)
Theorem C12_spawn_stdio_child :
  forall sp wo,
  (forall c, In c (s_stdio sp) -> c <> SBad) ->
  (forall i fd, nth_error (s_stdio sp) i = Some (SFd fd) -> get (s_tbl sp) fd <> None) ->
  s_sp_fail sp = None -> s_pipe_fail sp = false -> s_fork_fail sp = false ->
  eff_exec_err sp = None ->
  let r := fst (uv_spawn sp wo) in
  let sc := Nat.max 3 (length (s_stdio sp)) in
  r_ret r = 0%Z /\ r_active r = true /\
  exists t', r_child r = Some (CExec t') /\
    (forall i, i < sc ->
       get t' i =
       match nth i (s_stdio sp) SIgnore with
       | SFd fd => option_map (fun e => mkE (e_file e) false) (get (s_tbl sp) fd)
       | SPipe => Some (mkE (S (s_fresh sp + 2 * npipes (firstn i (s_stdio sp)))) false)
       | _ => if i <? 3 then Some (mkE devnull false) else exec_entry (get (s_tbl sp) i)
       end) /\
    (forall d, sc <= d -> get t' d = exec_entry (get (s_tbl sp) d)).
Proof. exact spawn_fds. Qed.
Print Assumptions C12_spawn_stdio_child.

(* ... and the parent's stream of such a slot holds the other end (file 2j) of
   the same pair, close-on-exec, whether or not the exec succeeds. *)
Theorem C12_spawn_stdio_parent :
  forall sp wo i,
  (forall c, In c (s_stdio sp) -> c <> SBad) ->
  s_sp_fail sp = None -> s_pipe_fail sp = false -> s_fork_fail sp = false ->
  nth_error (s_stdio sp) i = Some SPipe ->
  let r := fst (uv_spawn sp wo) in
  exists a, In (i, a) (r_streams r) /\
    get (r_ptbl r) a = Some (mkE (s_fresh sp + 2 * npipes (firstn i (s_stdio sp))) true).
Proof. exact spawn_streams. Qed.
Print Assumptions C12_spawn_stdio_parent.

(* ---- the error pipe ------------------------------------------------------ *)

(* Wherever pipe2 put the error pipe (commit a79de05 moves it above stdio_count
   in the child before the shuffle): the errno of a failing exec reaches the
   parent, uv__spawn_and_init_child returns -errno and has reaped the child. *)
Theorem C12_exec_failure_reported :
  forall t us fresh e wo,
  sources_open t us ->
  sc_ret (spawn_child t us fresh false false (Some e) wo) = (- e)%Z /\
  sc_reaped (spawn_child t us fresh false false (Some e) wo) = Some (fst (wait_retry wo)).
Proof. exact exec_failure_reported. Qed.
Print Assumptions C12_exec_failure_reported.

(* A failed spawn is clean: for every parent table and every list of
   UV_IGNORE / UV_INHERIT_FD (open) / UV_CREATE_PIPE containers, when execvp
   fails with errno e, uv_spawn returns -e, the handle is not activated, the
   child has been reaped by the blocking waitpid, every descriptor of the
   parent that was not handed to one of the caller's streams is what it was
   before the call, and no exit callback ever runs for the handle. *)
Theorem C12_failed_spawn_clean :
  forall sp wo e,
  (forall c, In c (s_stdio sp) -> c <> SBad) ->
  (forall i fd, nth_error (s_stdio sp) i = Some (SFd fd) -> get (s_tbl sp) fd <> None) ->
  s_sp_fail sp = None -> s_pipe_fail sp = false -> s_fork_fail sp = false ->
  eff_exec_err sp = Some e -> e <> 0%Z ->
  let r := fst (uv_spawn sp wo) in
  r_ret r = (- e)%Z /\ r_active r = false /\ r_reaped r = Some (fst (wait_retry wo)) /\
  (forall d, (forall i, ~ In (i, d) (r_streams r)) -> get (r_ptbl r) d = get (s_tbl sp) d) /\
  (forall ops h s' evs, NoDup (spawn_handles ops) -> run linit ops = (s', evs) ->
     In (OSpawn h sp wo) ops -> forall es ts, ~ In (h, es, ts) (exits evs)).
Proof. exact failed_spawn_clean. Qed.
Print Assumptions C12_failed_spawn_clean.

(* the former counterexample (0,1,2 open, six inherited slots, ENOENT), now *)
Example C12_failed_spawn_clean_example :
  exists sp, eff_exec_err sp = Some 2%Z /\
    r_ret (fst (uv_spawn sp [WPid 32512%Z])) = (-2)%Z /\
    r_active (fst (uv_spawn sp [WPid 32512%Z])) = false /\
    r_reaped (fst (uv_spawn sp [WPid 32512%Z])) = Some (Some (WPid 32512%Z)) /\
    exits (snd (run linit [OSpawn 0 sp [WPid 32512%Z]; OScan []])) = [].
Proof. exists clobber_spec. split; [reflexivity|]. exact clobber_spec_now. Qed.
Print Assumptions C12_failed_spawn_clean_example.

(* History (before commit a79de05, DESIGN section 3 item 11): without the move
   of error_fd the same input made the parent compute exec_errorno = 0 - the
   error pipe landed on 3/4, pass 2 dup2()ed a stdio source over 4, the child
   wrote the errno into the user's file and the parent saw EOF.  The current
   model returns -2 on it. *)
Theorem C12_history_error_pipe_clobbered_before_a79de05 :
  let t := [Some (mkE 1 false); Some (mkE 2 false); Some (mkE 3 false)] in
  let us := [Some 0; Some 1; Some 2; Some 0; Some 1; Some 2] in
  sources_open t us /\
  exec_errorno_unfixed t us 10 2%Z = 0%Z /\
  sc_ret (spawn_child t us 10 false false (Some 2%Z) []) = (-2)%Z.
Proof. exact error_pipe_clobbered_before_a79de05. Qed.
Print Assumptions C12_history_error_pipe_clobbered_before_a79de05.

(* any other failing uv_spawn (EINVAL, socketpair/pipe2/fork failure, a child
   that cannot set up its descriptors): the handle is not queued and no exit
   callback ever runs for it ... *)
Theorem C12_failed_spawn_never_called_back :
  forall ops s' evs h sp wo,
  NoDup (spawn_handles ops) -> run linit ops = (s', evs) ->
  In (OSpawn h sp wo) ops -> r_ret (fst (uv_spawn sp wo)) <> 0%Z ->
  r_active (fst (uv_spawn sp wo)) = false /\
  forall es ts, ~ In (h, es, ts) (exits evs).
Proof.
  intros ops s' evs h sp wo N R I Hr. split.
  - exact (ret_nonzero_inactive sp wo Hr).
  - exact (failed_spawn_no_exit ops s' evs h sp wo N R I Hr).
Qed.
Print Assumptions C12_failed_spawn_never_called_back.

(* ... and a uv_spawn without UV_CREATE_PIPE slots leaves the parent's table as
   it was on every path (success, EINVAL, pipe2/fork/exec failure): every
   descriptor created on the way has been closed. *)
Theorem C12_spawn_no_descriptor_left :
  forall sp wo, (forall c, In c (s_stdio sp) -> c <> SPipe) ->
  forall d, get (r_ptbl (fst (uv_spawn sp wo))) d = get (s_tbl sp) d.
Proof. exact spawn_no_leak. Qed.
Print Assumptions C12_spawn_no_descriptor_left.

(* ---- uv_kill / uv_process_kill -------------------------------------------- *)

(* uv_kill(pid, sig) is kill(2) with the same arguments for every pid -
   positive, zero or negative (process group, the way to signal a detached
   child and its group) - and every signal number; the result is 0 or
   UV__ERR(errno).  uv_process_kill is uv_kill on the handle's pid.  (A
   pass-through statement; its weight is in the correspondence, which wraps
   kill(2) and compares call and result.) *)
Theorem C12_uv_kill_passthrough :
  forall pid sig a,
  fst (uv_kill pid sig a) = (pid, sig) /\
  snd (uv_kill pid sig a) = match a with KOk => 0%Z | KErr e => (- e)%Z end /\
  uv_process_kill pid sig a = uv_kill pid sig a.
Proof. exact uv_kill_passthrough. Qed.
Print Assumptions C12_uv_kill_passthrough.

(* ---- uv_disable_stdio_inheritance ----------------------------------------- *)

(* core.c: for (fd = 0; ; fd++) if (uv__cloexec(fd, 1) && fd > 15) break;
   [covered t d]: d < 16, or every number from 16 to d is open in t (the loop
   goes past 16 only while descriptors are open - the documented limit).
   For every table: after the call no covered descriptor is inheritable, no
   descriptor was opened, closed or redirected, descriptors that are not
   covered are untouched, and a covered descriptor never survives an exec. *)
Theorem C12_disable_stdio_inheritance :
  forall t,
  let t' := disable_stdio_inheritance t in
  (forall d e, covered t d -> get t' d = Some e -> e_cx e = true) /\
  (forall d, option_map e_file (get t' d) = option_map e_file (get t d)) /\
  (forall d, ~ covered t d -> get t' d = get t d) /\
  (forall d, covered t d -> exec_entry (get t' d) = None).
Proof.
  intros t. cbv zeta.
  destruct (disable_stdio_inheritance_effect t) as (A & B & C).
  destruct (disable_stdio_inheritance_spec t) as (_ & D).
  split; [exact A|]. split; [exact B|]. split; [exact D|exact C].
Qed.
Print Assumptions C12_disable_stdio_inheritance.

(* hence none of them is open in a child spawned afterwards (beyond its stdio) *)
Theorem C12_disable_stdio_inheritance_child :
  forall t us efd tc,
  let t' := disable_stdio_inheritance t in
  sources_open t' us -> get t' efd <> None ->
  child_init us efd None t' = CExec tc ->
  forall d, length us <= d -> covered t d -> get tc d = None.
Proof. exact disable_then_child. Qed.
Print Assumptions C12_disable_stdio_inheritance_child.

(* 0,1,2 open, a gap, 7 inheritable, 16-17 open, a gap, 19: everything but 19 is covered *)
Example C12_disable_stdio_inheritance_example :
  dump (disable_stdio_inheritance
          [Some (mkE 1 false); Some (mkE 2 false); Some (mkE 3 false); None; None; None; None;
           Some (mkE 4 false); None; None; None; None; None; None; None; None;
           Some (mkE 5 false); Some (mkE 6 false); None; Some (mkE 7 false)])
  = [(0, mkE 1 true); (1, mkE 2 true); (2, mkE 3 true); (7, mkE 4 true);
     (16, mkE 5 true); (17, mkE 6 true); (19, mkE 7 false)].
Proof. vm_compute. reflexivity. Qed.
Print Assumptions C12_disable_stdio_inheritance_example.

(* ---- uid / gid ------------------------------------------------------------ *)

(* UV_PROCESS_SETUID / UV_PROCESS_SETGID take effect: when the caller is
   privileged (effective uid 0 - whatever its real and saved ids are, e.g. a
   daemon after setresuid(user, 0, 0)) the child is exec'ed with real, effective
   AND saved uid equal to options->uid and real, effective and saved gid equal
   to options->gid (gid switched first); ids not asked for are inherited
   (execve copies the effective id into the saved one: [exec_creds]). *)
Theorem C12_uid_gid_take_effect :
  forall sp wo,
  (forall c, In c (s_stdio sp) -> c <> SBad) ->
  (forall i fd, nth_error (s_stdio sp) i = Some (SFd fd) -> get (s_tbl sp) fd <> None) ->
  s_sp_fail sp = None -> s_pipe_fail sp = false -> s_fork_fail sp = false ->
  s_exec_err sp = None -> c_e (s_uid sp) = 0 ->
  let r := fst (uv_spawn sp wo) in
  r_ret r = 0%Z /\ r_active r = true /\
  r_creds r = Some (match s_setuid sp with Some u => mkC u u u | None => exec_creds (s_uid sp) end,
                    match s_setgid sp with Some g => mkC g g g | None => exec_creds (s_gid sp) end).
Proof. exact uid_gid_take_effect. Qed.
Print Assumptions C12_uid_gid_take_effect.

(* for any caller: a child that reaches exec has the requested ids as its
   effective ids (an unprivileged caller can only make its real or saved id
   effective) and keeps the ids it did not ask to change ... *)
Theorem C12_uid_gid_effective :
  forall sp wo uc gc,
  r_creds (fst (uv_spawn sp wo)) = Some (uc, gc) ->
  (forall u, s_setuid sp = Some u -> c_e uc = u) /\
  (forall g, s_setgid sp = Some g -> c_e gc = g) /\
  (s_setuid sp = None -> uc = exec_creds (s_uid sp)) /\
  (s_setgid sp = None -> gc = exec_creds (s_gid sp)).
Proof. exact uid_gid_effective. Qed.
Print Assumptions C12_uid_gid_effective.

(* ... and a switch the kernel refuses (EPERM) is a failed spawn, never a child
   running with other ids *)
Theorem C12_uid_gid_refused :
  forall sp wo,
  (forall c, In c (s_stdio sp) -> c <> SBad) ->
  (forall i fd, nth_error (s_stdio sp) i = Some (SFd fd) -> get (s_tbl sp) fd <> None) ->
  s_sp_fail sp = None -> s_pipe_fail sp = false -> s_fork_fail sp = false ->
  child_creds (s_uid sp) (s_gid sp) (s_setgid sp) (s_setuid sp) = None ->
  let r := fst (uv_spawn sp wo) in
  r_ret r = (- EPERM)%Z /\ r_active r = false /\ r_creds r = None.
Proof. exact uid_gid_refused. Qed.
Print Assumptions C12_uid_gid_refused.

(* real = requested but effective/saved 0: the ids ARE switched (all 1000) *)
Example C12_uid_gid_example :
  r_creds (fst (uv_spawn (mkSpec [] [] true 7 10 None false false None []
                                 (mkC 1000 0 0) (mkC 1000 0 0) (Some 1000) (Some 1000)) []))
  = Some (mkC 1000 1000 1000, mkC 1000 1000 1000).
Proof. vm_compute. reflexivity. Qed.
Print Assumptions C12_uid_gid_example.

(* ---- assert-enabled builds: uv__close(fd <= 2) --------------------------- *)

(* uv__close() asserts fd > STDERR_FILENO (core.c).  For every parent table -
   any subset of {0,1,2} closed - every stdio list and every path, no
   descriptor that uv_spawn closes in the parent goes through the checking
   uv__close(): no assertion trips inside uv_spawn (full since /repo 298b4fa). *)
Theorem C12_spawn_no_assert :
  forall sp wo, r_trip (fst (uv_spawn sp wo)) = false.
Proof. exact spawn_no_trip. Qed.
Print Assumptions C12_spawn_no_assert.

(* the former failing inputs (0 and 1 closed with no stdio: the error pipe is
   0/1; 0,1,2 closed with a UV_CREATE_PIPE slot: the pair is 0/1) on the repaired
   model - the spawn succeeds, the stream of the second gets descriptor 0 -
   together with the history: the code before 298b4fa tripped on both. *)
Example C12_spawn_closed_stdio_examples :
  trip_unfixed closed_stdio_spec = true /\
  trip_unfixed closed_stdio_pipe_spec = true /\
  r_trip (fst (uv_spawn closed_stdio_spec [])) = false /\
  r_ret (fst (uv_spawn closed_stdio_spec [])) = 0%Z /\
  r_active (fst (uv_spawn closed_stdio_spec [])) = true /\
  r_trip (fst (uv_spawn closed_stdio_pipe_spec [])) = false /\
  r_ret (fst (uv_spawn closed_stdio_pipe_spec [])) = 0%Z /\
  r_streams (fst (uv_spawn closed_stdio_pipe_spec [])) = [(0, 0)].
Proof. exact closed_stdio_now. Qed.
Print Assumptions C12_spawn_closed_stdio_examples.

(* ---- the caller's signal mask ------------------------------------------- *)

(* uv_spawn blocks nearly every signal around fork() and restores the caller's
   mask before it looks at fork's result: on every path - success, EINVAL,
   socketpair/pipe2 failure, fork failure, exec failure - the mask of the
   calling thread on return is the mask it had on entry (so SIGCHLD stays
   deliverable and later children are reported). *)
Theorem C12_spawn_restores_sigmask :
  forall sp wo, r_mask (fst (uv_spawn sp wo)) = s_mask sp.
Proof. exact spawn_restores_sigmask. Qed.
Print Assumptions C12_spawn_restores_sigmask.

(* meanwhile the forked child starts with every non-fatal signal blocked in
   addition to what the caller had blocked *)
Theorem C12_fork_child_mask :
  forall m sig, 1 <= sig < length m ->
  match fst (fork_sigmask m false) with
  | Some cm => nth sig cm false = (nth sig m false || fork_blocked sig)
  | None => False
  end.
Proof. exact fork_child_mask. Qed.
Print Assumptions C12_fork_child_mask.

(* ---- exits ---------------------------------------------------------------- *)

(* For every script of spawns, closes and uv__wait_children passes and every
   sequence of waitpid answers (not exited / EINTR / ECHILD / exited with any
   status, in any interleaving): the exit callbacks run so far are, in order,
   those owed to the reaped children that have a callback, each with the
   decoded status of the waitpid answer that reaped it; and unless the loop
   hit abort() (waitpid failing with an unexpected errno) none is missing. *)
Theorem C12_exit_once_true_status :
  forall ops s s' evs,
  run s ops = (s', evs) ->
  (l_abort s' = false -> exits evs = owed (reaps evs)) /\
  exists rest, owed (reaps evs) = exits evs ++ rest.
Proof. exact exit_once_true_status. Qed.
Print Assumptions C12_exit_once_true_status.

(* "exactly one": starting from an empty loop with a fresh handle per uv_spawn,
   no handle is reaped twice, and only handles whose uv_spawn activated them
   are reaped. *)
Theorem C12_reaped_once :
  forall ops s' evs,
  NoDup (spawn_handles ops) -> run linit ops = (s', evs) ->
  NoDup (reaped_handles evs) /\
  forall h, In h (reaped_handles evs) -> In h (active_handles ops).
Proof. exact reaped_once. Qed.
Print Assumptions C12_reaped_once.

Example C12_exit_example :
  exits (snd (run linit
     [OSpawn 0 (mkSpec [] [] true 100 10 None false false None [] (mkC 0 0 0) (mkC 0 0 0) None None) [];
      OSpawn 1 (mkSpec [] [] true 101 20 None false false None [] (mkC 0 0 0) (mkC 0 0 0) None None) [];
      OScan [WZero; WEintr; WPid 15%Z];
      OScan [WPid 768%Z]])) = [(1, 0%Z, 15%Z); (0, 3%Z, 0%Z)].
Proof. vm_compute. reflexivity. Qed.
Print Assumptions C12_exit_example.

(* ---- status words ---------------------------------------------------------- *)
Local Open Scope Z_scope.

(* the four macros, as bit operations, for every 16-bit status word *)
Theorem C12_status_macros :
  forall s, 0 <= s < 65536 ->
  WIFEXITED s = (s mod 128 =? 0) /\
  WIFSIGNALED s = ((1 <=? s mod 128) && (s mod 128 <=? 126)) /\
  WEXITSTATUS s = (s / 256) mod 256 /\
  WTERMSIG s = s mod 128.
Proof. exact status_macros. Qed.
Print Assumptions C12_status_macros.

Theorem C12_status_decode :
  forall s, 0 <= s < 65536 ->
  decode s = (if s mod 128 =? 0 then ((s / 256) mod 256, 0)
              else if s mod 128 <=? 126 then (0, s mod 128) else (0, 0)) /\
  0 <= fst (decode s) < 256 /\ 0 <= snd (decode s) < 127 /\
  (fst (decode s) = 0 \/ snd (decode s) = 0).
Proof. intros s H. split; [exact (decode_spec s H)|exact (decode_range s H)]. Qed.
Print Assumptions C12_status_decode.

(* exit(c) is reported as (c, 0); death by signal g, with or without a core, as (0, g) *)
Theorem C12_status_roundtrip :
  (forall c, 0 <= c < 256 -> decode (256 * c) = (c, 0)) /\
  (forall g core, 1 <= g <= 126 -> 0 <= core <= 1 -> decode (g + 128 * core) = (0, g)).
Proof. split; [exact decode_exit|exact decode_signal]. Qed.
Print Assumptions C12_status_roundtrip.
