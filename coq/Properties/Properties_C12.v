(* C12 - child processes.  Statements only. *)
From UV Require Import Lib.Base Model.Process Proofs.ProcessProofs.
Local Open Scope Z_scope.
Theorem C12_decode_zero : decode 0 = (0, 0).
Proof. exact decode_exit_0. Qed.
Print Assumptions C12_decode_zero.
