(* C03, continued: the statements that hold for every REACHABLE state, i.e.
   every state [fst (lrun (linit t0 m) os beh)] produced by a script of API
   calls and uv_run's from a fresh loop.  They rest on the loop invariant of
   Proofs/LoopCoreInv.v (C01: the timer heap and the ready queue name timer
   handles only), which Proofs/C03Global.v carries along with QInv. *)
From UV Require Import Lib.Base Model.Heap Model.Timer Model.LoopCore
  Proofs.C03Base Proofs.C03Order Proofs.C03Once Proofs.C03Global.

(* In every reachable state the idle/prepare/check queues have no duplicates
   and hold only active handles of their own kind: the hypothesis [QInv s] of
   C03_once_per_phase / C03_exactly_once / C03_once_per_iteration is always
   met. *)
Theorem C03_queue_invariant_reachable :
  forall (t0 : Z) (m : bool) (os : list lop) (beh : nat -> list lop),
  QInv (fst (lrun (linit t0 m) os beh)).
Proof. exact QInv_reachable. Qed.
Print Assumptions C03_queue_invariant_reachable.

(* Every uv_run from a reachable state: a timer pass (DEFAULT only), then
   iterations each of which is a word idle* prepare* (async|after_work)* check*
   close* timer* in which no idle, no prepare and no check handle is called
   twice. *)
Theorem C03_every_run :
  forall (t0 : Z) (m : bool) (os : list lop) (beh : nat -> list lop)
         (fuel mode : nat) (s' : lstate) (evs : list levent),
  uv_run fuel (fst (lrun (linit t0 m) os beh)) beh mode = (s', evs) ->
  exists e0 its r,
    evs = e0 ++ concat its ++ [VRun r] /\
    Forall (eq 0%nat) (cb_tags e0) /\ (mode <> 0%nat -> e0 = []) /\
    Forall phase_word (map cb_tags its) /\
    Forall (fun e => NoDup (ids_of 1 e) /\ NoDup (ids_of 2 e) /\ NoDup (ids_of 3 e)) its.
Proof.
  intros t0 m os beh fuel mode s' evs E.
  exact (uv_run_once fuel _ beh mode s' evs (GInv_reachable t0 m os beh) E).
Qed.
Print Assumptions C03_every_run.
