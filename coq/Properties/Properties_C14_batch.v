(* C14 - the re-poll inside one uv__io_poll after a completely filled batch (Model/IoPollBatch.v).
   Only statements, each closed by a lemma of Proofs/IoPollBatchProofs.v.

   [io_poll_full cap fdo pw beh s T] is uv__io_poll(loop, T) from state [s]: registration loop,
   then up to 48 rounds of epoll_pwait + dispatch, polling again with timeout 0 while the batch
   was completely full ([cap] = ARRAY_SIZE(events), any value) and callbacks were made.  Callbacks
   ([beh]) do anything the script language of Model/IoWatch.v allows, in particular start and
   re-arm handles, which only queues them in loop->watcher_queue.  [KI] is the invariant every
   reachable state of the C14 model satisfies (Proofs/IoWatchProofsK.v, run_KI / KI_init). *)
From UV Require Import Lib.Base Model.IoWatch Model.IoPollBatch Proofs.IoWatchProofs Proofs.IoWatchProofsN
  Proofs.IoWatchProofsK Proofs.IoWatchProofsX Proofs.IoPollBatchProofs.
Local Open Scope Z_scope.

(* Whenever the loop is about to block: an epoll_pwait with a non-zero timeout is made only in the
   state the registration loop left (watcher queue flushed), where kernel interest set and
   registry agree; every other epoll_pwait of the same uv__io_poll has timeout 0; there are at
   most 48; the invariant holds again at the end, so the next uv__io_poll starts from it. *)
Theorem C14_repoll_blocks_only_in_sync : forall cap fdo pw beh s T,
  KI s ->
  let r := io_poll_full cap fdo pw beh s T in
  KI (b_state r) /\ (1 <= length (b_calls r) <= 48)%nat /\
  Forall (fun c => pw_timeout c <> 0 -> SYNC (pw_at c) /\ wq (pw_at c) = [] /\ pw_at c = poll_prepare s)
         (b_calls r).
Proof. exact io_poll_full_blocks_only_in_sync. Qed.
Print Assumptions C14_repoll_blocks_only_in_sync.

(* the hypothesis is met by every reachable state of the model *)
Theorem C14_repoll_hypothesis_reachable : forall fdo pw beh os ring strict,
  KI (fst (run fdo pw beh (sinit ring strict) os)).
Proof.
  intros. destruct (run fdo pw beh (sinit ring strict) os) as [s' evs] eqn:H.
  eapply run_KI in H; [|apply KI_init]. apply H.
Qed.
Print Assumptions C14_repoll_hypothesis_reachable.

(* shape of the calls for any start state: first with the given timeout, the rest with 0 *)
Theorem C14_repoll_shape : forall count cap fdo pw beh s t,
  let r := repoll count cap fdo pw beh s t in
  (length (b_calls r) <= count)%nat /\
  match b_calls r with
  | [] => count = O
  | c :: rest => pw_timeout c = t /\ pw_at c = s /\ pw_ncb c = ncb s /\
                 Forall (fun c' => pw_timeout c' = 0) rest
  end.
Proof. exact repoll_shape. Qed.
Print Assumptions C14_repoll_shape.

(* the timeouts the model passes are the skeleton [plan] that checks/c14.py evaluates for the
   numbers of events the real epoll_pwait calls of harness/c14_fullbatch.c returned *)
Theorem C14_repoll_follows_plan : forall count cap fdo pw beh s t,
  map pw_timeout (b_calls (repoll count cap fdo pw beh s t)) =
  plan count cap t (observed count cap fdo pw beh s).
Proof. exact repoll_follows_plan. Qed.
Print Assumptions C14_repoll_follows_plan.

Example C14_plan_nonvacuous :
  plan 48 1024 4997 [(1024%nat, true); (0%nat, false)] = [4997; 0] /\
  plan 48 1024 4997 [(3%nat, true)] = [4997] /\
  length (plan 48 2 (-1) (repeat (2%nat, true) 100)) = 48%nat.
Proof. vm_compute. repeat split. Qed.

(* The scenario of harness/c14_fullbatch.c in small ([cap] = 2): two started handles are ready and
   fill the batch, the first callback starts a third handle.  The model polls again inside the same
   uv__io_poll with timeout 0 and with the new handle still in the watcher queue (not registered
   with the kernel): the second call is exactly the one the theorem above has to keep from blocking,
   and its premise [KI] holds of the start state. *)
Definition nv_s0 : state :=
  fst (run (fun k => match k with O => 5 | 1%nat => 6 | _ => 7 end) (fun _ => []) (fun _ => [])
           (sinit true false)
           [OOpen 0; OOpen 1; OOpen 2; OInit 0; OInit 1; OInit 2;
            OStart 0 (UVM true false); OStart 1 (UVM true false)]).
Definition nv_r0 : bres :=
  io_poll_full 2 (fun _ => 9)
    (fun k => match k with O => [(5, ONLY_IN); (6, ONLY_IN)] | _ => [] end)
    (fun k => match k with O => [OStart 2 (UVM true false)] | _ => [] end) nv_s0 500.
Example C14_repoll_scenario :
  KI nv_s0 /\
  map pw_timeout (b_calls nv_r0) = [500; 0] /\
  map (fun c => wq (pw_at c)) (b_calls nv_r0) = [[]; [2%nat]] /\
  map pw_ncb (b_calls nv_r0) = [0%nat; 2%nat] /\
  b_retry nv_r0 = false /\ wq (b_state nv_r0) = [2%nat].
Proof.
  split; [apply C14_repoll_hypothesis_reachable|]. vm_compute. repeat split.
Qed.
