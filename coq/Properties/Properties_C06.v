(* C06 - Stream reads.  Only statements, each closed by [exact] of a lemma proved in
   Proofs/StreamReadProofs.v, with Print Assumptions beneath.

   The model (Model/StreamRead.v): [exec E (init is_ipc o) ops] runs the top-level
   operations [ops] (uv_read_start / uv_read_stop / uv_close / one uv_run(NOWAIT)
   iteration with the epoll mask the kernel reported) on a stream whose
   read()/recvmsg() answers are the list [o]; [allocs E k] is what the k-th alloc_cb
   returns, [beh E k] the API calls the k-th read callback makes.  All theorems
   quantify over every E, o, ops (and both kinds of stream). *)
From UV Require Import Lib.Base Model.StreamRead Spec.StreamReadSpec Proofs.StreamReadProofs.
Local Open Scope Z_scope.

(* Exact byte stream.  [delivered tr]: the (offset, length) chunks of the peer's byte
   sequence handed to read callbacks with nread > 0, in order; [kernel tr]: the chunks
   read()/recvmsg() returned, in order.  They are the same list, the chunks follow one
   another from offset 0 without gap or overlap, and for every peer byte sequence the
   concatenation of the delivered buffers is its prefix of the length the kernel has
   handed out: nothing lost, duplicated or reordered, for every alloc size >= 1 or
   refusal and every stop/start/close interleaving. *)
Theorem C06_stream_exact :
  forall (A : Type) (peer : Z -> A) (E : env) (is_ipc : bool) (o : list ans) (ops : list op),
  let '(s', tr) := exec E (init is_ipc o) ops in
  delivered tr = kernel tr /\
  chain 0 (kernel tr) (pos s') /\
  flat_map (bytes peer) (delivered tr) = bytes peer (0, pos s').
Proof. exact stream_exact. Qed.
Print Assumptions C06_stream_exact.

(* Every alloc_cb result is handed to exactly one read callback before the next alloc_cb
   (cases nread > 0, 0, UV_ENOBUFS, error, UV_EOF); a read callback without a buffer
   (the short-cut UV_EOF) happens only while none is outstanding; nread never exceeds
   the buffer; read()/recvmsg() is only given the outstanding buffer, whole. *)
Theorem C06_alloc_paired :
  forall (E : env) (is_ipc : bool) (o : list ans) (ops : list op),
  paired None (snd (exec E (init is_ipc o) ops)) = true.
Proof. exact alloc_paired. Qed.
Print Assumptions C06_alloc_paired.

(* After UV_EOF, a read error (nread < 0 other than the user's own UV_ENOBUFS),
   uv_read_stop or uv_close there is no alloc or read callback until uv_read_start
   returns 0 again - and it never does after uv_close. *)
Theorem C06_silent_until_restart :
  forall (E : env) (is_ipc : bool) (o : list ans) (ops : list op),
  silent true false (snd (exec E (init is_ipc o) ops)) = true.
Proof. exact silent_until_restart. Qed.
Print Assumptions C06_silent_until_restart.

(* ... in particular UV_EOF is reported once: a later read callback is preceded by a
   successful uv_read_start. *)
Theorem C06_eof_once :
  forall (E : env) (is_ipc : bool) (o : list ans) (ops : list op)
         pre mid post t1 b1 o1 l1 t2 n2 b2 o2 l2,
  snd (exec E (init is_ipc o) ops) =
    pre ++ ERead t1 UV_EOF b1 o1 l1 :: mid ++ ERead t2 n2 b2 o2 l2 :: post ->
  In (ERet 0 0) mid.
Proof. exact eof_once. Qed.
Print Assumptions C06_eof_once.

(* UV_EOF only after all data.  Kernel hypothesis [kernel_ok true]: once read() has
   returned 0, or has come back short while the latest epoll report carried EPOLLHUP
   ("a short read means the socket buffer is empty"), it never returns data again.
   (errno 4095 does not exist; -4095 is UV_EOF.)  Then no data is read after any
   UV_EOF callback.  The second part of the hypothesis is a fact about the kernel for
   streams whose reads stop only when the buffer is empty (TCP, pipes without
   descriptor-carrying messages); see the refutation below for the others. *)
Theorem C06_eof_once_after_data :
  forall (E : env) (is_ipc : bool) (o : list ans) (ops : list op),
  Forall errno_ok o ->
  let tr := snd (exec E (init is_ipc o) ops) in
  kernel_ok true monB0 tr -> eof_after_all_data tr.
Proof. exact eof_once_after_data. Qed.
Print Assumptions C06_eof_once_after_data.

(* Refuted on the current code for IPC pipes: with only "no data after read() returned
   0" as kernel hypothesis - all the kernel guarantees when recvmsg stops behind a
   descriptor-carrying message - UV_EOF is reported while data is still buffered.
   Witness: peer sends "A" + descriptor, "BBBB", closes; answers [Data 1; Data 4; Eof],
   epoll reports POLLIN|POLLHUP: "A", UV_EOF; "BBBB" only after a new uv_read_start. *)
Theorem C06_ipc_premature_eof_refuted :
  exists (E : env) (o : list ans) (ops : list op),
  Forall errno_ok o /\
  let tr := snd (exec E (init true o) ops) in
  kernel_ok false monB0 tr /\ ~ eof_after_all_data tr.
Proof.
  exists wit_env, wit_oracle, wit_ops.
  destruct ipc_premature_eof as (H1 & H2 & H3 & _). split; [exact H1|]. split; [exact H2|exact H3].
Qed.
Print Assumptions C06_ipc_premature_eof_refuted.

(* What does hold for IPC pipes: the statement under the full hypothesis, i.e. on runs
   in which no short read under EPOLLHUP left data behind. *)
Theorem C06_ipc_eof_partial :
  forall (E : env) (o : list ans) (ops : list op),
  Forall errno_ok o ->
  let tr := snd (exec E (init true o) ops) in
  kernel_ok true monB0 tr -> eof_after_all_data tr.
Proof. intros E o ops. exact (eof_once_after_data E true o ops). Qed.
Print Assumptions C06_ipc_eof_partial.

(* No call through a NULL read_cb (uv_read_stop clears it), whatever the callbacks do. *)
Theorem C06_no_null_read_cb :
  forall (E : env) (is_ipc : bool) (o : list ans) (ops : list op),
  ~ In ECrash (snd (exec E (init is_ipc o) ops)).
Proof. exact no_null_callback. Qed.
Print Assumptions C06_no_null_read_cb.

(* R1-R3 of the design: READING implies callbacks installed; POLLIN is requested and the
   handle is active exactly while READING; READ_EOF implies not READING (until
   uv_read_start); a closing handle is neither reading nor readable. *)
Theorem C06_state_invariant :
  forall (E : env) (is_ipc : bool) (o : list ans) (ops : list op),
  let s := fst (exec E (init is_ipc o) ops) in
  (reading s = true -> rcb s <> None) /\
  pollin s = reading s /\ active s = reading s /\
  (eof s = true -> reading s = false) /\
  (closing s = true -> reading s = false /\ readable s = false) /\
  (closed s = true -> closing s = true).
Proof. exact state_invariant. Qed.
Print Assumptions C06_state_invariant.

(* Starvation bound: one wake-up (one uv_run iteration, from any state, any epoll mask)
   makes at most 32 alloc_cb calls, hence at most 32 buffer-carrying read callbacks. *)
Theorem C06_budget :
  forall (E : env) (s : st) (raw : Z), (nallocs (snd (run_once E s raw)) <= 32)%nat.
Proof. exact budget. Qed.
Print Assumptions C06_budget.

(* The checker that is extracted and run on the implementation's traces
   (Spec/StreamReadSpec.v: exact stream, pairing, silence, no NULL call) accepts every
   trace of the model. *)
Theorem C06_monitor_accepts_model :
  forall (E : env) (is_ipc : bool) (o : list ans) (ops : list op),
  monitor (snd (exec E (init is_ipc o) ops)) = (true, true, true, true).
Proof. exact monitor_model. Qed.
Print Assumptions C06_monitor_accepts_model.

(* the kernel hypothesis is satisfiable on a run that ends in the short-cut UV_EOF *)
Example C06_eof_hypotheses_satisfiable :
  let tr := snd (exec (mkEnv (fun _ => mkBuf true 64) (fun _ => [])) (init false [Data 5])
                      [OStart 1; ORun 17; ORun 17]) in
  kernel_ok true monB0 tr /\ In (ERead 1 UV_EOF None 0 0) tr /\ delivered tr = [(0, 5)].
Proof. exact eof_hypotheses_satisfiable. Qed.
Print Assumptions C06_eof_hypotheses_satisfiable.

(* the witness of the refutation delivers "A" and "BBBB" in order - around the UV_EOF *)
Example C06_refutation_trace :
  delivered (snd (exec wit_env (init true wit_oracle) wit_ops)) = [(0, 1); (1, 4)].
Proof. destruct ipc_premature_eof as (_ & _ & _ & H). exact H. Qed.
Print Assumptions C06_refutation_trace.
