(* C06 - Stream reads.  Only statements, each closed by [exact] of a lemma proved in
   Proofs/StreamReadProofs.v, with Print Assumptions beneath.

   The model (Model/StreamRead.v): [exec E (init pipe is_ipc o) ops] runs the top-level
   operations [ops] (uv_read_start / uv_read_stop / uv_close / ORun raw wout: one
   uv_run(NOWAIT) iteration with the epoll mask the kernel reported, wout = POLLOUT is
   requested by a waiting uv_write, so the handle is polled also while not READING /
   OIo ev: uv__stream_io entered directly with any mask, in any state / OWrite: a write from
   our side, whatever its outcome - it changes nothing on the read side) on a stream whose
   read()/recvmsg() answers are the list [o]; [allocs E k] is what the k-th alloc_cb
   returns, [beh E k] the API calls the k-th read callback makes; [pipe] says whether the
   stream is a uv_pipe_t (no READ_PARTIAL there since commit 34f0ffa), [is_ipc] whether
   it reads with recvmsg.  All theorems quantify over every E, o, ops, pipe, is_ipc. *)
From UV Require Import Lib.Base Model.StreamRead Spec.StreamReadSpec Proofs.StreamReadProofs.
Local Open Scope Z_scope.

(* Exact byte stream.  [delivered tr]: the (offset, length) chunks of the peer's byte
   sequence handed to read callbacks with nread > 0, in order; [kernel tr]: the chunks
   read()/recvmsg() returned, in order.  They are the same list, the chunks follow one
   another from offset 0 without gap or overlap, and for every peer byte sequence the
   concatenation of the delivered buffers is its prefix of the length the kernel has
   handed out: nothing lost, duplicated or reordered, for every alloc size >= 1 or
   refusal and every stop/start/close interleaving. *)
Theorem C06_stream_exact :
  forall (A : Type) (peer : Z -> A) (E : env) (pipe is_ipc : bool) (o : list ans) (ops : list op),
  let '(s', tr) := exec E (init pipe is_ipc o) ops in
  delivered tr = kernel tr /\
  chain 0 (kernel tr) (pos s') /\
  flat_map (bytes peer) (delivered tr) = bytes peer (0, pos s').
Proof. exact stream_exact. Qed.
Print Assumptions C06_stream_exact.

(* Every alloc_cb result is handed to exactly one read callback before the next alloc_cb
   (cases nread > 0, 0, UV_ENOBUFS, error, UV_EOF); a read callback without a buffer
   (the short-cut UV_EOF) happens only while none is outstanding; nread never exceeds
   the buffer; read()/recvmsg() is only given the outstanding buffer, whole. *)
Theorem C06_alloc_paired :
  forall (E : env) (pipe is_ipc : bool) (o : list ans) (ops : list op),
  paired None (snd (exec E (init pipe is_ipc o) ops)) = true.
Proof. exact alloc_paired. Qed.
Print Assumptions C06_alloc_paired.

(* After UV_EOF, a read error (nread < 0 other than the user's own UV_ENOBUFS),
   uv_read_stop or uv_close there is no alloc or read callback until uv_read_start
   returns 0 again - and it never does after uv_close.  This includes every io event
   that reaches uv__stream_io while READING is clear (handle still polled for POLLOUT,
   peer hangs up or resets: POLLHUP/POLLERR enter uv__read, whose loop guard tests the
   READING flag, not only read_cb - which UV_EOF and read errors leave set). *)
Theorem C06_silent_until_restart :
  forall (E : env) (pipe is_ipc : bool) (o : list ans) (ops : list op),
  silent true false (snd (exec E (init pipe is_ipc o) ops)) = true.
Proof. exact silent_until_restart. Qed.
Print Assumptions C06_silent_until_restart.

(* the scenario: data, UV_EOF, then POLLOUT|POLLERR|POLLHUP while a write waits (twice, and
   once as a direct uv__stream_io event) although the kernel would even have data: silent *)
Example C06_polled_after_eof_is_silent :
  let tr := snd (exec wit_env (init true false [Data 3; Eof; Data 9])
                      [OStart 1; ORun 1 false; ORun 17 false; ORun 28 true; OIo 25; ORun 28 true]) in
  filter (fun e => match e with ERead _ _ _ _ _ | EAlloc _ _ _ => true | _ => false end) tr =
    [EAlloc 0 65536 (mkBuf true 65536); ERead 1 3 (Some 0%nat) 0 3;
     EAlloc 1 65536 (mkBuf true 65536); ERead 1 UV_EOF (Some 1%nat) 0 0].
Proof. exact polled_after_eof_is_silent. Qed.
Print Assumptions C06_polled_after_eof_is_silent.

(* ... in particular UV_EOF is reported once: a later read callback is preceded by a
   successful uv_read_start. *)
Theorem C06_eof_once :
  forall (E : env) (pipe is_ipc : bool) (o : list ans) (ops : list op)
         pre mid post t1 b1 o1 l1 t2 n2 b2 o2 l2,
  snd (exec E (init pipe is_ipc o) ops) =
    pre ++ ERead t1 UV_EOF b1 o1 l1 :: mid ++ ERead t2 n2 b2 o2 l2 :: post ->
  In (ERet 0 0) mid.
Proof. exact eof_once. Qed.
Print Assumptions C06_eof_once.

(* UV_EOF only after all data, pipes (ipc or not) - full statement.  Kernel hypothesis
   [kernel_ok false]: once read()/recvmsg() has returned 0 it never returns data again
   (and errno 4095 does not exist; -4095 is UV_EOF).  Then no data is read after any
   UV_EOF callback: on a pipe READ_PARTIAL is never set, the POLLHUP short-cut is dead
   and every UV_EOF follows a read that returned 0 - also when the kernel stops short
   behind descriptor-carrying messages (item 20, repaired by commit 34f0ffa). *)
Theorem C06_eof_once_after_data_pipe :
  forall (E : env) (is_ipc : bool) (o : list ans) (ops : list op),
  Forall errno_ok o ->
  let tr := snd (exec E (init true is_ipc o) ops) in
  kernel_ok false monB0 tr -> eof_after_all_data tr.
Proof. exact eof_once_after_data_pipe. Qed.
Print Assumptions C06_eof_once_after_data_pipe.

(* UV_EOF only after all data, any stream (needed for TCP/TTY, which keep the
   short-cut): under [kernel_ok true], i.e. additionally "a read that comes back short
   while the latest epoll report carried EPOLLHUP means the socket buffer is empty". *)
Theorem C06_eof_once_after_data :
  forall (E : env) (pipe is_ipc : bool) (o : list ans) (ops : list op),
  Forall errno_ok o ->
  let tr := snd (exec E (init pipe is_ipc o) ops) in
  kernel_ok true monB0 tr -> eof_after_all_data tr.
Proof. exact eof_once_after_data. Qed.
Print Assumptions C06_eof_once_after_data.

(* History / why the hypothesis stays for non-pipe streams: with the short-cut and only
   "no data after read() returned 0", UV_EOF is reported while data is still buffered.
   This is what pipes did before commit 34f0ffa (item 20: "A" + descriptor, "BBBB",
   close; answers [Data 1; Data 4; Eof], masks POLLIN|POLLHUP: "A", UV_EOF, "BBBB" only
   after a new uv_read_start). *)
Theorem C06_shortcut_needs_short_read_hypothesis :
  exists (E : env) (o : list ans) (ops : list op),
  Forall errno_ok o /\
  let tr := snd (exec E (init false false o) ops) in
  kernel_ok false monB0 tr /\ ~ eof_after_all_data tr.
Proof.
  exists wit_env, wit_oracle, wit_ops.
  destruct shortcut_premature_eof as (H1 & H2 & H3 & _). split; [exact H1|]. split; [exact H2|exact H3].
Qed.
Print Assumptions C06_shortcut_needs_short_read_hypothesis.

(* ... and the same kernel answers on the repaired IPC pipe: "A", "BBBB", one UV_EOF. *)
Example C06_item20_repaired :
  let tr := snd (exec wit_env (init true true wit_oracle) [OStart 1; ORun 17 false; ORun 17 false; ORun 17 false; ORun 17 false]) in
  kernel_ok false monB0 tr /\
  delivered tr = [(0, 1); (1, 4)] /\
  filter (fun e => match e with ERead _ n _ _ _ => n =? UV_EOF | _ => false end) tr =
    [ERead 1 UV_EOF (Some 2%nat) 0 0] /\
  eof_data_b tr = true.
Proof. exact item20_repaired. Qed.
Print Assumptions C06_item20_repaired.

(* No call through a NULL read_cb (uv_read_stop clears it), whatever the callbacks do. *)
Theorem C06_no_null_read_cb :
  forall (E : env) (pipe is_ipc : bool) (o : list ans) (ops : list op),
  ~ In ECrash (snd (exec E (init pipe is_ipc o) ops)).
Proof. exact no_null_callback. Qed.
Print Assumptions C06_no_null_read_cb.

(* R1-R3 of the design: READING implies callbacks installed; POLLIN is requested and the
   handle is active exactly while READING; READ_EOF implies not READING (until
   uv_read_start); a closing handle is neither reading nor readable. *)
Theorem C06_state_invariant :
  forall (E : env) (pipe is_ipc : bool) (o : list ans) (ops : list op),
  let s := fst (exec E (init pipe is_ipc o) ops) in
  (reading s = true -> rcb s <> None) /\
  pollin s = reading s /\ active s = reading s /\
  (eof s = true -> reading s = false) /\
  (closing s = true -> reading s = false /\ readable s = false) /\
  (closed s = true -> closing s = true).
Proof. exact state_invariant. Qed.
Print Assumptions C06_state_invariant.

(* Starvation bound: one operation - in particular one wake-up (uv_run iteration or direct
   uv__stream_io event), from any state, with any mask - makes at most 32 alloc_cb calls,
   hence at most 32 buffer-carrying read callbacks. *)
Theorem C06_budget :
  forall (E : env) (s : st) (o : op), (nallocs (snd (op_run E s o)) <= 32)%nat.
Proof. exact budget. Qed.
Print Assumptions C06_budget.

(* The checker that is extracted and run on the implementation's traces
   (Spec/StreamReadSpec.v: exact stream, pairing, silence, no NULL call) accepts every
   trace of the model. *)
Theorem C06_monitor_accepts_model :
  forall (E : env) (pipe is_ipc : bool) (o : list ans) (ops : list op),
  monitor (snd (exec E (init pipe is_ipc o) ops)) = (true, true, true, true).
Proof. exact monitor_model. Qed.
Print Assumptions C06_monitor_accepts_model.

(* the kernel hypothesis is satisfiable on a run that ends in the short-cut UV_EOF *)
Example C06_eof_hypotheses_satisfiable :
  let tr := snd (exec (mkEnv (fun _ => mkBuf true 64) (fun _ => [])) (init false false [Data 5])
                      [OStart 1; ORun 17 false; ORun 17 false]) in
  kernel_ok true monB0 tr /\ In (ERead 1 UV_EOF None 0 0) tr /\ delivered tr = [(0, 5)].
Proof. exact eof_hypotheses_satisfiable. Qed.
Print Assumptions C06_eof_hypotheses_satisfiable.
