(* C10 - UDP.  Only statements, each closed by [exact] of a lemma proved in
   Proofs/UdpProofs.v, with Print Assumptions beneath.

   [run fx beh rbeh (init conn mm o r al) ops] is the trace of an arbitrary script [ops]
   (uv_udp_send / try_send / try_send2 / recv_start / recv_stop / close / getters /
   uv_run(NOWAIT) steps with any kernel readiness) on a fresh handle (connected or not,
   with or without UV_UDP_RECVMMSG), with arbitrary behaviour of the send callbacks [beh]
   and receive callbacks [rbeh], arbitrary sendmsg/sendmmsg answers [o], recvmsg/recvmmsg
   answers [r] and alloc_cb results [al].  [fx] is the index arithmetic of the sendmmsg
   loop of uv__udp_sendmsgv (false = as written in the tree, true = repaired);
   [sendmsgv_fixed] says which one the tree has.  Except for the try_send2 rule every
   theorem holds for both.

   In a trace, [handed tr] is the list of datagram sequence numbers (= submission order on
   the handle) handed to the OS, in the order of the system calls; [subs]/[cbs] are the
   request ids accepted by uv_udp_send / whose send_cb ran; [errs_of] pairs the first
   datagram of every failed sendmsg/sendmmsg (other than EINTR/EAGAIN/ENOBUFS) with the
   uv error; [owed_after [] pre] are the requests accepted in [pre] whose callback has not
   run in [pre]. *)
From UV Require Import Lib.Base Model.Udp Proofs.UdpProofs.
From Coq Require Import Sorting.Sorted.

Local Open Scope Z_scope.

(* Every trace of the model is accepted by the send monitor (Model/Udp.v, mon_step). *)
Theorem C10_send_monitor_accepts :
  forall fx beh rbeh conn mm o r al ops,
  exists m, mon_run mon0 (snd (run fx beh rbeh (init conn mm o r al) ops)) = Some m.
Proof. exact model_accepted_send. Qed.
Print Assumptions C10_send_monitor_accepts.

(* Each datagram is handed to the OS at most once and datagrams leave in submission
   order: the sequence numbers handed over are strictly increasing. *)
Theorem C10_send_once_in_order :
  forall fx beh rbeh conn mm o r al ops,
  StronglySorted lt (handed (snd (run fx beh rbeh (init conn mm o r al) ops))).
Proof.
  intros. destruct (model_accepted_send fx beh rbeh conn mm o r al ops) as (m & H).
  exact (accepted_once_in_order _ m H).
Qed.
Print Assumptions C10_send_once_in_order.

(* Every send request's callback fires exactly once: at every point of a run the callbacks
   that have run belong to pairwise distinct requests that uv_udp_send accepted before
   (never twice, never for a request that was not accepted), and when close_cb runs every
   accepted request has had its callback. *)
Theorem C10_send_cb_exactly_once :
  forall fx beh rbeh conn mm o r al ops pre post,
  snd (run fx beh rbeh (init conn mm o r al) ops) = pre ++ post ->
  NoDup (subs pre) /\ NoDup (cbs pre) /\ incl (cbs pre) (subs pre) /\
  (forall post', post = EClosed :: post' -> incl (subs pre) (cbs pre)).
Proof.
  intros fx beh rbeh conn mm o r al ops pre post E.
  destruct (model_accepted_send fx beh rbeh conn mm o r al ops) as (m & H).
  exact (accepted_cb_exactly_once _ m H pre post E).
Qed.
Print Assumptions C10_send_cb_exactly_once.

(* The status passed to send_cb is 0 exactly when the request's datagram was handed to the
   OS; otherwise it is the error of the failed system call whose first datagram it was, or
   UV_ECANCELED and uv_close was called before. *)
Theorem C10_status :
  forall fx beh rbeh conn mm o r al ops pre post id st,
  snd (run fx beh rbeh (init conn mm o r al) ops) = pre ++ ECb id st :: post ->
  exists sq ln, In (ESend id sq ln 0) pre /\
    ((In sq (handed pre) /\ st = 0) \/
     (~ In sq (handed pre) /\ st <> 0 /\
      (In (sq, st) (errs_of pre) \/ (st = UV_ECANCELED /\ In EClose pre)))).
Proof.
  intros fx beh rbeh conn mm o r al ops pre post id st E.
  destruct (model_accepted_send fx beh rbeh conn mm o r al ops) as (m & H).
  exact (accepted_status _ m H pre post id st E).
Qed.
Print Assumptions C10_status.

(* uv_udp_get_send_queue_count/size, wherever they are called (also inside callbacks),
   return the number / bytes of the requests still owed a callback. *)
Theorem C10_queue_getters_exact :
  forall fx beh rbeh conn mm o r al ops pre post sz ct act,
  snd (run fx beh rbeh (init conn mm o r al) ops) = pre ++ EGet sz ct act :: post ->
  ct = Z.of_nat (length (owed_after [] pre)) /\ sz = owed_bytes (owed_after [] pre).
Proof.
  intros fx beh rbeh conn mm o r al ops pre post sz ct act E.
  destruct (model_accepted_send fx beh rbeh conn mm o r al ops) as (m & H).
  exact (accepted_getters _ m H pre post sz ct act E).
Qed.
Print Assumptions C10_queue_getters_exact.

(* The same on states: in every state reached by a script the two counters are the number
   and the bytes of the requests in write_queue and write_completed_queue. *)
Theorem C10_queue_getters_exact_state :
  forall fx beh rbeh conn mm o r al ops,
  let s := fst (run fx beh rbeh (init conn mm o r al) ops) in
  sq_count s = Z.of_nat (length (cq s ++ wq s)) /\ sq_size s = sum_len (cq s ++ wq s).
Proof. exact getters_state. Qed.
Print Assumptions C10_queue_getters_exact_state.

(* The try_send2 rule, full statement, is [try_send2_prefix fx] (Proofs/UdpProofs.v):
     forall s lens flags addr s' ev n,
       udp_try_send2 fx s lens flags addr = (s', ev) ->
       In (ETry2 (next_seq s) (length lens) n) ev -> 0 < n ->
       handed ev = seq (next_seq s) (Z.to_nat n)
   - whenever uv_udp_try_send2 returns n > 0 the datagrams handed to the OS by that call
   are exactly the first n of the batch, in order, for every handle state, batch, flags and
   kernel answers.  Refuted for the code as it is: 50 datagrams, the kernel takes all it is
   offered (sendmmsg answers 20, then 10): the call returns 30 having handed over 0-19 and
   40-49 (DESIGN.md section 3 item 1). *)
Theorem C10_try_send2_prefix : try_send2_prefix sendmsgv_fixed.
Proof. exact try_send2_prefix_fixed. Qed.
Print Assumptions C10_try_send2_prefix.

(* History: before the repair (/repo commit "fix: uv_udp_try_send2 skipped datagrams after the
   first sendmmsg chunk") the index was advanced twice and the rule was false; the check
   still detects that arithmetic should it come back. *)
Theorem C10_try_send2_prefix_before_fix_refuted : ~ try_send2_prefix false.
Proof. exact try_send2_prefix_false. Qed.
Print Assumptions C10_try_send2_prefix_before_fix_refuted.

(* The rule for batches of at most 20 datagrams holds for either arithmetic. *)
Theorem C10_try_send2_prefix_partial :
  forall (s : st) (lens : list (N * N)) (flags : Z) (addr : nat) (s' : st) (ev : list event) (n : Z),
    (length lens <= 20)%nat ->
    udp_try_send2 sendmsgv_fixed s lens flags addr = (s', ev) ->
    In (ETry2 (next_seq s) (length lens) n) ev -> 0 < n ->
    handed ev = seq (next_seq s) (Z.to_nat n).
Proof. exact (try_send2_prefix_small sendmsgv_fixed). Qed.
Print Assumptions C10_try_send2_prefix_partial.

(* The full statement for the repaired index arithmetic (notes/C10_fix_try_send2.diff);
   it is C10_try_send2_prefix once sendmsgv_fixed is true. *)
Theorem C10_try_send2_prefix_after_fix : try_send2_prefix true.
Proof. exact try_send2_prefix_fixed. Qed.
Print Assumptions C10_try_send2_prefix_after_fix.

(* Every buffer obtained from alloc_cb is handed back exactly once (a recv_cb without
   UV_UDP_MMSG_CHUNK), chunk callbacks of a buffer come only between its allocation and its
   hand-back, and after chunk callbacks the hand-back carries UV_UDP_MMSG_FREE - this is
   what the buffer monitor [bmon_step] checks; at the end of the run no buffer is out.
   Precondition (DESIGN.md section 3 item 15): no uv_udp_recv_stop from inside a chunk
   callback. *)
Theorem C10_recv_buffers_returned :
  forall fx beh rbeh conn mm o r al ops,
  no_stop_in_chunk_cb rbeh ->
  exists nb, bmon_run bmon0 (snd (run fx beh rbeh (init conn mm o r al) ops)) = Some (None, nb).
Proof. exact model_accepted_buffers. Qed.
Print Assumptions C10_recv_buffers_returned.

(* The same for one POLLIN dispatch from any state. *)
Theorem C10_recv_buffers_returned_dispatch :
  forall fx rbeh s nb,
  no_stop_in_chunk_cb rbeh -> (nb <= next_buf s)%nat ->
  exists nb', bmon_run (None, nb) (snd (udp_recvmsg fx rbeh s)) = Some (None, nb') /\
              (nb' <= next_buf (fst (udp_recvmsg fx rbeh s)))%nat.
Proof. exact recv_buffers_returned_local. Qed.
Print Assumptions C10_recv_buffers_returned_dispatch.

(* ---- the hypotheses are satisfiable, the statements are not vacuous ---- *)

(* a send behind a forced EAGAIN, two more queued, POLLOUT: the OS rejects the first
   (EPERM) and takes the other two; a fourth is queued behind EAGAIN and the handle is
   closed: statuses -1, 0, 0, UV_ECANCELED (the same for both index arithmetics) *)
Example C10_example_send :
  forall fx,
  let tr := snd (run fx (fun _ => [OGet]) (fun _ _ => [])
                     (init false false [SErr 11; SErr 1; SRet 2; SErr 11] [] [])
                     [OSend 5 1%nat 1; OSend 6 1%nat 3; OSend 7 1%nat 1024; ORun false true; OSend 8 1%nat 1;
                      OClose; ORun false false]) in
  accepts tr = true /\ handed tr = [1; 2]%nat /\
  cbs tr = [0; 1; 2; 3]%nat /\
  In (ECb 0 (-1)) tr /\ In (ECb 3 UV_ECANCELED) tr /\ In (EGet 13 2 true) tr.
Proof. intros [|]; vm_compute; intuition. Qed.

(* receive with UV_UDP_RECVMMSG: two datagrams in a 128 KiB buffer, then EAGAIN *)
Example C10_example_recv :
  let rbeh := fun (_ : nat) (_ : bool) => [OGet] in
  no_stop_in_chunk_cb rbeh /\
  snd (run sendmsgv_fixed (fun _ => []) rbeh
           (init false true [] [RMsgs [mkM 0 10 false; mkM 1 70000 true]; RErr 11] [131072; 131072])
           [ORecvStart; ORun true false]) =
  [ERecvStart 0; ERun true false;
   EAlloc 0 131072; ERSys true 2 (RMsgs [mkM 0 10 false; mkM 1 70000 true]);
   ERecv 0 (Chunk 0) 10 (Some 0%nat) 8; EGet 0 0 true;
   ERecv 0 (Chunk 1) 70000 (Some 1%nat) 10; EGet 0 0 true;
   ERecv 0 Whole 0 None 16; EGet 0 0 true;
   EAlloc 1 131072; ERSys true 2 (RErr 11); ERecv 1 Whole 0 None 0; EGet 0 0 true].
Proof. split; [intros k [H|[]]; discriminate H|vm_compute; reflexivity]. Qed.

(* Observations outside the precondition (DESIGN.md section 3 item 15).
   uv_udp_recv_stop inside a chunk callback: the buffer is never handed back. *)
Example C10_recv_stop_in_chunk_cb_keeps_buffer :
  bmon_run bmon0
    (snd (run sendmsgv_fixed (fun _ => []) (fun k _ => if (k =? 0)%nat then [ORecvStop] else [])
              (init false true [] [RMsgs [mkM 0 10 false; mkM 1 10 false]] [131072])
              [ORecvStart; ORun true false])) = Some (Some (0%nat, true, true), 1%nat).
Proof. vm_compute. reflexivity. Qed.

(* An alloc_cb result below 64 KiB in recvmmsg mode: zero chunks, recvmmsg(vlen 0) answers
   0, the budget of 32 is never used up: the loop goes on as long as alloc_cb and the
   kernel keep answering (here: three rounds for three answers). *)
Example C10_recvmmsg_small_buffer_spins :
  map (fun e => match e with EAlloc b _ => Some b | _ => None end)
      (snd (run sendmsgv_fixed (fun _ => []) (fun _ _ => [])
                (init false true [] [RMsgs []; RMsgs []; RMsgs []] [100; 100; 100; 100])
                [ORecvStart; ORun true false])) =
  [None; None; Some 0; None; None; Some 1; None; None; Some 2; None; None;
   Some 3; None; None]%nat.
Proof. vm_compute. reflexivity. Qed.

(* destinations: an unconnected send to destination 2, then uv_udp_connect to destination 1
   and a send with a NULL address: msg_name is the given address for the first and NULL for the
   second, which therefore goes to the connected peer *)
Example C10_example_destinations :
  forall fx,
  let tr := snd (run fx (fun _ => []) (fun _ _ => []) (init false false [SRet 9; SRet 9] [] [])
                     [OSend 9 2%nat 1; ORun false true; OConnect 1%nat; OSend 9 0%nat 2; ORun false true]) in
  In (EName [(0%nat, 2%nat, 1%N)]) tr /\ In (EName [(1%nat, 0%nat, 2%N)]) tr /\
  delivered 0 [] tr = [(0, 2); (1, 1)]%nat.
Proof. intros [|]; vm_compute; intuition. Qed.

(* The kernel's rule is part of the OS oracle of the model: a message of more than IOV_MAX
   (1024) buffers is answered EMSGSIZE.  Consequence, for every batch, every kernel answer
   list and both index arithmetics: whatever uv__udp_sendmsgv (the path of uv_udp_send,
   uv_udp_try_send2 and, through uv__udp_sendmsg1, uv_udp_try_send) hands to the OS is a
   datagram of the batch with at most IOV_MAX buffers - so by C10_status the request of a longer
   datagram never reports 0 and try_send/try_send2 never count it as sent. *)
Theorem C10_oversized_datagram_not_sent :
  forall fx ds o res ev o',
  sendmsgv fx ds o = (res, ev, o') ->
  Forall (fun sq => exists d, In d ds /\ d_seq d = sq /\ (d_nb d <= IOV_MAX)%N) (handed ev).
Proof. exact oversized_not_handed. Qed.
Print Assumptions C10_oversized_datagram_not_sent.

(* 1025 one-byte buffers: the kernel refuses, the callback reports UV_EMSGSIZE, nothing is
   handed over; 1024 buffers go out *)
Example C10_example_iov_max :
  forall fx,
  let tr := snd (run fx (fun _ => []) (fun _ _ => []) (init false false [SRet 1025; SRet 1024] [] [])
                     [OSend 1025 1%nat 1025; OSend 1024 1%nat 1024; ORun false true]) in
  In (ESys1 0 (SErr 90)) tr /\ In (ECb 0 (-90)) tr /\ In (ECb 1 0) tr /\ handed tr = [1%nat].
Proof. intros [|]; vm_compute; intuition. Qed.
