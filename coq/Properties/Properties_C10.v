(* C10 - UDP.  Only statements, each closed by [exact] of a lemma proved in
   Proofs/UdpProofs.v, with Print Assumptions beneath.  [fx] is the index arithmetic
   of the sendmmsg loop of uv__udp_sendmsgv (false = as written in the tree,
   true = repaired); [sendmsgv_fixed] says which one the tree has. *)
From UV Require Import Lib.Base Model.Udp Proofs.UdpProofs.

Local Open Scope Z_scope.

(* The try_send2 rule, full statement: whenever uv_udp_try_send2 returns n > 0, the
   datagrams handed to the OS by that call are exactly the first n of the batch, in
   order - for every handle state, batch, flags and every sequence of kernel answers. *)
Definition C10_try_send2_prefix_statement (fx : bool) : Prop :=
  forall (s : st) (lens : list N) (flags : Z) (s' : st) (ev : list event) (n : Z),
    udp_try_send2 fx s lens flags = (s', ev) ->
    In (ETry2 (next_seq s) (length lens) n) ev -> 0 < n ->
    handed ev = seq (next_seq s) (Z.to_nat n).

(* Refuted for the code as it is: 50 datagrams, the kernel takes every one it is
   offered (sendmmsg answers 20, then 10); the call returns 30 having handed over
   datagrams 0-19 and 40-49. *)
Theorem C10_try_send2_prefix_refuted :
  sendmsgv_fixed = false /\ ~ C10_try_send2_prefix_statement sendmsgv_fixed.
Proof. split; [reflexivity|]. exact try_send2_prefix_false. Qed.
Print Assumptions C10_try_send2_prefix_refuted.

(* What does hold for the code as it is: the rule for batches of at most 20. *)
Theorem C10_try_send2_prefix_partial :
  forall (s : st) (lens : list N) (flags : Z) (s' : st) (ev : list event) (n : Z),
    (length lens <= 20)%nat ->
    udp_try_send2 sendmsgv_fixed s lens flags = (s', ev) ->
    In (ETry2 (next_seq s) (length lens) n) ev -> 0 < n ->
    handed ev = seq (next_seq s) (Z.to_nat n).
Proof. exact (try_send2_prefix_small sendmsgv_fixed). Qed.
Print Assumptions C10_try_send2_prefix_partial.

(* The full statement for the repaired index arithmetic (notes/C10_fix_try_send2.diff);
   becomes C10_try_send2_prefix once sendmsgv_fixed is true. *)
Theorem C10_try_send2_prefix_after_fix : C10_try_send2_prefix_statement true.
Proof. exact try_send2_prefix_fixed. Qed.
Print Assumptions C10_try_send2_prefix_after_fix.

Example C10_try_send2_example :
  let '(_, ev) := udp_try_send2 sendmsgv_fixed (init false false [SRet 2; SErr 11] [] []) [5; 6; 7]%N 0 in
  ev = [ESysN [0; 1; 2]%nat (SRet 2); ETry2 0 3 2] /\ handed ev = [0; 1]%nat.
Proof. vm_compute. auto. Qed.
