(* C16 - Resource exhaustion and interrupted system calls (statements only). *)
From UV Require Import Lib.Base Model.Faults Proofs.FaultsProofs.
Local Open Scope Z_scope.

Theorem C16_write2_fault_safe_refuted :
  exists (w : world) (l : ledger),
    o_res (uv_write2 6 false true l w) = Ret (RcErr ENOMEM) /\ o_led (uv_write2 6 false true l w) <> l.
Proof. exact write2_refuted_witness. Qed.
Print Assumptions C16_write2_fault_safe_refuted.
