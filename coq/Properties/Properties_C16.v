(* C16 - Resource exhaustion and interrupted system calls are survived cleanly.
   Only statements, each closed by [exact] of a lemma proved in Proofs/FaultsProofs.v,
   with Print Assumptions beneath.  The models (Model/Faults.v) consume an oracle:
   w_alloc = answers of the allocator, w_sys = answers of the kernel
   (Ok | Fail errno | Intr); the ledger records what a call allocated / registered. *)
From UV Require Import Lib.Base Model.Faults Proofs.FaultsProofs.
Local Open Scope Z_scope.

(* ---- interrupted system calls ------------------------------------------------ *)
(* Two oracles that differ only in interrupted calls (any number of Intr answers
   inserted anywhere) give the same result, ledger and callback status. *)
Theorem C16_eintr_transparent :
  forall w1 w2, w_alloc w1 = w_alloc w2 -> strip (w_sys w1) = strip (w_sys w2) ->
  (forall l, obs (uv_accept_fd l w1) = obs (uv_accept_fd l w2)) /\
  (forall n c e l, obs (uv_write2 n c e l w1) = obs (uv_write2 n c e l w2)) /\
  (forall n e p a l, obs (uv_udp_send n e p a l w1) = obs (uv_udp_send n e p a l w2)) /\
  (forall l, obs (uv_async_send l w1) = obs (uv_async_send l w2)) /\
  fst (uv_read_step w1) = fst (uv_read_step w2).
Proof.
  intros w1 w2 Ha Hs. assert (W : weq w1 w2) by (split; assumption).
  split; [intros; apply accept_weq; exact W|].
  split; [intros; apply write2_weq; exact W|].
  split; [intros; apply udp_send_weq; exact W|].
  split; [intros; apply async_send_weq; exact W|].
  apply read_step_weq; exact W.
Qed.
Print Assumptions C16_eintr_transparent.

(* the read loops of the wake-up channels: the outcome depends on the oracle with the
   interrupted calls removed only *)
Theorem C16_eintr_transparent_wakeup :
  forall o lg lg',
  fst (fst (uv_async_io o lg)) = fst (fst (uv_async_io (strip o) lg')) /\
  fst (fst (uv_signal_event o lg)) = fst (fst (uv_signal_event (strip o) lg')).
Proof. intros; split; [apply async_io_strip | apply signal_event_strip]. Qed.
Print Assumptions C16_eintr_transparent_wakeup.

(* concrete form: k interrupted calls in front of any oracle *)
Theorem C16_eintr_storm :
  forall k n c e l al sy lg,
  obs (uv_write2 n c e l (mkW al (repeat Intr k ++ sy) lg)) = obs (uv_write2 n c e l (mkW al sy lg)) /\
  obs (uv_accept_fd l (mkW al (repeat Intr k ++ sy) lg)) = obs (uv_accept_fd l (mkW al sy lg)).
Proof.
  intros. split; [apply write2_weq | apply accept_weq]; split; cbn; auto using strip_app_intr.
Qed.
Print Assumptions C16_eintr_storm.

(* with the answers the kernel can give on these descriptors (success, EAGAIN, EINTR) the
   wake-up never aborts and the signal message is dispatched *)
Theorem C16_wakeup_safe :
  forall o lg l w,
  Forall (fun a => a = Ok \/ a = Fail EAGAIN \/ a = Intr) o ->
  Forall (fun a => a = Ok \/ a = Fail EAGAIN \/ a = Intr) (w_sys w) ->
  fst (fst (uv_async_io o lg)) = Ret RcOk /\
  fst (fst (uv_signal_event o lg)) = (Ret RcOk, true) /\
  o_res (uv_async_send l w) = Ret RcOk /\ o_led (uv_async_send l w) = l.
Proof.
  intros o lg l w F1 F2. split; [apply async_io_safe; exact F1|].
  split; [apply signal_event_dispatched; exact F1|]. apply async_send_safe; exact F2.
Qed.
Print Assumptions C16_wakeup_safe.

(* ---- fault_safe: result = fault-free result, or UV_E<errno> of an injected fault with the
        ledger as before the call, or abort() at a permitted site -------------------- *)
Theorem C16_accept_fault_safe :
  forall l w,
  (o_res (uv_accept_fd l w) = Ret RcOk /\ o_led (uv_accept_fd l w) = add_fds 1 l) \/
  (exists e, o_res (uv_accept_fd l w) = Ret (RcErr e) /\ In (Fail e) (w_sys w) /\ o_led (uv_accept_fd l w) = l).
Proof. exact accept_fault_safe. Qed.
Print Assumptions C16_accept_fault_safe.

Theorem C16_udp_send_fault_safe :
  forall n e p a l w,
  let o := uv_udp_send n e p a l w in
  o_res o = Ret RcOk \/ (o_res o = Ret (RcErr ENOMEM) /\ In false (w_alloc w) /\ o_led o = l).
Proof. exact udp_send_fault_safe. Qed.
Print Assumptions C16_udp_send_fault_safe.

Theorem C16_fs_path_fault_safe :
  forall ps l w,
  safe_outcome l w (uv_fs_stat_async ps l w) /\ safe_outcome l w (uv_fs_rename_async ps l w).
Proof. intros; split; [apply fs_stat_fault_safe | apply fs_rename_fault_safe]. Qed.
Print Assumptions C16_fs_path_fault_safe.

Theorem C16_getaddrinfo_fault_safe :
  forall ps l w,
  safe_outcome l w (uv_getaddrinfo None ps l w) /\
  (forall code, o_res (uv_getaddrinfo (Some code) ps l w) = Ret (RcOther code) /\
                o_led (uv_getaddrinfo (Some code) ps l w) = l).
Proof. intros; split; [apply getaddrinfo_fault_safe | intros; apply getaddrinfo_idna_error]. Qed.
Print Assumptions C16_getaddrinfo_fault_safe.

Theorem C16_close_fd :
  forall l w,
  snd (fst (uv_close_fd l w)) = add_fds (-1) l /\
  (hd Ok (w_sys w) = Intr -> fst (fst (uv_close_fd l w)) = RcOk).
Proof. exact close_fd_spec. Qed.
Print Assumptions C16_close_fd.

Theorem C16_maybe_resize_abort_permitted :
  forall need l w,
  fst (fst (maybe_resize need l w)) = None \/
  (fst (fst (maybe_resize need l w)) = Some SMaybeResize /\ permitted SMaybeResize = true /\ In false (w_alloc w)).
Proof.
  intros. destruct (maybe_resize_spec need l w) as [H|[H1 H2]]; [left; exact H | right; repeat split; auto].
Qed.
Print Assumptions C16_maybe_resize_abort_permitted.

(* ---- uv_write2 (item 7, repaired in /repo by f63c297: full statement) ------------------------ *)
Theorem C16_write2_fault_safe :
  forall n c e l w,
  let o := uv_write2 n c e l w in
  (o_res o = Ret RcOk /\ l_reqs (o_led o) = l_reqs l + 1) \/
  (o_res o = Ret (RcErr ENOMEM) /\ In false (w_alloc w) /\ o_led o = l).
Proof. exact write2_fault_safe. Qed.
Print Assumptions C16_write2_fault_safe.

(* history: the order before f63c297 (register, then allocate) does not satisfy it, and differs
   from the current code in nothing else *)
Theorem C16_write2_unfixed_refuted :
  (exists (w : world) (l : ledger),
    o_res (uv_write2_unfixed 6 false true l w) = Ret (RcErr ENOMEM) /\
    o_led (uv_write2_unfixed 6 false true l w) = add_reqs 1 l /\ o_led (uv_write2_unfixed 6 false true l w) <> l) /\
  (forall n c e l w, o_res (uv_write2 n c e l w) = Ret RcOk ->
     obs (uv_write2_unfixed n c e l w) = obs (uv_write2 n c e l w)).
Proof. split; [exact write2_unfixed_refuted | exact write2_unfixed_same_on_success]. Qed.
Print Assumptions C16_write2_unfixed_refuted.

(* ---- uv_fs_poll_start (item 8, repaired in /repo by 9bc8132: full statement) ------------------ *)
Theorem C16_fs_poll_start_fault_safe :
  forall act ps l w, safe_outcome l w (uv_fs_poll_start act ps l w).
Proof. exact fs_poll_start_fault_safe. Qed.
Print Assumptions C16_fs_poll_start_fault_safe.

(* ---- uv_os_environ (item 9, repaired in /repo by 75025a4: full statement) ---------------------- *)
Theorem C16_os_environ_fault_safe :
  forall env l w,
  let o := uv_os_environ env l w in
  o_res o = Ret RcOk \/ (o_res o = Ret (RcErr ENOMEM) /\ In false (w_alloc w) /\ o_led o = l).
Proof. exact os_environ_fault_safe. Qed.
Print Assumptions C16_os_environ_fault_safe.

(* history: freeing slot [cnt] instead of [i] leaked every name duplicated so far *)
Theorem C16_os_environ_unfixed_refuted :
  exists (env : list bool) (w : world) (l : ledger),
    o_res (uv_os_environ_unfixed env l w) = Ret (RcErr ENOMEM) /\
    l_mem (o_led (uv_os_environ_unfixed env l w)) = l_mem l + 2.
Proof. exact os_environ_unfixed_refuted. Qed.
Print Assumptions C16_os_environ_unfixed_refuted.

(* ---- uv_fs_event_start (item 17, repaired in /repo by 3625d2b: full statement) ----------------------- *)
(* every error return leaves the request / handle / allocation accounting AND the kernel watches
   as before; descriptors too, up to the loop-owned inotify descriptor, which may have been
   created (io = false) and is released by uv_loop_close; abort only in maybe_resize *)
Theorem C16_fs_event_start_fault_safe :
  forall io kw nr l w,
  let o := uv_fs_event_start io kw nr l w in
  o_res o = Ret RcOk \/
  (exists s, o_res o = Abort s /\ permitted s = true) \/
  (exists r, o_res o = Ret r /\ r <> RcOk /\ same_accounting l (o_led o) /\
     l_watch (o_led o) = l_watch l /\
     (l_fds (o_led o) = l_fds l \/ (io = false /\ l_fds (o_led o) = l_fds l + 1))).
Proof. exact fs_event_start_fault_safe. Qed.
Print Assumptions C16_fs_event_start_fault_safe.

(* history: before 3625d2b the UV_ENOMEM return left the kernel watch behind (same oracle, the
   current code does not) *)
Example C16_fs_event_start_unfixed_watch :
  o_res (uv_fs_event_start_unfixed true false l0 (mkW [false] [] [])) = Ret (RcErr ENOMEM) /\
  l_watch (o_led (uv_fs_event_start_unfixed true false l0 (mkW [false] [] []))) = 1 /\
  o_res (uv_fs_event_start true false false l0 (mkW [false] [] [])) = Ret (RcErr ENOMEM) /\
  l_watch (o_led (uv_fs_event_start true false false l0 (mkW [false] [] []))) = 0.
Proof. exact fs_event_start_unfixed_watch_witness. Qed.
Print Assumptions C16_fs_event_start_unfixed_watch.

(* ---- uv_spawn -------------------------------------------------------------------------------- *)
(* every error return leaves request / active-handle counters and the allocation ledger as
   before; the process handle itself is linked into handle_queue (it must be closed); every
   descriptor created by the call is closed again, except - when the failure is the signal pipe
   or fork() - the parent ends of the stdio pipes, which the caller's stream handles own then *)
Theorem C16_spawn_error_accounting :
  forall stdio fc l w r,
  o_res (uv_spawn stdio fc l w) = Ret r -> r <> RcOk ->
  same_accounting (add_hq 1 l) (o_led (uv_spawn stdio fc l w)) /\
  (l_fds (o_led (uv_spawn stdio fc l w)) = l_fds l \/
   l_fds (o_led (uv_spawn stdio fc l w)) = l_fds l + Z.of_nat (npipes stdio)).
Proof.
  intros stdio fc l w r H N. split; [exact (spawn_error_accounting stdio fc l w r H N)|].
  exact (spawn_error_fds stdio fc l w r H N).
Qed.
Print Assumptions C16_spawn_error_accounting.

(* ---- uv_loop_init (item 10 repaired in /repo by 9298bc0; item 23 still refuted) ------------------ *)
(* every return: success; or an error code with the accounting restored and no descriptor left
   (except the process-wide signal lock pipe created by the very first loop); or abort() in
   maybe_resize (permitted) or in the process-wide signal initialisation (not permitted) *)
Theorem C16_loop_init_partial :
  forall first l w,
  let o := uv_loop_init first l w in
  o_res o = Ret RcOk \/
  (exists s, o_res o = Abort s /\ (s = SMaybeResize \/ (s = SSignalGlobalInit /\ first = true))) \/
  (exists r, o_res o = Ret r /\ r <> RcOk /\ same_accounting l (o_led o) /\
     (l_fds (o_led o) = l_fds l \/ (first = true /\ l_fds (o_led o) = l_fds l + 2))).
Proof. exact loop_init_partial. Qed.
Print Assumptions C16_loop_init_partial.

Theorem C16_loop_init_abort_refuted :
  exists (w : world) (l : ledger) (s : site),
    o_res (uv_loop_init true l w) = Abort s /\ permitted s = false /\
    In (Fail EMFILE) (w_sys w) /\ Forall (fun a => a = Ok \/ a = Fail EMFILE) (w_sys w).
Proof. exact loop_init_abort_witness. Qed.
Print Assumptions C16_loop_init_abort_refuted.

(* ---- the timeout loop of uv__io_poll under interrupted / event-less wake-ups ------------------------ *)
(* For every script of epoll_pwait answers whose reported elapsed times lie within the timeout
   of their call (r_ok), with and without UV_METRICS_IDLE_TIME: the time blocked never exceeds
   the timeout the function was given, and every call passes a timeout of at most
   given - elapsed-so-far (never negative). *)
Theorem C16_io_poll_respects_timeout :
  forall metrics T o,
  0 <= T -> r_ok (io_poll metrics T o) = true ->
  r_blocked (io_poll metrics T o) <= T /\
  Forall (fun c => fst c + snd c <= T /\ 0 <= fst c) (r_calls (io_poll metrics T o)).
Proof. exact io_poll_respects_timeout. Qed.
Print Assumptions C16_io_poll_respects_timeout.

(* each retry passes exactly given - elapsed-so-far (full statement since /repo c841fbc); the
   only other calls are the non-blocking probe of the metrics variant, at time 0, and the
   re-polls after a completely filled batch (next theorem) *)
Theorem C16_io_poll_retry_exact :
  forall metrics T o,
  0 <= T -> r_ok (io_poll metrics T o) = true ->
  Forall (fun c => fst c = T - snd c \/ (metrics = true /\ c = (0, 0)) \/ In c (r_full_calls (io_poll metrics T o)))
         (r_calls (io_poll metrics T o)).
Proof. exact io_poll_retry_exact. Qed.
Print Assumptions C16_io_poll_retry_exact.

(* after a completely filled batch (nfds == 1024) the function polls again WITHOUT blocking:
   whatever the script, the entry timeout (including -1) and the metrics flag, every epoll_pwait
   call that follows a full batch has timeout 0; and (for admissible scripts, T >= 0) the total
   blocking time never exceeds the entry timeout.  The example shows such calls exist. *)
Theorem C16_io_poll_full_batch_repoll_nonblocking :
  (forall metrics T o, Forall (fun c => fst c = 0) (r_full_calls (io_poll metrics T o))) /\
  (forall metrics T o, 0 <= T -> r_ok (io_poll metrics T o) = true -> r_blocked (io_poll metrics T o) <= T) /\
  (r_calls (io_poll false 200 [PFull 10]) = [(0, 10); (200, 0)] /\
   r_full_calls (io_poll false 200 [PFull 10]) = [(0, 10)] /\
   r_blocked (io_poll false 200 [PFull 10]) = 10 /\
   r_full_calls (io_poll true (-1) [PTimeout; PFull 5; PFull 0; PIntr 0]) = [(0, 5); (0, 5)]).
Proof.
  split; [exact io_poll_full_batch_nonblocking|]. split; [|exact io_poll_full_batch_example].
  intros m T o HT OK. exact (proj1 (io_poll_respects_timeout m T o HT OK)).
Qed.
Print Assumptions C16_io_poll_full_batch_repoll_nonblocking.

(* interrupted calls are transparent: any two runs of interruptions that report the same total
   elapsed time (any number, any lengths), in front of any script, give the same wake-up time,
   the same ending and the same validity; with nothing but interruptions the poll wakes up
   exactly when its timeout is over; the metrics variant continues exactly like the plain one
   after its non-blocking probe *)
Theorem C16_io_poll_eintr_transparent :
  (forall T es1 es2 o,
     Forall (fun e => 0 <= e) es1 -> Forall (fun e => 0 <= e) es2 ->
     fold_right Z.add 0 es1 = fold_right Z.add 0 es2 -> fold_right Z.add 0 es1 < T ->
     pobs (io_poll false T (map PIntr es1 ++ o)) = pobs (io_poll false T (map PIntr es2 ++ o))) /\
  (forall T es, Forall (fun e => 0 <= e) es -> fold_right Z.add 0 es < T ->
     r_blocked (io_poll false T (map PIntr es)) = T /\ r_end (io_poll false T (map PIntr es)) = PeTimeout /\
     r_ok (io_poll false T (map PIntr es)) = true) /\
  (forall T o probe, (0 < T \/ T = -1) -> probe = PTimeout \/ probe = PIntr 0 ->
     pobs (io_poll true T (probe :: o)) = pobs (io_poll false T o)).
Proof.
  split; [exact io_poll_eintr_transparent|]. split; [exact io_poll_wakeup_exact|].
  exact io_poll_metrics_reduces.
Qed.
Print Assumptions C16_io_poll_eintr_transparent.

(* history: before c841fbc base was never advanced; from the second retry on the time since
   entry was subtracted again, the poll woke up early, and even an interruption reporting no
   elapsed time moved the wake-up (it does not on the current code) *)
Theorem C16_io_poll_unfixed_refuted :
  (exists T o,
    r_ok (io_poll_unfixed T o) = true /\
    nth_call 2 (io_poll_unfixed T o) = Some (700, 200) /\ 700 <> T - 200 /\
    r_end (io_poll_unfixed T o) = PeTimeout /\ r_blocked (io_poll_unfixed T o) < T) /\
  r_blocked (io_poll_unfixed 1000 [PIntr 100; PIntr 0]) <> r_blocked (io_poll_unfixed 1000 [PIntr 100]) /\
  r_blocked (io_poll false 1000 [PIntr 100; PIntr 0]) = r_blocked (io_poll false 1000 [PIntr 100]).
Proof. split; [exact io_poll_unfixed_retry_exact_refuted | exact io_poll_unfixed_not_transparent]. Qed.
Print Assumptions C16_io_poll_unfixed_refuted.

(* ---- the hypotheses are satisfiable / the models run ----------------------------------------------- *)
Example C16_example :
  o_res (uv_spawn [true; true; false] true l0 (mkW [] [Ok; Fail EMFILE] [])) = Ret (RcErr EMFILE) /\
  o_led (uv_spawn [true; true; false] true l0 (mkW [] [Ok; Fail EMFILE] [])) = add_hq 1 l0 /\
  o_res (uv_spawn [true; true; false] true l0 (mkW [] [] [])) = Ret RcOk /\
  l_fds (o_led (uv_spawn [true; true; false] true l0 (mkW [] [] []))) = 2.
Proof. exact spawn_examples. Qed.
Print Assumptions C16_example.
