(* C14 - uv_poll / io watchers.  Only statements, each closed by a lemma proved in
   Proofs/IoWatchProofs*.v, with Print Assumptions beneath.

   [run fdo pw beh (sinit ring strict) os] is the trace of the script [os] (descriptor
   operations, uv_poll_init/start/stop/uv_close, uv__io_start/stop/close/feed on bare
   watchers, uv_run(NOWAIT)) where the k-th open/dup is answered with number [fdo k],
   the k-th epoll_pwait with [pw k] (ANY list of (descriptor, events)), and the k-th
   callback performs the operations [beh k] (any operations on any handles, also on
   the handle being called back and on those later in the same batch).
   [ring]: with / without the io_uring control ring.  [strict]: which usage discipline
   the guards of the script language enforce (Model/IoWatch.v, [api]); false = the
   documented rules of uv_poll, true = additionally one not-closed handle per number.
   The model is that of src/unix/poll.c after the repairs 4af929c and 2caaa44.

   A poll callback event [ECb h status ev req efd rep hfd gs n] carries, besides what
   the user sees (handle, status, events), ghosts: [req] the mask of the latest
   successful uv_poll_start of h, [gs] = Some k if h was started when k epoll_pwait
   calls had been made and has not been stopped since (None: stopped, closed or never
   started), [efd]/[rep] the entry of the batch being dispatched (descriptor, events as
   epoll_pwait reported them), [hfd] the descriptor of h, [n] the number of
   epoll_pwait calls made so far (the batch being dispatched is the n-th). *)
From UV Require Import Lib.Base Model.IoWatch Proofs.IoWatchProofs Proofs.IoWatchProofsN
  Proofs.IoWatchProofsK Proofs.IoWatchProofsX.
Local Open Scope Z_scope.

(* Only requested and reported: every poll callback of every run is made for an
   entry of the current batch that names the handle's own descriptor, and either
   reports status 0 with a non-empty set of events, all of them requested, each of
   them reported by the kernel for that descriptor in this batch (or the kernel
   reported POLLERR/POLLHUP: the peer hung up), or reports UV_EBADF with no events
   when the kernel reported POLLERR. *)
Theorem C14_only_requested_and_reported :
  forall fdo pw beh os ring strict,
  Forall (fun e => match e with
    | ECb h st ev req efd rep hfd gs n =>
        efd = hfd /\
        ((st = 0 /\ ev <> m0 /\ mand ev req = ev /\
          (m_err rep = true \/ m_hup rep = true \/ mand ev rep = ev)) \/
         (st = UV_EBADF /\ ev = m0 /\ m_err rep = true))
    | _ => True end)
    (snd (run fdo pw beh (sinit ring strict) os)).
Proof.
  intros. eapply Forall_impl; [|apply (callbacks_ok fdo pw beh os ring strict)].
  intros e H. destruct e; auto. destruct H as [_ [H1 H2]]. split; auto.
Qed.
Print Assumptions C14_only_requested_and_reported.

(* None after stop: a poll callback is made only for a handle that is started (a
   uv_poll_start succeeded and neither uv_poll_stop, uv_close nor an UV_EBADF stop
   happened since) and whose start precedes the epoll_pwait call that fetched the
   batch: events already in the batch when the handle is stopped, closed or
   restarted are dropped, and a handle started inside the batch - also a new handle
   on a re-used descriptor number - gets nothing from it. *)
Theorem C14_none_after_stop :
  forall fdo pw beh os ring strict,
  Forall (fun e => match e with
    | ECb h st ev req efd rep hfd gs n => exists k, gs = Some k /\ (k < n)%nat
    | _ => True end)
    (snd (run fdo pw beh (sinit ring strict) os)).
Proof.
  intros. eapply Forall_impl; [|apply (callbacks_ok fdo pw beh os ring strict)].
  intros e H. destruct e; auto. destruct H as [H _]. exact H.
Qed.
Print Assumptions C14_none_after_stop.

(* ... where the ghost means what it says: uv_poll_stop (hence uv_close, and the
   stop that uv_poll_start begins with) sets it to None in every reachable state,
   and only a successful uv_poll_start with a non-empty mask sets it, to the
   current number of epoll_pwait calls and the requested mask. *)
Theorem C14_ghost_stop :
  forall s i, NI s -> (i < length (hs s))%nat -> g_start (hget (poll_stop s i) i) = None.
Proof. exact ghost_after_stop. Qed.
Print Assumptions C14_ghost_stop.

Theorem C14_ghost_start :
  forall s i m s', NI s -> (i < length (hs s))%nat -> poll_start s i m = (s', 0) -> mzero m = false ->
  g_start (hget s' i) = Some (npw s) /\ g_req (hget s' i) = mand m ALLEV.
Proof. exact ghost_after_start. Qed.
Print Assumptions C14_ghost_start.

Theorem C14_invariant_reachable :
  forall fdo pw beh os ring strict, NI (fst (run fdo pw beh (sinit ring strict) os)).
Proof.
  intros. destruct (run fdo pw beh (sinit ring strict) os) as [s' evs] eqn:H.
  eapply run_NI in H; [|apply NI_init]. apply H.
Qed.
Print Assumptions C14_invariant_reachable.

(* Kernel in sync at block: whenever epoll_pwait is called (any timeout), every
   descriptor in libuv's registry is in the kernel's interest set under its current
   open file with exactly the requested mask, and every kernel registration belongs
   to the current open file of the descriptor of a handle that has not been closed
   (none is left from a closed handle, also when its open file lives on in a dup).

   Holds for ALL scripts of the script language, all oracle answers, callbacks doing
   anything, with and without the control ring, both settings of [strict].  What the
   script language demands of the user (operations violating it are not performed,
   see [api] in Model/IoWatch.v) is exactly:
     R1  no operation on a handle after uv_close / uv__io_close of it;
     R2  a descriptor is not closed while an ACTIVE poll handle polls it (the rule
         of the uv_poll documentation), nor while a stream-like watcher on it has not
         been closed (libuv's streams own their descriptor);
     R3  uv_poll_start / uv__io_start only on a descriptor number that is open;
     R4  a stream-like watcher is initialised only on a number no other not-closed
         handle uses, and no poll handle is initialised on a number a not-closed
         stream-like watcher owns (uv__stream_open / uv_poll_init check uv__fd_exists).
   Several poll handles on one descriptor, closing the descriptor of a stopped or
   UV_EBADF-stopped handle before the handle, re-use of the number by new handles and
   dups kept open elsewhere are all allowed.  (Before the repairs 4af929c and 2caaa44
   of src/unix/poll.c this statement was refuted for [strict] = false by the scripts
   [script_shared] and [script_ebadf] of Proofs/IoWatchProofsX.v.) *)
(* Scope: [EPwait] is the epoll_pwait call that follows the registration loop of a uv__io_poll,
   whatever its timeout.  The further epoll_pwait calls that one uv__io_poll makes after a completely
   full batch of 1024 events are the subject of Model/IoPollBatch.v / Properties_C14_batch.v: they are
   made with an unflushed watcher_queue, and the theorem there is that they never block (timeout 0);
   harness/c14_fullbatch.c ties that loop to the real library. *)
Definition C14_in_sync (s : state) : Prop :=
  (forall fd i, reg s fd = Some i ->
     exists o, fdt s fd = Some o /\ ep s fd o = Some (h_pev (hget s i))) /\
  (forall fd o m, ep s fd o = Some m ->
     fdt s fd = Some o /\
     exists i, (i < length (hs s))%nat /\ h_closed (hget s i) = false /\ h_fd (hget s i) = fd).

Theorem C14_kernel_in_sync_at_block :
  forall fdo pw beh os ring strict,
  Forall (fun e => match e with EPwait s _ => C14_in_sync s | _ => True end)
         (snd (run fdo pw beh (sinit ring strict) os)).
Proof.
  intros. eapply Forall_impl; [|apply (kernel_in_sync fdo pw beh os ring strict)].
  intros e He. destruct e; auto. destruct He as [A B]. split; auto.
  intros fd o m Hm. destruct (B _ _ _ Hm) as [F [i [[G1 G2] G3]]]. split; auto. exists i. auto.
Qed.
Print Assumptions C14_kernel_in_sync_at_block.

(* the scripts that refuted it before the repairs, now in sync: the started handle of
   [script_shared] keeps its registration; nothing is left under the closed number
   of [script_ebadf] *)
Example C14_former_counterexamples_in_sync :
  probe_watched (snd (run (fun _ => 5) (fun _ => []) (fun _ => []) (sinit true false) script_shared)) 1 5
    = Some (Some ONLY_IN, ONLY_IN) /\
  probe_entry (snd (run fdo_ebadf pw_ebadf beh_ebadf (sinit false false) script_ebadf)) 1 5 0%nat
    = Some (None, None).
Proof. split; [exact shared_in_sync|exact ebadf_in_sync]. Qed.
Print Assumptions C14_former_counterexamples_in_sync.

(* no abort() of the registration protocol is reachable *)
Theorem C14_no_abort :
  forall fdo pw beh os ring strict, aborted (fst (run fdo pw beh (sinit ring strict) os)) = false.
Proof.
  intros. destruct (run fdo pw beh (sinit ring strict) os) as [s' evs] eqn:H.
  eapply run_KI in H; [|apply KI_init]. destruct H as [K _]. apply (k_abort _ _ K).
Qed.
Print Assumptions C14_no_abort.

(* The flag translation tables (uv_poll_start: UV to POLL flags, uv__poll_io: back), for
   every one of the 16 request masks: READABLE 1 -> POLLIN 1, WRITABLE 2 -> POLLOUT 4,
   DISCONNECT 4 -> POLLRDHUP 0x2000, PRIORITIZED 8 -> POLLPRI 2, and combinations. *)
Theorem C14_flag_table :
  map poll_of_uv [0; 1; 2; 3; 4; 5; 6; 7; 8; 9; 10; 11; 12; 13; 14; 15] =
  [0; 1; 4; 5; 8192; 8193; 8196; 8197; 2; 3; 6; 7; 8194; 8195; 8198; 8199] /\
  forall v, In v [0; 1; 2; 3; 4; 5; 6; 7; 8; 9; 10; 11; 12; 13; 14; 15] ->
    uv_of_poll (poll_of_uv v) = v /\ uv_of_mask (mask_of_uv v) = v /\
    mand (mask_of_uv v) ALLEV = mask_of_uv v.
Proof. split; [exact flag_table|exact flag_roundtrip]. Qed.
Print Assumptions C14_flag_table.

(* uv__poll_stop clears all four flags.  Finite sweep (the domain is the 16 request masks,
   2 ring settings, 2 disciplines): start with mask v, let the registration reach the
   kernel - the kernel then has exactly the translation of v -, stop: the watcher requests
   nothing, w->events = 0, it is out of the registry, inactive, and at the next epoll_pwait
   nothing is registered in the kernel under its descriptor. *)
Theorem C14_stop_clears_every_mask :
  forall ring strict v, In v [0; 1; 2; 3; 4; 5; 6; 7; 8; 9; 10; 11; 12; 13; 14; 15] ->
  sweep_ok ring strict v = true.
Proof. exact stop_sweep. Qed.
Print Assumptions C14_stop_clears_every_mask.

(* ... and in every reachable state, for whatever was requested *)
Theorem C14_stop_clears_all :
  forall s i, NI s -> (i < length (hs s))%nat ->
  h_pev (hget (poll_stop s i) i) = m0 /\ h_ev (hget (poll_stop s i) i) = m0 /\
  forall fd, reg (poll_stop s i) fd <> Some i.
Proof. exact stop_clears_all. Qed.
Print Assumptions C14_stop_clears_all.

(* The UV_EEXIST rule holds for every descriptor number, 0 included: uv_poll_init on a number
   with a registered watcher returns UV_EEXIST and touches neither registry nor kernel, and a
   uv_pipe_open / uv_tcp_open / uv_udp_open there is refused; plus the finite sweep over the
   numbers 0, 1, 2, 3, 7, 1023, 1024, 65535 of a concrete run. *)
Theorem C14_eexist_every_number :
  (forall s fd i, reg s fd = Some i ->
     snd (poll_init s fd) = UV_EEXIST /\ ep (fst (poll_init s fd)) = ep s /\
     reg (fst (poll_init s fd)) = reg s /\ wq (fst (poll_init s fd)) = wq s) /\
  (forall fdo s k sl i, aborted s = false -> slots s sl <> -1 -> reg s (slots s sl) = Some i ->
     api fdo s (OForeign k sl) = (s, [EForeign k (slots s sl) true])) /\
  (forall ring fd, In fd [0; 1; 2; 3; 7; 1023; 1024; 65535] -> eexist_ok ring fd = true).
Proof. split; [exact poll_init_refuses|split; [exact foreign_open_refused|exact eexist_sweep]]. Qed.
Print Assumptions C14_eexist_every_number.

(* Keeps firing (level-triggered): an entry of the batch that has not been
   invalidated, names a descriptor with a poll watcher and reports a requested event
   or POLLERR/POLLHUP always reaches the user's callback - in every state, hence in
   every poll phase as long as the oracle keeps reporting it ... *)
Theorem C14_keeps_firing :
  forall fdo beh s fd orig rep i s' evs,
  dispatch_one fdo beh s (fd, orig, rep) = (s', evs) ->
  fd <> -1 -> reg s fd = Some i -> h_kind (hget s i) = KPoll ->
  mzero (mand rep (mor (h_pev (hget s i)) ERRHUP)) = false ->
  exists st ev req efd r hfd gs n tl, evs = ECb i st ev req efd r hfd gs n :: tl.
Proof.
  intros. eapply dispatch_fires; eauto. unfold hits. rewrite H3. reflexivity.
Qed.
Print Assumptions C14_keeps_firing.

(* ... in particular the poll phase of uv_run calls back the handle whose descriptor
   heads the answer of epoll_pwait, whatever happened before. *)
Theorem C14_keeps_firing_poll_phase :
  forall fdo pw beh s fd rep rest i s' evs,
  io_poll fdo pw beh s = (s', evs) -> aborted (poll_prepare s) = false ->
  pw (npw (poll_prepare s)) = (fd, rep) :: rest -> fd <> -1 ->
  reg (poll_prepare s) fd = Some i -> h_kind (hget (poll_prepare s) i) = KPoll ->
  mzero (mand rep (mor (h_pev (hget (poll_prepare s) i)) ERRHUP)) = false ->
  exists a st ev req efd r hfd gs n tl,
    evs = EPwait (poll_prepare s) a :: ECb i st ev req efd r hfd gs n :: tl.
Proof.
  intros. eapply poll_phase_fires; eauto. unfold hits. rewrite H5. reflexivity.
Qed.
Print Assumptions C14_keeps_firing_poll_phase.

(* the statements are not vacuous: a run with a started handle, a kernel
   registration with the requested mask at the second epoll_pwait, and callbacks *)
Example C14_nonvacuous :
  let evs := snd (run (fun _ => 5) (fun _ => [(5, ONLY_IN)]) (fun _ => [])
                      (sinit true true) [OOpen 0; OInit 0; OStart 0 (UVM true true); ORun; ORun]) in
  probe_watched evs 1 5 = Some (Some (UVM true true), UVM true true) /\
  length (filter (fun e => match e with ECb _ _ _ _ _ _ _ _ _ => true | _ => false end) evs) = 2%nat.
Proof. vm_compute. split; reflexivity. Qed.
Print Assumptions C14_nonvacuous.
