(* C14 - uv_poll / io watchers.  (statements are being added) *)
From UV Require Import Lib.Base Model.IoWatch.
Example C14_model_runs : length (snd (run (fun _ => 5%Z) (fun _ => []) (fun _ => []) (sinit true true) [OOpen 0; OInit 0; ORun])) = 3%nat.
Proof. vm_compute. reflexivity. Qed.
Print Assumptions C14_model_runs.
