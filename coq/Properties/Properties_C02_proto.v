(* C02 close protocol, part 2: handle types that can have work in flight
   (Model/CloseProto.v: stream = tcp/pipe, udp, signal, fs_poll, and the
   stop-only types).  Statements only; proofs in Proofs/CloseProtoProofs.v.
   The trace of a case is [ctrace os beh]; [final os beh] is its last state. *)
From UV Require Import Lib.Base Model.CloseProto Proofs.CloseProtoProofs.
Local Open Scope Z_scope.

(* uv_close() runs no user callback (request, handle or close callback) ... *)
Theorem C02_proto_close_not_reentrant :
  forall s h, exists l, hist (capi s (OClose h)) = l ++ hist s /\ Forall (fun e => is_user_cb e = false) l.
Proof. exact close_not_reentrant. Qed.
Print Assumptions C02_proto_close_not_reentrant.

(* ... nor does any sequence of API calls, e.g. the body of a callback *)
Theorem C02_proto_api_not_reentrant :
  forall s os, exists l, hist (capis s os) = l ++ hist s /\ Forall (fun e => is_user_cb e = false) l.
Proof. exact api_not_reentrant. Qed.
Print Assumptions C02_proto_api_not_reentrant.

Theorem C02_proto_close_cb_at_most_once :
  forall os beh pre h post,
    ctrace os beh = pre ++ ECloseCb h :: post -> ~ In (ECloseCb h) pre /\ ~ In (ECloseCb h) post.
Proof. exact close_cb_at_most_once. Qed.
Print Assumptions C02_proto_close_cb_at_most_once.

(* the close callback is delivered by the closing phase and by nothing else *)
Theorem C02_proto_close_cb_in_closing_phase_only :
  forall s beh o, o <> OPhase ->
    exists l, hist (cstep s beh o) = l ++ hist s /\ Forall (fun e => forall h, e <> ECloseCb h) l.
Proof. exact close_cb_in_closing_phase_only. Qed.
Print Assumptions C02_proto_close_cb_in_closing_phase_only.

(* after CloseCb h nothing concerns h any more: no operation on h is carried
   out, no handle callback, no callback of a request accepted on h, no
   completion of such a request, no second close callback *)
Theorem C02_proto_nothing_after_close_cb :
  forall os beh pre h post e,
    ctrace os beh = pre ++ ECloseCb h :: post -> In e post -> ~ about (final os beh) e h.
Proof. exact nothing_after_close_cb. Qed.
Print Assumptions C02_proto_nothing_after_close_cb.

Theorem C02_proto_close_cb_iff_closed :
  forall os beh h,
    In (ECloseCb h) (ctrace os beh) <->
    (hvalid (final os beh) h = true /\ h_closed (hget (final os beh) h) = true).
Proof. exact close_cb_iff_closed. Qed.
Print Assumptions C02_proto_close_cb_iff_closed.

(* "close_cb runs in a later closing phase": when nothing is left on the closing
   queue and no stat of an fs_poll handle is in flight (i.e. the loop has nothing
   more to do for it), every handle on which uv_close was called has had its
   close callback.  For fs_poll this rests on the context-chain invariant [TInv]
   (every context of a stopped or closing handle has its stat in flight or its
   timer on the closing queue).  Until /repo 834ed95 the faithful model refuted
   this (C02_close_cb_eventually_refuted: start, stop, start, close); with the
   repaired poll_cb that script delivers the callback (Example below). *)
Theorem C02_close_cb_eventually :
  forall os beh h,
    let s := final os beh in
    clq s = [] -> hvalid s h = true -> h_closing (hget s h) = true ->
    has_stat (h_ctxs (hget s h)) = false ->
    In (ECloseCb h) (ctrace os beh).
Proof. exact close_cb_eventually. Qed.
Print Assumptions C02_close_cb_eventually.

Example C02_fs_poll_restart_now_closes :
  ctrace [OInit TFsPoll; OFpStart 0; OFpStop 0; OFpStart 0; OFpStat 0; OFpStat 0; OClose 0;
          OPhase; OPhase; OPhase] (fun _ => []) =
  [EIn (OInit TFsPoll); EIn (OFpStart 0); EIn (OFpStop 0); EIn (OFpStart 0);
   ETouch 0; EIn (OFpStat 0); ETouch 0; EIn (OFpStat 0); EIn (OClose 0);
   EIn OPhase; ETouch 0; ETouch 0; EIn OPhase; ECloseCb 0; EIn OPhase].
Proof. exact fs_poll_restart_now_closes. Qed.

Theorem C02_close_cb_eventually_partial :
  forall os beh h,
    let s := final os beh in
    clq s = [] -> hvalid s h = true -> h_closing (hget s h) = true ->
    In (ECloseCb h) (ctrace os beh) \/ (h_ty (hget s h) = TFsPoll /\ h_ctxs (hget s h) <> []).
Proof. exact close_cb_eventually_partial. Qed.
Print Assumptions C02_close_cb_eventually_partial.

(* at the CloseCb h event every request ever accepted on h has had exactly one
   completion callback earlier in the trace ([cnt r pre] counts the EReqCb r
   events of pre) *)
Theorem C02_requests_first_exactly_once :
  forall os beh pre h post r k,
    ctrace os beh = pre ++ ECloseCb h :: post ->
    In (EIn (OSubmit h r k)) pre -> cnt r pre = 1%nat.
Proof. exact requests_first_exactly_once. Qed.
Print Assumptions C02_requests_first_exactly_once.

(* ... and its status: a callback delivered while the handle is closing (third
   field of EReqCb) carries UV_ECANCELED exactly when the request had not
   completed before (no ODone event for it); if it had completed at the system
   call with result st', the callback gets st' (0 for a non-negative udp send
   result: [mapped]) *)
Theorem C02_requests_cancelled_iff_not_completed :
  forall os beh pre r st post,
    ctrace os beh = pre ++ EReqCb r st true :: post ->
    (exists st', In (EIn (ODone r st')) pre /\ mapped st st') \/
    (~ done_in r pre /\ st = UV_ECANCELED).
Proof. exact cancelled_iff_not_completed. Qed.
Print Assumptions C02_requests_cancelled_iff_not_completed.

(* nothing is owned any more when the close callback runs *)
Theorem C02_resources_released :
  forall os beh,
    (forall h r, ~ In (ELeak h r) (ctrace os beh)) /\
    (forall h, hvalid (final os beh) h = true -> h_closing (hget (final os beh) h) = true ->
               h_ledger (hget (final os beh) h) = []).
Proof. exact resources_released. Qed.
Print Assumptions C02_resources_released.

Theorem C02_proto_invariant : forall os beh, Inv [] (final os beh).
Proof. exact reachable_inv. Qed.
Print Assumptions C02_proto_invariant.

Example C02_example_stream_and_fs_poll :
  let os := [OInit TStream; OSubmit 0 1 0; OSubmit 0 2 1; OSubmit 0 3 1; OSubmit 0 4 2; ODone 2 7;
             OInit TFsPoll; OFpStart 1; OClose 1; OClose 0; OPhase; OFpStat 1; OPhase; OPhase] in
  ctrace os (fun _ => []) =
  [EIn (OInit TStream); EIn (OSubmit 0 1 0); EIn (OSubmit 0 2 1); EIn (OSubmit 0 3 1);
   EIn (OSubmit 0 4 2); EIn (ODone 2 7); EIn (OInit TFsPoll); EIn (OFpStart 1); EIn (OClose 1);
   EIn (OClose 0); EIn OPhase; EReqCb 1 UV_ECANCELED true; EReqCb 2 7 true;
   EReqCb 3 UV_ECANCELED true; EReqCb 4 UV_ECANCELED true; ECloseCb 0;
   ETouch 1; EIn (OFpStat 1); EIn OPhase; ETouch 1; EIn OPhase; ECloseCb 1].
Proof. exact close_cb_eventually_partial_nontrivial. Qed.
