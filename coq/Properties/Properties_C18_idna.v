(* C18 - Address/text codecs, the src/idna.c part (UTF-8 decoder, IDNA/Punycode,
   UTF-16 <-> WTF-8).  Only statements, each closed by [exact] of a lemma proved
   in Proofs/, with Print Assumptions beneath. *)
From UV Require Import Lib.Base Model.Idna Model.Wtf8 Spec.Utf8Spec Spec.PunycodeSpec
  Proofs.IdnaBits Proofs.IdnaUtf8Proofs Proofs.Wtf8Proofs Proofs.IdnaWriterProofs
  Proofs.IdnaPunycodeProofs Proofs.IdnaRoundtripProofs.
Local Open Scope N_scope.

(* ---- UTF-8 ---------------------------------------------------------- *)

(* Every sequence that is well-formed by table 3-7 of the Unicode Standard
   (= RFC 3629) is decoded by uv__utf8_decode1 to its scalar value, and the
   pointer advances by exactly its length, whatever follows it. *)
Theorem C18_utf8_decode_sound :
  forall bs v rest, utf8_wf bs v ->
    utf8_decode1 (bs ++ rest) = (v, rest) /\ v <> UINT_MAX /\ scalar v.
Proof.
  intros bs v rest W. split; [exact (utf8_decode_sound bs v rest W)|].
  pose proof (utf8_wf_scalar bs v W) as S. split; [|exact S].
  destruct S as [S _]. unfold UINT_MAX. lia.
Qed.
Print Assumptions C18_utf8_decode_sound.

(* the hypothesis is satisfiable: the euro sign and the last scalar value *)
Example C18_utf8_wf_example :
  utf8_wf [226; 130; 172] 8364 /\ utf8_wf [244; 143; 191; 191] 1114111 /\
  utf8_decode1 ([226; 130; 172] ++ [65]) = (8364, [65]).
Proof.
  split; [|split].
  - change 8364 with (v3 226 130 172). apply wf_E1_EC; unfold rng; lia.
  - change 1114111 with (v4 244 143 191 191). apply wf_F4; unfold rng; lia.
  - vm_compute. reflexivity.
Qed.

(* uv__utf8_decode1 accepts exactly the inputs that start with a well-formed
   sequence (and then returns its scalar value and advances by its length, by
   the theorem above): ill-formed UTF-8, truncated sequences included, is
   rejected.  Holds since commit a779eb0. *)
Theorem C18_utf8_decode_iff_wellformed :
  forall s, s <> [] -> Forall byte s ->
    (fst (utf8_decode1 s) <> UINT_MAX <-> utf8_wf_prefix s).
Proof. exact utf8_decode1_iff_wellformed. Qed.
Print Assumptions C18_utf8_decode_iff_wellformed.

(* Host names: whenever uv__idna_toascii does not return an error, its input
   was well-formed UTF-8 from the first byte to the last (so ill-formed input,
   truncated sequences included, always ends in UV_EINVAL -- or in the
   UV_E2BIG of an earlier label). *)
Theorem C18_toascii_rejects_illformed :
  forall s de, Forall byte s -> (0 <= fst (idna_toascii s de))%Z ->
    exists cps, utf8_string s cps.
Proof. exact toascii_rejects_illformed. Qed.
Print Assumptions C18_toascii_rejects_illformed.

(* the two witnesses of the old defect on the current model *)
Example C18_utf8_illformed_rejected :
  utf8_decode1 [228; 65; 65] = (UINT_MAX, []) /\
  utf8_decode1 [241; 128; 128] = (UINT_MAX, []) /\
  fst (idna_toascii [228; 65; 65; 46; 99; 111; 109] 256) = UV_EINVAL.
Proof. repeat split; vm_compute; reflexivity. Qed.

(* History: the decoder before commit a779eb0 ([utf8_decode1_before_a779eb0],
   one xor for the three continuation bytes, truncated forms re-read as
   shorter ones) did not satisfy the statement; the witnesses that the check
   found, kept as regression cases in corpus/C18/idna_u8.txt. *)
Theorem C18_utf8_before_a779eb0_accepted_illformed :
  (exists s, s <> [] /\ Forall byte s /\
     ~ (fst (utf8_decode1_before_a779eb0 s) <> UINT_MAX <-> utf8_wf_prefix s)) /\
  (utf8_decode1_before_a779eb0 [228; 65; 65] = (16449, []) /\ ~ utf8_wf_prefix [228; 65; 65]) /\
  (utf8_decode1_before_a779eb0 [241; 128; 128] = (4096, []) /\ ~ utf8_wf_prefix [241; 128; 128]) /\
  ~ utf8_decode_iff_wellformed utf8_decode1_before_a779eb0.
Proof. exact utf8_before_a779eb0_accepts_illformed. Qed.
Print Assumptions C18_utf8_before_a779eb0_accepted_illformed.

(* ---- destination bound ------------------------------------------------ *)

(* uv__idna_toascii(s, se, d, de) with de - d = [de] never stores at or past
   de; what it stores is a prefix of the complete answer; it returns the
   complete answer and its length when answer + NUL fit, UV_EINVAL when they
   do not, and the conversion's own error otherwise.  [toascii_full] is the
   same code run with an unbounded destination. *)
Theorem C18_toascii_bounded :
  forall s de, s <> [] ->
  let '(rc, w) := idna_toascii s de in
  let '(rcu, full) := toascii_full s in
  (forall ic, In ic (snd w) -> fst ic < de) /\
  fst w <= de /\ N.of_nat (length (snd w)) = fst w /\
  (exists k, written w = firstn k (full ++ [0])) /\
  ((rcu < 0)%Z -> rc = rcu) /\
  ((0 <= rcu)%Z -> N.of_nat (length full) + 1 <= de ->
     rc = Z.of_N (N.of_nat (length full) + 1) /\ written w = full ++ [0]) /\
  ((0 <= rcu)%Z -> de < N.of_nat (length full) + 1 -> rc = UV_EINVAL).
Proof. exact toascii_bounded. Qed.
Print Assumptions C18_toascii_bounded.

Example C18_toascii_bounded_example :
  idna_toascii [109; 97; 195; 177; 97; 110; 97] 5 = (UV_EINVAL, (5, [(4, 109); (3, 45); (2, 45); (1, 110); (0, 120)])) /\
  fst (idna_toascii [109; 97; 195; 177; 97; 110; 97] 16) = 14%Z.
Proof. split; vm_compute; reflexivity. Qed.

(* ---- IDNA / Punycode ------------------------------------------------------ *)

(* A label (well-formed UTF-8 with code points [cps], fewer than 2^32-2 of them)
   is left exactly as it is when all its code points are ASCII, and gets the
   "xn--" prefix as soon as one is not.  [label_full] is uv__idna_toascii_label
   with an unbounded destination. *)
Theorem C18_toascii_label_iff_nonascii :
  forall s cps, utf8_string s cps -> N.of_nat (length cps) + 2 < 4294967296 ->
  (Forall (fun c => c < 128) cps -> label_full s = (Z.of_nat (length s), s)) /\
  (Exists (fun c => 128 <= c) cps ->
     (fst (label_full s) = 0%Z \/ fst (label_full s) = UV_E2BIG) /\
     exists rest, snd (label_full s) = [120; 110; 45; 45] ++ rest).
Proof. exact label_iff_nonascii. Qed.
Print Assumptions C18_toascii_label_iff_nonascii.

(* the hypotheses of the two IDNA theorems are satisfiable: "ma\u00f1ana" *)
Example C18_utf8_string_example :
  utf8_string [109; 97; 195; 177; 97; 110; 97] [109; 97; 241; 97; 110; 97] /\
  Exists (fun c => 128 <= c) [109; 97; 241; 97; 110; 97].
Proof.
  split.
  - apply (us_cons [109] 109); [apply wf_00_7F; unfold rng; lia|].
    apply (us_cons [97] 97); [apply wf_00_7F; unfold rng; lia|].
    apply (us_cons [195; 177] 241); [change 241 with (v2 195 177); apply wf_C2_DF; unfold rng; lia|].
    apply (us_cons [97] 97); [apply wf_00_7F; unfold rng; lia|].
    apply (us_cons [110] 110); [apply wf_00_7F; unfold rng; lia|].
    apply (us_cons [97] 97 [] []); [apply wf_00_7F; unfold rng; lia|constructor].
  - right. right. left. lia.
Qed.

(* On well-formed UTF-8 the conversion either reports the 32-bit overflow
   (UV_E2BIG; no wrapped value is ever used) or produces, label by label,
   exactly "xn--" followed by the RFC 3492 section 6.3 encoding
   ([spec_encode], transcribed from the RFC over unbounded naturals) for labels
   with a non-ASCII code point and the label itself otherwise, joined by "."
   ([spec_host]); with a destination of [de] bytes the answer and its length
   NUL included are returned when they fit, UV_EINVAL when they do not. *)
Theorem C18_toascii_is_rfc3492 :
  (forall s cps, utf8_string s cps -> N.of_nat (length cps) + 2 < 4294967296 ->
     (Exists (fun c => 128 <= c) cps ->
        (fst (label_full s) = UV_E2BIG) \/
        label_full s = (0%Z, [120; 110; 45; 45] ++ spec_encode cps))) /\
  (forall s cps de, utf8_string s cps -> s <> [] -> N.of_nat (length cps) + 2 < 4294967296 ->
     let '(rc, w) := idna_toascii s de in
     let answer := spec_host cps [] in
     rc = UV_E2BIG \/
     (N.of_nat (length answer) + 1 <= de /\ rc = Z.of_N (N.of_nat (length answer) + 1) /\
      written w = answer ++ [0]) \/
     (de < N.of_nat (length answer) + 1 /\ rc = UV_EINVAL)).
Proof.
  split.
  - intros s cps US HL HE. destruct (label_is_rfc3492 s cps US HL) as [_ HB].
    destruct (HB (nonbasic_exists cps HE)) as [[L _]|E]; [left; exact L|right; exact E].
  - exact toascii_is_rfc3492.
Qed.
Print Assumptions C18_toascii_is_rfc3492.

(* The transcription of RFC 3492 reproduces the RFC's own samples (section 7.1
   (B) Chinese simplified, (I) Russian, (L) 3<nen>B<gumi><kinpachi><sensei>)
   and the section 6.2 decoder inverts the encoder on them (the general
   statement is C18_punycode_roundtrip below). *)
Example C18_rfc3492_samples :
  spec_encode [20182; 20204; 20026; 20160; 20040; 19981; 35828; 20013; 25991]
    = [105; 104; 113; 119; 99; 114; 98; 52; 99; 118; 56; 97; 56; 100; 113; 103; 48; 53; 54; 112; 113; 106; 121; 101] /\
  spec_encode [51; 24180; 66; 32068; 37329; 20843; 20808; 29983]
    = [51; 66; 45; 119; 119; 52; 99; 53; 101; 49; 56; 48; 101; 53; 55; 53; 97; 54; 53; 108; 115; 121; 50; 98] /\
  spec_decode (spec_encode [20182; 20204; 20026; 20160; 20040; 19981; 35828; 20013; 25991])
    = Some [20182; 20204; 20026; 20160; 20040; 19981; 35828; 20013; 25991] /\
  spec_decode (spec_encode [51; 24180; 66; 32068; 37329; 20843; 20808; 29983])
    = Some [51; 24180; 66; 32068; 37329; 20843; 20808; 29983] /\
  label_full [109; 97; 195; 177; 97; 110; 97]
    = (0%Z, [120; 110; 45; 45] ++ spec_encode [109; 97; 241; 97; 110; 97]).
Proof. repeat split; vm_compute; reflexivity. Qed.

(* The transcribed RFC 3492 section 6.2 decoder inverts the transcribed section
   6.3 encoder on every list of code points (no side condition): what
   uv__idna_toascii writes after "xn--" decodes back to the label. *)
Theorem C18_punycode_roundtrip : forall l, spec_decode (spec_encode l) = Some l.
Proof. exact punycode_roundtrip. Qed.
Print Assumptions C18_punycode_roundtrip.

(* ---- UTF-16 <-> WTF-8 --------------------------------------------------- *)

(* For every sequence of non-zero 16-bit units (unpaired surrogates included),
   passed counted or NUL-terminated: uv_utf16_to_wtf8 succeeds and produces a
   NUL-terminated string t of exactly the reported length, with no NUL inside,
   on which uv_wtf8_length_as_utf16 announces |w|+1 units and
   uv_wtf8_to_utf16 stores w followed by the terminator. *)
Theorem C18_utf16_wtf8_roundtrip :
  forall w len, Forall nz16 w -> (len = Z.of_nat (length w) \/ (len < 0)%Z) ->
  exists t,
    utf16_to_wtf8 w len (TAlloc true) = (0%Z, t ++ [0], N.of_nat (length t)) /\
    ~ In 0 t /\
    wtf8_length_as_utf16 t = Some (N.of_nat (length w) + 1) /\
    fst (wtf8_to_utf16 t) = w ++ [0].
Proof. exact utf16_wtf8_roundtrip. Qed.
Print Assumptions C18_utf16_wtf8_roundtrip.

Example C18_roundtrip_example :
  let w := [65; 55357; 56489; 55296; 56320; 56320; 55296; 8364] in
  Forall nz16 w /\
  wtf8_of w = [65; 240; 159; 146; 169; 240; 144; 128; 128; 237; 176; 128; 237; 160; 128; 226; 130; 172].
Proof. exact roundtrip_example. Qed.

(* Lengths are exact on every route.  For counted strings (zeros allowed) and
   NUL-terminated ones: uv_utf16_length_as_wtf8, the allocating route and the
   NULL-target route of uv_utf16_to_wtf8 give the number of bytes of the WTF-8
   form [wtf8_of w]; with a caller's buffer of [cap] (+1) bytes the result is
   everything when it fits, otherwise UV_ENOBUFS, exactly the first [cap] bytes
   and a NUL (never more than cap+1 bytes), and the exact length needed.  On
   every byte string that uv_wtf8_length_as_utf16 accepts, uv_wtf8_to_utf16
   stores exactly the announced number of units and none of its asserts
   fails. *)
Theorem C18_lengths_exact :
  (forall w len, lenok len w -> Forall unit16 w ->
     utf16_length_as_wtf8 w len = N.of_nat (length (wtf8_of w)) /\
     utf16_to_wtf8 w len (TAlloc true) = (0%Z, wtf8_of w ++ [0], N.of_nat (length (wtf8_of w))) /\
     utf16_to_wtf8 w len TNull = (0%Z, [], N.of_nat (length (wtf8_of w))) /\
     forall cap,
       utf16_to_wtf8 w len (TBuf cap) =
         if N.of_nat (length (wtf8_of w)) <=? cap
         then (0%Z, wtf8_of w ++ [0], N.of_nat (length (wtf8_of w)))
         else (UV_ENOBUFS, firstn (N.to_nat cap) (wtf8_of w) ++ [0], N.of_nat (length (wtf8_of w)))) /\
  (forall s n, wtf8_length_as_utf16 s = Some n ->
     N.of_nat (length (fst (wtf8_to_utf16 s))) = n /\ snd (wtf8_to_utf16 s) = true).
Proof.
  split.
  - intros w len HL HF. split; [exact (utf16_length_exact w len HL HF)|].
    split; [exact (utf16_to_wtf8_alloc w len HL HF)|].
    split; [exact (utf16_to_wtf8_null w len HL HF)|].
    intros cap. exact (utf16_to_wtf8_buf w len cap HL HF).
  - intros s n H. split; [exact (wtf8_length_exact s n H)|exact (wtf8_asserts_hold s n H)].
Qed.
Print Assumptions C18_lengths_exact.

(* History: before commits 0064931 and 8661803 U+00E9 into a buffer of one byte
   gave UV_ENOBUFS with length 3 (exact: 2), and assert(code_point < 0x10FFFF)
   failed on F4 8F BF BF.  The same inputs now (regression cases in
   corpus/C18/idna_w16.txt): *)
Example C18_lengths_regression :
  utf16_to_wtf8 [233] 1%Z (TBuf 1) = (UV_ENOBUFS, [195; 0], 2) /\
  utf16_to_wtf8 [55296] 1%Z (TBuf 2) = (UV_ENOBUFS, [237; 160; 0], 3) /\
  snd (wtf8_to_utf16 [244; 143; 191; 191]) = true.
Proof. exact enobufs_length_regression. Qed.
