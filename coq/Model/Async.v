(* Model of src/unix/async.c (uv_async_send :93-115, uv__async_spin/uv__async_close
   :118-157, uv__async_io :160-210, uv__async_send :213-255) together with the part
   of uv_run / uv__io_poll / uv__run_closing_handles (src/unix/core.c :368-380,
   :427-492, src/unix/linux.c :1350-1620) that a loop holding nothing but async
   handles goes through.

   Interleaving semantics: one step = one atomic operation (C11 atomic access,
   eventfd read/write, epoll_pwait) of one thread together with the thread-private
   code up to the next such operation.  Thread 0 is the loop thread, thread i+1 is
   sender i (a thread calling uv_async_send, or a signal handler doing so).
   The interleaving is sequentially consistent.  No proofs in this file. *)
From UV Require Import Lib.Base.

Local Open Scope Z_scope.

(* ---------------------------------------------------------------------- *)
(* Handles                                                                  *)
(* ---------------------------------------------------------------------- *)
Inductive hstatus := Open | Closing.
(* Open: initialised, uv_close not called.  Closing: UV_HANDLE_CLOSING set (uv_close was
   called).  That close_cb has run is recorded in the loop's ghost list [l_closed]. *)

Record handle := mkH {
  pending : bool;        (* handle->pending (0/1) *)
  busy : Z;              (* handle->u.fd used as busy counter *)
  hst : hstatus;
  unl : bool;            (* uv__async_close returned: unlinked from loop->async_handles *)
  (* ghost *)
  published : Z;         (* sequence number written by senders before uv_async_send *)
  seen : Z;              (* value of [published] read by the latest callback *)
  sends_begun : Z;       (* number of uv_async_send calls begun *)
  cb_count : Z;          (* number of async_cb invocations *)
  has_cb : bool          (* handle->async_cb != NULL *)
}.

Definition set_pending (b : bool) (x : handle) : handle :=
  mkH b (busy x) (hst x) (unl x) (published x) (seen x) (sends_begun x) (cb_count x) (has_cb x).
Definition add_busy (d : Z) (x : handle) : handle :=
  mkH (pending x) (busy x + d) (hst x) (unl x) (published x) (seen x) (sends_begun x) (cb_count x) (has_cb x).
Definition set_unl (x : handle) : handle :=
  mkH (pending x) (busy x) (hst x) true (published x) (seen x) (sends_begun x) (cb_count x) (has_cb x).
Definition publish (x : handle) : handle :=
  mkH (pending x) (busy x) (hst x) (unl x) (published x + 1) (seen x) (sends_begun x + 1) (cb_count x) (has_cb x).
Definition run_cb (x : handle) : handle :=
  mkH (pending x) (busy x) (hst x) (unl x) (published x) (published x) (sends_begun x) (cb_count x + 1) (has_cb x).
(* uv__async_io examined a handle without a callback whose pending flag was set: the
   wake-up is consumed (ghost: it covers everything published so far) *)
Definition ack (x : handle) : handle :=
  mkH false (busy x) (hst x) (unl x) (published x) (published x) (sends_begun x) (cb_count x) (has_cb x).
(* uv_close: flag + the store of uv__async_spin *)
Definition begin_close (x : handle) : handle :=
  mkH true (busy x) Closing (unl x) (published x) (seen x) (sends_begun x) (cb_count x) (has_cb x).

Definition is_open (x : handle) : bool :=
  match hst x with Open => true | _ => false end.

(* Handles are a total map; an index that was never initialised behaves like a
   closed handle (pending = 1, so a send on it returns at once). *)
Definition hmap := nat -> handle.
Definition no_handle : handle := mkH true 0 Closing true 0 0 0 0 true.
Definition fresh_handle (cb : bool) : handle := mkH false 0 Open false 0 0 0 0 cb.
Definition hupd (m : hmap) (h : nat) (f : handle -> handle) : hmap :=
  fun k => if Nat.eqb k h then f (m k) else m k.
Definition hinit (hascb : nat -> bool) (n : nat) : hmap :=
  fun k => if Nat.ltb k n then fresh_handle (hascb k) else no_handle.

(* ---------------------------------------------------------------------- *)
(* Senders: program counter inside uv_async_send                           *)
(* ---------------------------------------------------------------------- *)
Inductive spc :=
| SIdle                 (* outside uv_async_send *)
| SPub (h : nat)        (* published, uv_async_send entered, before the load of pending *)
| SLoaded (h : nat)     (* S1 read 0; before busy++ *)
| SBusy (h : nat)       (* S2 done; before the exchange *)
| SWrite (h : nat)      (* S3 read 0; before the eventfd write *)
| SDec (h : nat).       (* before busy-- *)

Record sender := mkS { s_pc : spc; s_script : list nat }.

(* ---------------------------------------------------------------------- *)
(* Loop thread                                                              *)
(* ---------------------------------------------------------------------- *)
Inductive lop :=
| OpRun (dflt : bool)   (* uv_run(UV_RUN_DEFAULT) if dflt else uv_run(UV_RUN_ONCE) *)
| OpClose (h : nat)     (* uv_close(h) between two runs *)
| OpNowait              (* uv_run(UV_RUN_NOWAIT): one iteration with timeout 0 *)
| OpStop.               (* uv_stop() between two runs *)

(* what a callback does, in order *)
Inductive cbop :=
| CbClose (h : nat)     (* uv_close(h) *)
| CbStop.               (* uv_stop(loop) *)

Inductive lpc :=
| LTop                  (* between two API calls of the loop thread's script *)
| LPoll (nb : bool)     (* at epoll_pwait; nb: timeout 0 *)
| LDrain                (* uv__async_io: before read() of the eventfd *)
| LScan                 (* before the exchange on the head of the detached queue *)
| LCall (h : nat)       (* exchange read 1; before h->async_cb(h) *)
| LInCb                 (* inside a callback, between its operations *)
| LSpin0 (h : nat)      (* uv__async_spin: pending stored, before the first load of busy *)
| LSpin (h : nat)       (* uv__async_spin: before a later load of busy *)
| LDone.

Record loop := mkL {
  l_pc : lpc;
  l_script : list lop;
  l_queue : list nat;     (* the local [queue] of uv__async_io *)
  l_cbops : list cbop;    (* what the running callback still does *)
  l_incb : bool;          (* uv_close in progress was called from a callback *)
  l_mode : bool;          (* uv_run mode of the run in progress: true = DEFAULT *)
  l_cbk : nat;            (* callbacks run so far (index into l_beh) *)
  l_closing : list nat;   (* loop->closing_handles (a stack) *)
  l_active : Z;           (* loop->active_handles *)
  l_closed : list nat;    (* ghost: handles whose close_cb has run *)
  l_stop : bool;          (* loop->stop_flag *)
  l_beh : nat -> list cbop (* what the k-th callback does *)
}.

Definition set_pc (p : lpc) (l : loop) : loop :=
  mkL p (l_script l) (l_queue l) (l_cbops l) (l_incb l) (l_mode l) (l_cbk l) (l_closing l) (l_active l) (l_closed l) (l_stop l) (l_beh l).
Definition set_script (sc : list lop) (l : loop) : loop :=
  mkL (l_pc l) sc (l_queue l) (l_cbops l) (l_incb l) (l_mode l) (l_cbk l) (l_closing l) (l_active l) (l_closed l) (l_stop l) (l_beh l).
Definition set_queue (q : list nat) (l : loop) : loop :=
  mkL (l_pc l) (l_script l) q (l_cbops l) (l_incb l) (l_mode l) (l_cbk l) (l_closing l) (l_active l) (l_closed l) (l_stop l) (l_beh l).
Definition set_stop (b : bool) (l : loop) : loop :=
  mkL (l_pc l) (l_script l) (l_queue l) (l_cbops l) (l_incb l) (l_mode l) (l_cbk l) (l_closing l) (l_active l) (l_closed l) b (l_beh l).
Definition set_cbops (c : list cbop) (l : loop) : loop :=
  mkL (l_pc l) (l_script l) (l_queue l) c (l_incb l) (l_mode l) (l_cbk l) (l_closing l) (l_active l) (l_closed l) (l_stop l) (l_beh l).
Definition set_incb (b : bool) (l : loop) : loop :=
  mkL (l_pc l) (l_script l) (l_queue l) (l_cbops l) b (l_mode l) (l_cbk l) (l_closing l) (l_active l) (l_closed l) (l_stop l) (l_beh l).
Definition set_mode (b : bool) (l : loop) : loop :=
  mkL (l_pc l) (l_script l) (l_queue l) (l_cbops l) (l_incb l) b (l_cbk l) (l_closing l) (l_active l) (l_closed l) (l_stop l) (l_beh l).
Definition set_cbk (k : nat) (l : loop) : loop :=
  mkL (l_pc l) (l_script l) (l_queue l) (l_cbops l) (l_incb l) (l_mode l) k (l_closing l) (l_active l) (l_closed l) (l_stop l) (l_beh l).
Definition set_active (a : Z) (l : loop) : loop :=
  mkL (l_pc l) (l_script l) (l_queue l) (l_cbops l) (l_incb l) (l_mode l) (l_cbk l) (l_closing l) a (l_closed l) (l_stop l) (l_beh l).
Definition set_closed (c : list nat) (l : loop) : loop :=
  mkL (l_pc l) (l_script l) (l_queue l) (l_cbops l) (l_incb l) (l_mode l) (l_cbk l) (l_closing l) (l_active l) c (l_stop l) (l_beh l).
Definition set_closing (c : list nat) (l : loop) : loop :=
  mkL (l_pc l) (l_script l) (l_queue l) (l_cbops l) (l_incb l) (l_mode l) (l_cbk l) c (l_active l) (l_closed l) (l_stop l) (l_beh l).

(* ---------------------------------------------------------------------- *)
(* Events (what the harness can see happen inside a step)                   *)
(* ---------------------------------------------------------------------- *)
Inductive ev :=
| ECb (h : nat) (v : Z)         (* async_cb(h) ran and read published = v *)
| ECloseRet (h : nat) (b : Z)   (* uv_close(h) returned; busy field at that moment *)
| ECloseCb (h : nat)            (* close_cb(h) *)
| EWrite (ok : bool)            (* eventfd write: true = 8 bytes written, false = EAGAIN *)
| EAck (h : nat) (v : Z).       (* pending of a handle without callback consumed; published = v *)

Record state := mkSt {
  hs : hmap;
  snd : list sender;
  lp : loop;
  lst : list nat;          (* loop->async_handles *)
  efd : Z;                 (* eventfd counter *)
  out : list ev            (* events so far, newest first *)
}.

Definition efd_max : Z := 18446744073709551614.   (* 2^64 - 2 *)

Definition with_hs (s : state) (m : hmap) := mkSt m (snd s) (lp s) (lst s) (efd s) (out s).
Definition with_snd (s : state) (l : list sender) := mkSt (hs s) l (lp s) (lst s) (efd s) (out s).
Definition with_lp (s : state) (l : loop) := mkSt (hs s) (snd s) l (lst s) (efd s) (out s).
Definition with_lst (s : state) (l : list nat) := mkSt (hs s) (snd s) (lp s) l (efd s) (out s).
Definition with_efd (s : state) (e : Z) := mkSt (hs s) (snd s) (lp s) (lst s) e (out s).
Definition emit (s : state) (e : ev) := mkSt (hs s) (snd s) (lp s) (lst s) (efd s) (e :: out s).
Definition lpc_to (s : state) (p : lpc) := with_lp s (set_pc p (lp s)).

Definition remove_h (h : nat) (l : list nat) : list nat :=
  filter (fun k => negb (Nat.eqb k h)) l.

(* ---------------------------------------------------------------------- *)
(* Sender steps: uv_async_send, one atomic operation each                   *)
(* ---------------------------------------------------------------------- *)
Definition set_sender (s : state) (i : nat) (x : sender) : state :=
  with_snd s (upd i (fun _ => x) (snd s)).

Definition sender_step (s : state) (i : nat) : option state :=
  match nth_error (snd s) i with
  | None => None
  | Some x =>
    match s_pc x with
    | SIdle =>
      match s_script x with
      | [] => None                                  (* thread finished *)
      | h :: rest =>                                (* publish, then call uv_async_send *)
        Some (set_sender (with_hs s (hupd (hs s) h publish)) i (mkS (SPub h) rest))
      end
    | SPub h =>                                     (* :101 relaxed load of pending *)
      if pending (hs s h)
      then Some (set_sender s i (mkS SIdle (s_script x)))
      else Some (set_sender s i (mkS (SLoaded h) (s_script x)))
    | SLoaded h =>                                  (* :105 busy++ *)
      Some (set_sender (with_hs s (hupd (hs s) h (add_busy 1))) i (mkS (SBusy h) (s_script x)))
    | SBusy h =>                                    (* :108 exchange(pending, 1) *)
      let old := pending (hs s h) in
      Some (set_sender (with_hs s (hupd (hs s) h (set_pending true))) i
              (mkS (if old then SDec h else SWrite h) (s_script x)))
    | SWrite h =>                                   (* :244 write(eventfd, 1) *)
      let ok := efd s <? efd_max in
      Some (set_sender (emit (with_efd s (if ok then efd s + 1 else efd s)) (EWrite ok)) i
              (mkS (SDec h) (s_script x)))
    | SDec h =>                                     (* :112 busy-- ; return *)
      Some (set_sender (with_hs s (hupd (hs s) h (add_busy (-1)))) i (mkS SIdle (s_script x)))
    end
  end.

(* ---------------------------------------------------------------------- *)
(* Loop steps                                                               *)
(* ---------------------------------------------------------------------- *)
(* uv__run_closing_handles: UV_HANDLE_CLOSED and close_cb for every handle on the
   stack, head first *)
Definition run_closing (s : state) : state :=
  let l := l_closing (lp s) in
  mkSt (hs s) (snd s) (set_closed (l ++ l_closed (lp s)) (set_closing [] (lp s))) (lst s) (efd s)
       (rev (map ECloseCb l) ++ out s).

(* uv__loop_alive for a loop with async handles only *)
Definition alive (s : state) : bool :=
  (l_active (lp s) >? 0) ||
  negb (match l_closing (lp s) with [] => true | _ => false end).

(* one iteration of uv_run starts: timeout is -1 iff there are active handles and no
   closing handles (uv__backend_timeout), then uv__io_poll -> epoll_pwait *)
Definition poll_point (s : state) : state :=
  let nb := match l_closing (lp s) with
            | [] => negb (l_active (lp s) >? 0)
            | _ => true
            end in
  lpc_to s (LPoll nb).

(* end of uv__io_poll: uv__run_closing_handles, then the loop condition of uv_run *)
Definition finish_iter (s : state) : state :=
  let s1 := run_closing s in
  if l_mode (lp s1) && alive s1 && negb (l_stop (lp s1)) then poll_point s1
  else lpc_to (with_lp s1 (set_stop false (lp s1))) LTop.   (* uv_run returns; stop_flag cleared *)

(* [drain_first] = true is the code as it is; false is the (wrong) variant that scans
   the handles first and drains the eventfd afterwards. *)
Definition scan_next (drain_first : bool) (s : state) : state :=
  match l_queue (lp s) with
  | [] => if drain_first then finish_iter s else lpc_to s LDrain
  | _ :: _ => lpc_to s LScan
  end.

(* uv__queue_move(&loop->async_handles, &queue) *)
Definition detach (s : state) : state :=
  with_lst (with_lp s (set_queue (lst s) (lp s))) [].

(* uv_close(h): UV_HANDLE_CLOSING, then uv__async_spin's store pending <- 1 *)
Definition close_begin (s : state) (h : nat) (incb : bool) : state :=
  if is_open (hs s h)
  then with_lp (with_hs s (hupd (hs s) h begin_close)) (set_pc (LSpin0 h) (set_incb incb (lp s)))
  else s.

(* uv__async_spin: load busy; 0 -> uv__queue_remove, uv__handle_stop (active_handles--),
   uv__make_close_pending *)
Definition spin_step (s : state) (h : nat) : state :=
  if busy (hs s h) =? 0 then
    let s1 := with_hs s (hupd (hs s) h set_unl) in
    let s1 := with_lst s1 (remove_h h (lst s1)) in
    let l := lp s1 in
    let s1 := with_lp s1 (set_active (l_active l - 1)
                            (set_closing (h :: l_closing l) (set_queue (remove_h h (l_queue l)) l))) in
    let s1 := emit s1 (ECloseRet h (busy (hs s1 h))) in
    lpc_to s1 (if l_incb (lp s1) then LInCb else LTop)
  else lpc_to s (LSpin h).

Definition loop_step (drain_first : bool) (s : state) : option state :=
  let l := lp s in
  match l_pc l with
  | LDone => None
  | LTop =>
    match l_script l with
    | [] => Some (lpc_to s LDone)
    | OpClose h :: rest =>
      Some (close_begin (with_lp s (set_script rest l)) h false)
    | OpRun d :: rest =>                            (* while (r != 0 && stop_flag == 0) *)
      let s1 := with_lp s (set_mode d (set_script rest l)) in
      if alive s1 && negb (l_stop l) then Some (poll_point s1)
      else Some (with_lp s1 (set_stop false (lp s1)))
    | OpNowait :: rest =>
      let s1 := with_lp s (set_mode false (set_script rest l)) in
      if alive s1 && negb (l_stop l) then Some (lpc_to s1 (LPoll true))
      else Some (with_lp s1 (set_stop false (lp s1)))
    | OpStop :: rest =>
      Some (with_lp s (set_stop true (set_script rest l)))
    end
  | LPoll nb =>
    if efd s >? 0 then
      (if drain_first then Some (lpc_to s LDrain) else Some (scan_next drain_first (detach s)))
    else if nb then Some (finish_iter s)
    else None                                       (* blocked in epoll_pwait *)
  | LDrain =>                                       (* :175 read(eventfd) *)
    let s1 := with_efd s 0 in
    if drain_first then Some (scan_next drain_first (detach s1)) else Some (finish_iter s1)
  | LScan =>
    match l_queue l with
    | [] => Some (scan_next drain_first s)          (* not reached *)
    | h :: q =>                                     (* :197-202 move to tail; exchange(pending, 0) *)
      let s1 := with_lst (with_lp s (set_queue q l)) (lst s ++ [h]) in
      let old := pending (hs s1 h) in
      let s2 := with_hs s1 (hupd (hs s1) h (set_pending false)) in
      if old then
        (if has_cb (hs s1 h) then Some (lpc_to s2 (LCall h))
         else                                       (* :205 async_cb == NULL: nothing to call; the
                                                       flag has been cleared all the same *)
           Some (scan_next drain_first
                   (emit (with_hs s1 (hupd (hs s1) h ack)) (EAck h (published (hs s1 h))))))
      else Some (scan_next drain_first s2)
    end
  | LCall h =>                                      (* :208 h->async_cb(h) *)
    let s1 := with_hs s (hupd (hs s) h run_cb) in
    let s1 := emit s1 (ECb h (published (hs s h))) in
    let l1 := lp s1 in
    Some (with_lp s1 (set_pc LInCb (set_cbops (l_beh l1 (l_cbk l1)) (set_cbk (S (l_cbk l1)) l1))))
  | LInCb =>
    match l_cbops l with
    | [] => Some (scan_next drain_first s)          (* callback returns; uv__async_io never looks
                                                       at stop_flag: the pass goes on *)
    | CbClose c :: rest => Some (close_begin (with_lp s (set_cbops rest l)) c true)
    | CbStop :: rest => Some (with_lp s (set_stop true (set_cbops rest l)))
    end
  | LSpin0 h => Some (spin_step s h)
  | LSpin h => Some (spin_step s h)
  end.

(* ---------------------------------------------------------------------- *)
(* The interleaving semantics                                               *)
(* ---------------------------------------------------------------------- *)
Definition step_gen (drain_first : bool) (s : state) (tid : nat) : option state :=
  match tid with
  | O => loop_step drain_first s
  | S i => sender_step s i
  end.

Definition step := step_gen true.        (* the code as it is *)
Definition step_bad := step_gen false.   (* scan before drain *)

Fixpoint run_gen (df : bool) (s : state) (sched : list nat) : option state :=
  match sched with
  | [] => Some s
  | t :: r => match step_gen df s t with
              | Some s' => run_gen df s' r
              | None => None
              end
  end.
Definition run := run_gen true.

(* The (wrong) variant in which uv__async_io, when a callback has called uv_stop(), splices
   the handles it has not examined yet back onto loop->async_handles and leaves the pass
   ("they keep their pending flag") - although the eventfd is already drained. *)
Definition step_stopbreak (s : state) (tid : nat) : option state :=
  match tid, l_pc (lp s), l_cbops (lp s) with
  | O, LInCb, [] =>
    if l_stop (lp s)
    then Some (finish_iter (with_lst (with_lp s (set_queue [] (lp s))) (lst s ++ l_queue (lp s))))
    else step s tid
  | _, _, _ => step s tid
  end.

Fixpoint run_stopbreak (s : state) (sched : list nat) : option state :=
  match sched with
  | [] => Some s
  | t :: r => match step_stopbreak s t with
              | Some s' => run_stopbreak s' r
              | None => None
              end
  end.

(* The (wrong) variant in which uv__async_io tests h->async_cb == NULL before the exchange
   ("nothing to run, don't bother with the atomic"): a handle without a callback keeps its
   pending flag. *)
Definition step_nullfirst (s : state) (tid : nat) : option state :=
  match tid, l_pc (lp s), l_queue (lp s) with
  | O, LScan, h :: q =>
    if has_cb (hs s h) then step s tid
    else Some (scan_next true (with_lst (with_lp s (set_queue q (lp s))) (lst s ++ [h])))
  | _, _, _ => step s tid
  end.

Fixpoint run_nullfirst (s : state) (sched : list nat) : option state :=
  match sched with
  | [] => Some s
  | t :: r => match step_nullfirst s t with
              | Some s' => run_nullfirst s' r
              | None => None
              end
  end.

(* Initial state: n handles (numbers 0..n-1) initialised on a fresh loop (handle k with a
   callback iff [hascb k]; a handle created with a NULL callback is a pure waker), eventfd counter
   e0, the scripts of the loop thread and of the senders, the behaviour of the callbacks.
   Handle number n is loop->wq_async, the internal handle uv_loop_init puts first into
   loop->async_handles; it is unreferenced, so loop->active_handles does not count it. *)
Definition init (hascb : nat -> bool) (n : nat) (e0 : Z) (lscript : list lop)
                (beh : nat -> list cbop) (scripts : list (list nat)) : state :=
  mkSt (hinit hascb (S n)) (map (mkS SIdle) scripts)
       (mkL LTop lscript [] [] false false O [] (Z.of_nat n) [] false beh)
       (n :: seq 0 n) e0 [].

(* ---------------------------------------------------------------------- *)
(* Quiescence: every send has returned and the loop would block             *)
(* ---------------------------------------------------------------------- *)
Definition sender_idle (x : sender) : bool :=
  match s_pc x with SIdle => true | _ => false end.

Definition quiescent (s : state) : bool :=
  forallb sender_idle (snd s) &&
  match l_pc (lp s) with LPoll false => efd s <=? 0 | _ => false end.

(* ---------------------------------------------------------------------- *)
(* fork(): what the child's loop looks like after uv_loop_fork()            *)
(* (uv__async_fork, async.c :372-411)                                       *)
(* ---------------------------------------------------------------------- *)
(* The child is a copy of the parent's memory with only the forking thread alive.
   uv__async_fork walks loop->async_handles and stores pending = 0, busy = 0 in every
   handle on it (handles already unlinked by uv_close are not touched), closes the
   wake-up descriptor and creates a new one (uv__async_start: eventfd, counter 0).
   The ghost counters restart: the child counts its own sends and callbacks.
   fork() is called by the loop thread between two API calls (program counter LTop). *)
Definition fork_clear (x : handle) : handle := mkH false 0 (hst x) (unl x) 0 0 0 0 (has_cb x).
Definition fork_keep (x : handle) : handle := mkH (pending x) (busy x) (hst x) (unl x) 0 0 0 0 (has_cb x).

Definition async_fork (s : state) (lscript : list lop) (beh : nat -> list cbop)
                      (scripts : list (list nat)) : state :=
  mkSt (fun k => if existsb (Nat.eqb k) (lst s) then fork_clear (hs s k) else fork_keep (hs s k))
       (map (mkS SIdle) scripts)
       (mkL LTop lscript [] [] false false O (l_closing (lp s)) (l_active (lp s))
            (l_closed (lp s)) (l_stop (lp s)) beh)
       (lst s) 0 [].

(* Parent and child side by side.  Every process has a wake-up channel (the open file
   behind its eventfd descriptor), named by a number; [ctr] is the counter of every
   channel.  A step of a process runs on the counter of its own channel. *)
Record sys := mkSys {
  par : state; chi : state;
  ch_par : nat; ch_chi : nat;
  ctr : nat -> Z
}.

Definition sys_step (y : sys) (child : bool) (tid : nat) : option sys :=
  let ch := if child then ch_chi y else ch_par y in
  let s := with_efd (if child then chi y else par y) (ctr y ch) in
  match step s tid with
  | None => None
  | Some s' =>
    let c' := fun k => if Nat.eqb k ch then efd s' else ctr y k in
    Some (if child then mkSys (par y) s' (ch_par y) (ch_chi y) c'
          else mkSys s' (chi y) (ch_par y) (ch_chi y) c')
  end.

Fixpoint sys_run (y : sys) (sched : list (bool * nat)) : option sys :=
  match sched with
  | [] => Some y
  | (c, t) :: r => match sys_step y c t with
                   | Some y' => sys_run y' r
                   | None => None
                   end
  end.

(* fork + uv_loop_fork in the child.  [fresh] = true is the code as it is: the child's
   channel is a new open file.  [fresh] = false is the (wrong) variant in which the child
   keeps the parent's eventfd. *)
Definition fork_sys (fresh : bool) (s : state) (lscript : list lop) (beh : nat -> list cbop)
                    (scripts : list (list nat)) : sys :=
  mkSys s (async_fork s lscript beh scripts) O (if fresh then 1%nat else O)
        (fun k => if Nat.eqb k O then efd s else 0).

(* ---------------------------------------------------------------------- *)
(* Coarser steps for the correspondence check                               *)
(* ---------------------------------------------------------------------- *)
(* With the UV__VERIF_POINT hooks every program counter is a schedule point of the
   harness.  Without them the schedule points are the wrapped system calls and the
   harness's own yields; the other program counters are passed through silently. *)
Definition svisible (hooks : bool) (p : spc) : bool :=
  match p with
  | SIdle | SPub _ | SWrite _ => true
  | SLoaded _ | SBusy _ | SDec _ => hooks
  end.
Definition lvisible (hooks : bool) (p : lpc) : bool :=
  match p with
  | LTop | LPoll _ | LDrain | LInCb | LSpin _ | LDone => true
  | LScan | LCall _ | LSpin0 _ => hooks
  end.
Definition visible (hooks : bool) (s : state) (tid : nat) : bool :=
  match tid with
  | O => lvisible hooks (l_pc (lp s))
  | S i => match nth_error (snd s) i with
           | Some x => svisible hooks (s_pc x)
           | None => true
           end
  end.

Fixpoint settle (df hooks : bool) (fuel : nat) (s : state) (tid : nat) : state :=
  match fuel with
  | O => s
  | S f => if visible hooks s tid then s
           else match step_gen df s tid with
                | Some s' => settle df hooks f s' tid
                | None => s
                end
  end.

Definition mstep (df hooks : bool) (s : state) (tid : nat) : option state :=
  match step_gen df s tid with
  | Some s' => Some (settle df hooks 2000 s' tid)
  | None => None
  end.

Definition enabled (df : bool) (s : state) (tid : nat) : bool :=
  match step_gen df s tid with Some _ => true | None => false end.
