(* C15 - descriptor ledger.

   The process descriptor table as a finite map  fd -> (owner, close-on-exec,
   created-by-libuv), and every libuv operation that creates or closes
   descriptors as a small program over five ledger primitives.  A C field that
   holds a descriptor ("loop->backend_fd", "handle->io_watcher.fd",
   "stream->accepted_fd", "queued_fds->fds[k]", a local "pipes[i][0]") is
   modelled by an *owner tag*; "field == -1" is "no entry carries the tag",
   "if (field != -1) { uv__close(field); field = -1; }" is [CloseIf tag].
   Every creation point asks the oracle (list of kernel answers) whether the
   call succeeds, fails with EMFILE/ENFILE, or fails otherwise.

   Anchors (libuv at the pinned commit, Linux):
     src/unix/loop.c:30-129 (uv_loop_init, every exit), 165-208 (uv__loop_close)
     src/unix/linux.c:502-625 (uv__iou_init/_delete), 638-692 (platform init/delete),
       769-781 (lazy SQPOLL ring), 2462-2477 (init_inotify)
     src/unix/signal.c:57-111 (lock pipe), 260-277 (loop signal pipe), 308-333
     src/unix/async.c:256-323, 326-357
     src/unix/core.c:506-540 (uv__socket), 557-586 (uv__accept), 719-730 (uv__recvmsg),
       1090-1115 (uv__open_cloexec), 1118-1141 (uv__slurp)
     src/unix/stream.c:85-116 (emfile_fd), 404-437 (uv__stream_open), 484-505 (emfile trick),
       508-534 (uv__server_io), 537-600 (uv_accept), 942-1016 (queued fds), 1507-1559
     src/unix/tcp.c:58-108 (new_socket/maybe_new_socket), 111-141 (uv_tcp_init_ex), 630-673
     src/unix/pipe.c:58-145 (bind), 189-222 (open), 245-330 (connect), 488-545 (uv_pipe)
     src/unix/udp.c:56-64, 355-420, 853-907
     src/unix/process.c:188-260, 920-963 (signal pipe), 967-1093 (uv_spawn)
     src/unix/fs.c:295-357 (mkstemp), 360-393 (open)
   No proofs in this file. *)
From UV Require Import Lib.Base.

(* ------------------------------------------------------------------ *)
(* owners                                                             *)
(* ------------------------------------------------------------------ *)
Inductive lslot := SBackend | SCtl | SIou | SAsync | SSigR | SSigW | SEmfile | SInotify.
Inductive hslot := HIo | HAcc | HQ (k : nat).

Inductive owner :=
| OUser                          (* held by the program before / besides libuv *)
| OGiven (g : nat)               (* created by libuv and returned to the caller (slot g) *)
| OLoop (l : nat) (s : lslot)    (* field of loop instance l *)
| OHandle (h : nat) (s : hslot)  (* field of handle h *)
| OProc (w : bool)               (* process-wide: uv__signal_lock_pipefd[w] *)
| OTemp (k : nat).               (* local variable of the running call *)

Definition lslot_eqb (a b : lslot) : bool :=
  match a, b with
  | SBackend, SBackend | SCtl, SCtl | SIou, SIou | SAsync, SAsync
  | SSigR, SSigR | SSigW, SSigW | SEmfile, SEmfile | SInotify, SInotify => true
  | _, _ => false
  end.

Definition hslot_eqb (a b : hslot) : bool :=
  match a, b with
  | HIo, HIo | HAcc, HAcc => true
  | HQ i, HQ j => Nat.eqb i j
  | _, _ => false
  end.

Definition owner_eqb (a b : owner) : bool :=
  match a, b with
  | OUser, OUser => true
  | OGiven g, OGiven g' => Nat.eqb g g'
  | OLoop l s, OLoop l' s' => Nat.eqb l l' && lslot_eqb s s'
  | OHandle h s, OHandle h' s' => Nat.eqb h h' && hslot_eqb s s'
  | OProc w, OProc w' => Bool.eqb w w'
  | OTemp k, OTemp k' => Nat.eqb k k'
  | _, _ => false
  end.

(* descriptors libuv itself is responsible for *)
Definition is_lib (o : owner) : bool :=
  match o with OLoop _ _ | OHandle _ _ | OProc _ | OTemp _ => true | _ => false end.
Definition is_user (o : owner) : bool :=
  match o with OUser | OGiven _ => true | _ => false end.

Record entry := mkE { e_owner : owner; e_cx : bool; e_lib : bool }.
Definition ledger := list (nat * entry).

Definition set_owner (o : owner) (e : entry) : entry := mkE o (e_cx e) (e_lib e).

Definition dom (L : ledger) : list nat := map fst L.
Definition memb (n : nat) (l : list nat) : bool := existsb (Nat.eqb n) l.

Fixpoint lookup (L : ledger) (fd : nat) : option entry :=
  match L with
  | [] => None
  | (n, e) :: r => if Nat.eqb n fd then Some e else lookup r fd
  end.

(* POSIX: the lowest descriptor number not in use.  [fuel] = size of the table
   + 1 is always enough; the fall-back keeps the function total. *)
Fixpoint lowest_from (d : list nat) (n fuel : nat) : nat :=
  match fuel with
  | O => S (list_max d)
  | S f => if memb n d then lowest_from d (S n) f else n
  end.
Definition lowest_free (L : ledger) : nat := lowest_from (dom L) 0 (S (length L)).

Fixpoint alloc (L : ledger) (os : list owner) (cx : bool) : ledger * list nat :=
  match os with
  | [] => (L, [])
  | o :: r => let fd := lowest_free L in
              let '(L', fds) := alloc ((fd, mkE o cx true) :: L) r cx in
              (L', fd :: fds)
  end.

(* ------------------------------------------------------------------ *)
(* primitives, oracle, trace                                           *)
(* ------------------------------------------------------------------ *)
Inductive kind := KEpoll | KUring | KPipe2 | KEventfd | KSocket | KSocketpair | KAccept
                | KOpen | KInotify | KCmsg | KMkostemp
                | KRingOpen.   (* IORING_OP_OPENAT: the kernel opens the file from an SQE *)

Inductive ans := AOk | AEmfile | AOther.

Inductive event :=
| ECreate (k : kind) (cx : bool) (fds : list nat) (os : list owner)
| EFail (k : kind) (cx : bool) (a : ans)
| EClose (fd : nat) (o : owner)             (* uv__close of the descriptor held in field o *)
| EKeep (fd : nat) (o : owner)              (* field o reset without closing (fd <= 2) *)
| ERawClose (fd : nat) (o : option owner)   (* close by remembered number: what it hit *)
| EUserClose (fd : nat) (o : owner)         (* close requested by the caller *)
| EAdopt (fd : nat) (from to : owner)       (* uv_*_open(fd): ownership moves to a handle *)
| ERet (rc : nat).                          (* end of one operation *)

Inductive prog (A : Type) : Type :=
| Ret (a : A)
| Create (k : kind) (os : list owner) (cx : bool) (c : ans -> prog A)
| CloseIf (p : owner -> bool) (guard : bool) (c : prog A)
| Relabel (f : owner -> owner) (c : prog A)
| Adopt (fd : nat) (o : owner) (c : bool -> prog A)
| Has (p : owner -> bool) (c : bool -> prog A)
| Count (p : owner -> bool) (c : nat -> prog A)
| FdOf (o : owner) (c : option nat -> prog A)
| RawClose (fd : nat) (c : prog A)
| UserClose (sel : nat -> owner -> bool) (c : prog A)
| UserAdd (fd : nat) (cx : bool) (c : prog A).
Arguments Ret {A}. Arguments Create {A}. Arguments CloseIf {A}. Arguments Relabel {A}.
Arguments Adopt {A}. Arguments Has {A}. Arguments Count {A}. Arguments FdOf {A}.
Arguments RawClose {A}. Arguments UserClose {A}. Arguments UserAdd {A}.

Record ist := mkI { i_led : ledger; i_orc : list ans; i_tr : list event }.  (* trace newest first *)

(* "if (fd != -1) { [if (fd > 2)] uv__close(fd); fd = -1; }" for every field selected by p *)
Fixpoint close_if (p : owner -> bool) (guard : bool) (L : ledger) : ledger * list event :=
  match L with
  | [] => ([], [])
  | (fd, e) :: r =>
      let '(r', ev) := close_if p guard r in
      if p (e_owner e) then
        if guard && Nat.leb fd 2 then ((fd, set_owner OUser e) :: r', EKeep fd (e_owner e) :: ev)
        else (r', EClose fd (e_owner e) :: ev)
      else ((fd, e) :: r', ev)
  end.

Definition relabel (f : owner -> owner) (L : ledger) : ledger :=
  map (fun x => (fst x, set_owner (f (e_owner (snd x))) (snd x))) L.

Fixpoint adopt (fd : nat) (o : owner) (L : ledger) : ledger * option owner :=
  match L with
  | [] => ([], None)
  | (n, e) :: r =>
      if Nat.eqb n fd && is_user (e_owner e) then ((n, set_owner o e) :: r, Some (e_owner e))
      else let '(r', x) := adopt fd o r in ((n, e) :: r', x)
  end.

Fixpoint remove_fd (fd : nat) (L : ledger) : ledger :=
  match L with
  | [] => []
  | (n, e) :: r => if Nat.eqb n fd then r else (n, e) :: remove_fd fd r
  end.

Fixpoint user_close (sel : nat -> owner -> bool) (L : ledger) : ledger * list event :=
  match L with
  | [] => ([], [])
  | (fd, e) :: r =>
      let '(r', ev) := user_close sel r in
      if sel fd (e_owner e) && is_user (e_owner e) then (r', EUserClose fd (e_owner e) :: ev)
      else ((fd, e) :: r', ev)
  end.

Fixpoint fd_of (o : owner) (L : ledger) : option nat :=
  match L with
  | [] => None
  | (fd, e) :: r => if owner_eqb (e_owner e) o then Some fd else fd_of o r
  end.

Definition count_if (p : owner -> bool) (L : ledger) : nat :=
  length (filter (fun x => p (e_owner (snd x))) L).

Definition next_ans (orc : list ans) : ans * list ans :=
  match orc with [] => (AOk, []) | a :: r => (a, r) end.

Fixpoint run_prog {A} (p : prog A) (s : ist) : A * ist :=
  match p with
  | Ret a => (a, s)
  | Create k os cx c =>
      let '(a, orc) := next_ans (i_orc s) in
      match a with
      | AOk => let '(L, fds) := alloc (i_led s) os cx in
               run_prog (c AOk) (mkI L orc (ECreate k cx fds os :: i_tr s))
      | _ => run_prog (c a) (mkI (i_led s) orc (EFail k cx a :: i_tr s))
      end
  | CloseIf p g c =>
      let '(L, ev) := close_if p g (i_led s) in
      run_prog c (mkI L (i_orc s) (rev ev ++ i_tr s))
  | Relabel f c => run_prog c (mkI (relabel f (i_led s)) (i_orc s) (i_tr s))
  | Adopt fd o c =>
      let '(L, x) := adopt fd o (i_led s) in
      match x with
      | Some from => run_prog (c true) (mkI L (i_orc s) (EAdopt fd from o :: i_tr s))
      | None => run_prog (c false) s
      end
  | Has p c => run_prog (c (existsb (fun x => p (e_owner (snd x))) (i_led s))) s
  | Count p c => run_prog (c (count_if p (i_led s))) s
  | FdOf o c => run_prog (c (fd_of o (i_led s))) s
  | RawClose fd c =>
      run_prog c (mkI (remove_fd fd (i_led s)) (i_orc s)
                      (ERawClose fd (option_map e_owner (lookup (i_led s) fd)) :: i_tr s))
  | UserClose sel c =>
      let '(L, ev) := user_close sel (i_led s) in
      run_prog c (mkI L (i_orc s) (rev ev ++ i_tr s))
  | UserAdd fd cx c =>
      run_prog c (mkI (if memb fd (dom (i_led s)) then i_led s
                       else (fd, mkE OUser cx false) :: i_led s) (i_orc s) (i_tr s))
  end.

(* ------------------------------------------------------------------ *)
(* libuv-side state that decides control flow (no descriptor numbers)  *)
(* ------------------------------------------------------------------ *)
Inductive htype := TTcp | TPipe | TUdp | TOther.
Inductive hstate := HOpen | HClosing | HClosed | HDead.   (* HDead: init failed, never registered *)
Record hrec := mkH { h_ty : htype; h_st : hstate }.

Record mstate := mkM {
  m_fixed : bool;          (* true: the code as it is (after /repo 9298bc0 and 4ad4719);
                              false: history - uv_loop_init's late failure exits leave backend_fd
                              open, uv_spawn's unwind closes pipes[j][0] a second time *)
  m_ginit : bool;          (* uv__signal_global_init has run (uv_once) *)
  m_abort : bool;          (* the process called abort() *)
  m_kver : bool;           (* uv__kernel_version() has cached its answer (linux.c:300-360) *)
  m_loop : option nat;     (* the live loop instance *)
  m_nloops : nat;          (* loop instances started so far *)
  m_leaked : list nat;     (* ghost: instances whose uv_loop_init failed late (unfixed variant) *)
  m_sqpoll : bool;         (* UV_LOOP_ENABLE_IO_URING_SQPOLL *)
  m_iou_tried : bool;      (* lfields->iou.ringfd != -2 *)
  m_handles : list hrec
}.

Definition minit (fixed : bool) : mstate := mkM fixed false false false None 0 [] false false [].

Definition set_loop (m : mstate) (l : option nat) : mstate :=
  mkM (m_fixed m) (m_ginit m) (m_abort m) (m_kver m) l (m_nloops m) (m_leaked m) (m_sqpoll m) (m_iou_tried m) (m_handles m).
Definition set_handles (m : mstate) (hs : list hrec) : mstate :=
  mkM (m_fixed m) (m_ginit m) (m_abort m) (m_kver m) (m_loop m) (m_nloops m) (m_leaked m) (m_sqpoll m) (m_iou_tried m) hs.
Definition set_ginit (m : mstate) : mstate :=
  mkM (m_fixed m) true (m_abort m) (m_kver m) (m_loop m) (m_nloops m) (m_leaked m) (m_sqpoll m) (m_iou_tried m) (m_handles m).
Definition set_abort (m : mstate) : mstate :=
  mkM (m_fixed m) (m_ginit m) true (m_kver m) (m_loop m) (m_nloops m) (m_leaked m) (m_sqpoll m) (m_iou_tried m) (m_handles m).
Definition set_sqpoll (m : mstate) (a b : bool) : mstate :=
  mkM (m_fixed m) (m_ginit m) (m_abort m) (m_kver m) (m_loop m) (m_nloops m) (m_leaked m) a b (m_handles m).
Definition set_kver (m : mstate) : mstate :=
  mkM (m_fixed m) (m_ginit m) (m_abort m) true (m_loop m) (m_nloops m) (m_leaked m) (m_sqpoll m) (m_iou_tried m) (m_handles m).
Definition add_leak (m : mstate) (l : nat) : mstate :=
  mkM (m_fixed m) (m_ginit m) (m_abort m) (m_kver m) (m_loop m) (m_nloops m) (l :: m_leaked m) (m_sqpoll m) (m_iou_tried m) (m_handles m).
Definition next_loop (m : mstate) : mstate :=
  mkM (m_fixed m) (m_ginit m) (m_abort m) (m_kver m) (m_loop m) (S (m_nloops m)) (m_leaked m) false false [].

Definition hstate_of (m : mstate) (h : nat) : option hrec := nth_error (m_handles m) h.
Definition set_hst (m : mstate) (h : nat) (st : hstate) : mstate :=
  set_handles m (upd h (fun r => mkH (h_ty r) st) (m_handles m)).
Definition is_open (m : mstate) (h : nat) : bool :=
  match hstate_of m h with Some (mkH _ HOpen) => true | _ => false end.
Definition ty_of (m : mstate) (h : nat) : htype :=
  match hstate_of m h with Some r => h_ty r | None => TOther end.
Definition is_stream (t : htype) : bool := match t with TTcp | TPipe => true | _ => false end.
(* which descriptor fields a handle type has: streams io_watcher.fd, accepted_fd, queued_fds;
   uv_udp_t io_watcher.fd; the other types none (uv_poll_t watches a descriptor of the caller) *)
Definition slot_ok (t : htype) (s : hslot) : bool :=
  match t with
  | TTcp | TPipe => true
  | TUdp => match s with HIo => true | _ => false end
  | TOther => false
  end.
(* handle h is open and has field s *)
Definition hok (m : mstate) (h : nat) (s : hslot) : bool := is_open m h && slot_ok (ty_of m h) s.

(* return codes *)
Definition RC_OK := 0. Definition RC_ERR := 1. Definition RC_BUSY := 2.
Definition RC_MISUSE := 3. Definition RC_ABORT := 4.

Definition is_ok (a : ans) : bool := match a with AOk => true | _ => false end.
Definition own_is (o : owner) : owner -> bool := fun x => owner_eqb x o.
Definition close_field {A} (o : owner) (c : prog A) : prog A := CloseIf (own_is o) false c.
Definition is_queued (h : nat) (o : owner) : bool :=
  match o with OHandle h' (HQ _) => Nat.eqb h h' | _ => false end.
Definition is_temp (o : owner) : bool := match o with OTemp _ => true | _ => false end.
Definition move (a b : owner) : owner -> owner := fun o => if owner_eqb o a then b else o.

(* ---- loop.c --------------------------------------------------------- *)
(* uv__signal_loop_cleanup (signal.c:308-333) *)
Definition signal_loop_cleanup {A} (l : nat) (c : prog A) : prog A :=
  close_field (OLoop l SSigR) (close_field (OLoop l SSigW) c).
(* uv__platform_loop_delete (linux.c:679-692): the two rings and inotify, NOT backend_fd *)
Definition platform_loop_delete {A} (l : nat) (c : prog A) : prog A :=
  close_field (OLoop l SCtl) (close_field (OLoop l SIou) (close_field (OLoop l SInotify) c)).
(* uv__async_stop (async.c:326-357) *)
Definition async_stop {A} (l : nat) (c : prog A) : prog A := close_field (OLoop l SAsync) c.

(* what the failure exits of uv_loop_init do with backend_fd: close it (loop.c:116-122,
   "fail_signal_init:" since 9298bc0); before that commit: nothing *)
Definition init_fail_tail (m : mstate) (l : nat) : prog (mstate * nat) :=
  if m_fixed m then close_field (OLoop l SBackend) (Ret (m, RC_ERR))
  else Ret (add_leak m l, RC_ERR).

(* uv_loop_init.  [nofd]: 0 none, 1 uv__calloc fails, 2 metrics mutex, 3 cloexec rwlock,
   4 wq mutex (failures that involve no descriptor; injected by the harness).
   [usable]: the io_uring the kernel returned has the features uv__iou_init wants. *)
Definition op_loop_init (m : mstate) (nofd : nat) (usable : bool) : prog (mstate * nat) :=
  match m_loop m with
  | Some _ => Ret (m, RC_MISUSE)
  | None =>
    let l := m_nloops m in
    let m := next_loop m in
    if Nat.eqb nofd 1 then Ret (m, RC_ERR)                 (* loop.c:40-42 *)
    else if Nat.eqb nofd 2 then Ret (m, RC_ERR)            (* :45-47 fail_metrics_mutex_init *)
    else
    Create KEpoll [OLoop l SBackend] true (fun a =>       (* linux.c:649 *)
    if negb (is_ok a) then Ret (m, RC_ERR)                 (* loop.c:81-82 fail_platform_init *)
    else
    (* uv__iou_init -> uv__kernel_version -> uv__slurp("/proc/version_signature"), once per process *)
    (fun (k : mstate -> prog (mstate * nat)) =>
       if m_kver m then k m
       else Create KOpen [OTemp 0] true (fun a1 =>
              (if is_ok a1 then close_field (OTemp 0) else fun c => c) (k (set_kver m))))
    (fun m =>
    Create KUring [OLoop l SCtl] true (fun a2 =>          (* linux.c:540 *)
    (if is_ok a2 && negb usable then close_field (OLoop l SCtl) else fun c => c)   (* :614-621 *)
    ((* uv__signal_global_once_init, signal.c:57-111 *)
     (fun (k : mstate -> prog (mstate * nat)) =>
        if m_ginit m then k m
        else Create KPipe2 [OProc false; OProc true] true (fun a3 =>
               if is_ok a3 then k (set_ginit m)
               else (* abort(): the process is gone, and with it every descriptor it held *)
                    CloseIf is_lib false (Ret (set_abort m, RC_ABORT))))
     (fun m =>
     (* uv__process_init -> uv_signal_init -> uv__signal_loop_once_init, signal.c:260-277 *)
     Create KPipe2 [OLoop l SSigR; OLoop l SSigW] true (fun a4 =>
     if negb (is_ok a4) then                                (* loop.c:86-87 fail_signal_init *)
       platform_loop_delete l (init_fail_tail m l)
     else if Nat.eqb nofd 3 || Nat.eqb nofd 4 then          (* fail_rwlock_init / fail_mutex_init *)
       signal_loop_cleanup l (platform_loop_delete l (init_fail_tail m l))
     else
     Create KEventfd [OLoop l SAsync] true (fun a5 =>      (* async.c:266 *)
     if negb (is_ok a5) then                                (* fail_async_init *)
       signal_loop_cleanup l (platform_loop_delete l (init_fail_tail m l))
     else Ret (set_loop m (Some l), RC_OK))))))))
  end.

Definition all_closed (hs : list hrec) : bool :=
  forallb (fun r => match h_st r with HClosed | HDead => true | _ => false end) hs.

(* uv_loop_close (uv-common.c) + uv__loop_close (loop.c:165-208) *)
Definition op_loop_close (m : mstate) : prog (mstate * nat) :=
  match m_loop m with
  | None => Ret (m, RC_MISUSE)
  | Some l =>
    if negb (all_closed (m_handles m)) then Ret (m, RC_BUSY)
    else
    signal_loop_cleanup l (platform_loop_delete l (async_stop l
      (close_field (OLoop l SEmfile) (close_field (OLoop l SBackend)
        (Ret (set_loop m None, RC_OK))))))
  end.

(* lazily created SQPOLL ring: linux.c:769-781 on the first uv_fs_* request *)
Definition op_iou_lazy (m : mstate) (usable : bool) : prog (mstate * nat) :=
  match m_loop m with
  | None => Ret (m, RC_MISUSE)
  | Some l =>
    if m_iou_tried m then Ret (m, RC_OK)
    else if m_sqpoll m then
      Create KUring [OLoop l SIou] true (fun a =>
        (if is_ok a && negb usable then close_field (OLoop l SIou) else fun c => c)
        (Ret (set_sqpoll m true true, RC_OK)))
    else Ret (set_sqpoll m false true, RC_OK)
  end.

(* ---- handles -------------------------------------------------------- *)
(* uv__stream_init, stream.c:101-110: the spare descriptor for the EMFILE trick *)
Definition stream_init_emfile {A} (l : nat) (c : prog A) : prog A :=
  Has (own_is (OLoop l SEmfile)) (fun b =>
    if b then c
    else Create KOpen [OLoop l SEmfile] true (fun a =>
           if is_ok a then c else Create KOpen [OLoop l SEmfile] true (fun _ => c))).

Definition add_handle (m : mstate) (t : htype) (st : hstate) : mstate :=
  set_handles m (m_handles m ++ [mkH t st]).

(* uv_tcp_init_ex / uv_pipe_init / uv_udp_init_ex / every descriptor-less handle type.
   [withsock]: a domain was given, so the socket is created at once. *)
Definition op_hinit (m : mstate) (h : nat) (t : htype) (withsock : bool) : prog (mstate * nat) :=
  match m_loop m with
  | None => Ret (m, RC_MISUSE)
  | Some l =>
    if negb (Nat.eqb h (length (m_handles m))) then Ret (m, RC_MISUSE)
    else
    let sock (c : bool -> prog (mstate * nat)) : prog (mstate * nat) :=
      if withsock && slot_ok t HIo then Create KSocket [OHandle h HIo] true (fun a => c (is_ok a)) else c true in
    match t with
    | TTcp | TPipe =>
        stream_init_emfile l (sock (fun ok =>
          if ok then Ret (add_handle m t HOpen, RC_OK) else Ret (add_handle m t HDead, RC_ERR)))
    | TUdp | TOther =>
        sock (fun ok =>
          if ok then Ret (add_handle m t HOpen, RC_OK) else Ret (add_handle m t HDead, RC_ERR))
    end
  end.

(* maybe_new_socket (tcp.c:84-108), uv_pipe_connect2 (pipe.c:275-280),
   uv__udp_bind / uv__udp_maybe_deferred_bind (udp.c:372-379): create the socket unless the
   handle has one; later failures (setsockopt, bind, connect, listen) leave it in the handle. *)
Definition op_ensure (m : mstate) (h : nat) (sysok : bool) : prog (mstate * nat) :=
  if negb (hok m h HIo) then Ret (m, RC_MISUSE)
  else
  Has (own_is (OHandle h HIo)) (fun b =>
    if b then Ret (m, if sysok then RC_OK else RC_ERR)
    else Create KSocket [OHandle h HIo] true (fun a =>
           Ret (m, if is_ok a && sysok then RC_OK else RC_ERR))).

(* uv_pipe_bind2, pipe.c:103-145 *)
Definition op_pipe_bind (m : mstate) (h : nat) (sysok : bool) : prog (mstate * nat) :=
  if negb (hok m h HIo) then Ret (m, RC_MISUSE)
  else
  Has (own_is (OHandle h HIo)) (fun b =>
    if b then Ret (m, RC_ERR)
    else Create KSocket [OHandle h HIo] true (fun a =>
           if negb (is_ok a) then Ret (m, RC_ERR)
           else if sysok then Ret (m, RC_OK)
           else close_field (OHandle h HIo) (Ret (m, RC_ERR)))).

Inductive fdsrc := SrcFd (fd : nat) | SrcGiven (g : nat).

(* uv_tcp_open / uv_pipe_open / uv_udp_open succeeded ([ok]) or not *)
Definition op_open (m : mstate) (h : nat) (src : fdsrc) (ok : bool) : prog (mstate * nat) :=
  if negb (hok m h HIo) then Ret (m, RC_MISUSE)
  else if negb ok then Ret (m, RC_ERR)
  else
  Has (own_is (OHandle h HIo)) (fun b =>
    if b then Ret (m, RC_MISUSE)
    else match src with
         | SrcFd fd => Adopt fd (OHandle h HIo) (fun r => Ret (m, if r then RC_OK else RC_MISUSE))
         | SrcGiven g =>
             Has (own_is (OGiven g)) (fun b2 =>
               if b2 then Relabel (move (OGiven g) (OHandle h HIo)) (Ret (m, RC_OK))
               else Ret (m, RC_MISUSE))
         end).

(* uv__emfile_trick, stream.c:484-505 *)
Fixpoint accept_shed (fuel : nat) (l h : nat) (m : mstate) : prog (mstate * nat) :=
  Create KAccept [OHandle h HAcc] true (fun a =>
    if is_ok a then
      close_field (OHandle h HAcc)
        (match fuel with O => Ret (m, RC_ERR) | S f => accept_shed f l h m end)
    else Create KOpen [OLoop l SEmfile] true (fun _ => Ret (m, RC_ERR))).

(* uv__server_io, stream.c:508-534 (the kernel reported the listening socket readable) *)
Definition op_srvio (m : mstate) (h : nat) (fuel : nat) : prog (mstate * nat) :=
  match m_loop m with
  | None => Ret (m, RC_MISUSE)
  | Some l =>
    if negb (hok m h HAcc) then Ret (m, RC_MISUSE)
    else
    Has (own_is (OHandle h HAcc)) (fun b =>
      if b then Ret (m, RC_MISUSE)
      else Create KAccept [OHandle h HAcc] true (fun a =>
        match a with
        | AOk => Ret (m, RC_OK)
        | AOther => Ret (m, RC_ERR)
        | AEmfile =>
            Has (own_is (OLoop l SEmfile)) (fun e =>
              if e then close_field (OLoop l SEmfile) (accept_shed fuel l h m)
              else Ret (m, RC_ERR))
        end))
  end.

Definition shift_queue (h : nat) : owner -> owner := fun o =>
  match o with
  | OHandle h' (HQ k) =>
      if Nat.eqb h h' then match k with O => OHandle h HAcc | S k' => OHandle h (HQ k') end else o
  | _ => o
  end.

(* uv_accept, stream.c:537-600 *)
Definition op_accept (m : mstate) (s c : nat) (ok : bool) : prog (mstate * nat) :=
  if negb (hok m s HAcc && hok m c HIo) || Nat.eqb s c then Ret (m, RC_MISUSE)
  else
  Has (own_is (OHandle s HAcc)) (fun b =>
    if negb b then Ret (m, RC_ERR)                          (* UV_EAGAIN *)
    else
    Has (own_is (OHandle c HIo)) (fun busy =>
      (if ok && negb busy then Relabel (move (OHandle s HAcc) (OHandle c HIo))
       else close_field (OHandle s HAcc))                    (* stream.c:553, 561 *)
      (Relabel (shift_queue s) (Ret (m, if ok && negb busy then RC_OK else RC_ERR))))).

(* uv__stream_recv_cmsg, stream.c:981-1026: descriptors that arrived with one message and
   found room: the first goes to accepted_fd when that is free, the others to queued_fds *)
Fixpoint recv_keep (h : nat) (n : nat) (c : prog (mstate * nat)) : prog (mstate * nat) :=
  match n with
  | O => c
  | S n' =>
      Has (own_is (OHandle h HAcc)) (fun b =>
        if b then Count (is_queued h) (fun k =>
                    Create KCmsg [OHandle h (HQ k)] true (fun _ => recv_keep h n' c))
        else Create KCmsg [OHandle h HAcc] true (fun _ => recv_keep h n' c))
  end.
(* ... and those behind a failing uv__stream_queue_fd (uv__malloc / uv__realloc of the queue,
   stream.c:942-978): "if (err != 0) uv__close(fd)" for that one and every later one *)
Fixpoint recv_drop (j : nat) (n : nat) (c : prog (mstate * nat)) : prog (mstate * nat) :=
  match n with
  | O => c
  | S n' => Create KCmsg [OTemp j] true (fun _ => recv_drop (S j) n' c)
  end.
(* n descriptors in the message, the first [keep] stored *)
Definition op_recvfds (m : mstate) (h : nat) (n keep : nat) : prog (mstate * nat) :=
  if Nat.leb n keep then recv_keep h n (Ret (m, RC_OK))
  else recv_keep h keep (recv_drop 0 (n - keep) (CloseIf is_temp false (Ret (m, RC_ERR)))).

(* uv_close: uv__stream_close (stream.c:1507-1559), uv__udp_close (udp.c:56-66);
   the other handle types own no descriptor *)
Definition op_close (m : mstate) (h : nat) : prog (mstate * nat) :=
  if negb (is_open m h) then Ret (m, RC_MISUSE)
  else
  let m' := set_hst m h HClosing in
  match ty_of m h with
  | TTcp | TPipe =>
      CloseIf (own_is (OHandle h HIo)) true                  (* "fd > STDERR_FILENO" *)
        (close_field (OHandle h HAcc)
          (CloseIf (is_queued h) false (Ret (m', RC_OK))))
  | TUdp => CloseIf (own_is (OHandle h HIo)) true (Ret (m', RC_OK))   (* same test since c6159bf *)
  | TOther => Ret (m', RC_OK)
  end.

(* uv_run: uv__run_closing_handles *)
Definition op_run (m : mstate) : prog (mstate * nat) :=
  Ret (set_handles m (map (fun r => match h_st r with HClosing => mkH (h_ty r) HClosed | _ => r end)
                          (m_handles m)), RC_OK).

(* uv_fs_event_start -> init_inotify, linux.c:2462-2477 *)
Definition op_fsevent_start (m : mstate) (h : nat) : prog (mstate * nat) :=
  match m_loop m with
  | None => Ret (m, RC_MISUSE)
  | Some l =>
    if negb (is_open m h) then Ret (m, RC_MISUSE)
    else Has (own_is (OLoop l SInotify)) (fun b =>
      if b then Ret (m, RC_OK)
      else Create KInotify [OLoop l SInotify] true (fun a =>
             Ret (m, if is_ok a then RC_OK else RC_ERR)))
  end.

(* ---- descriptors handed to the caller -------------------------------- *)
Definition op_give1 (m : mstate) (k : kind) (g : nat) : prog (mstate * nat) :=
  Has (own_is (OGiven g)) (fun b =>
    if b then Ret (m, RC_MISUSE)
    else Create k [OGiven g] true (fun a => Ret (m, if is_ok a then RC_OK else RC_ERR))).
Definition op_give2 (m : mstate) (k : kind) (g1 g2 : nat) : prog (mstate * nat) :=
  Has (fun o => own_is (OGiven g1) o || own_is (OGiven g2) o) (fun b =>
    if b || Nat.eqb g1 g2 then Ret (m, RC_MISUSE)
    else Create k [OGiven g1; OGiven g2] true (fun a => Ret (m, if is_ok a then RC_OK else RC_ERR))).
(* asynchronous uv_fs_open on a loop with the SQPOLL ring: uv__iou_fs_open (linux.c:960-985) puts
   "req->flags | O_CLOEXEC" into sqe->open_flags; no libc call creates the descriptor *)
Definition op_iou_open (m : mstate) (g : nat) : prog (mstate * nat) := op_give1 m KRingOpen g.
(* uv_fs_close(g) or the caller's own close() *)
Definition op_user_close (m : mstate) (g : nat) : prog (mstate * nat) :=
  UserClose (fun _ o => own_is (OGiven g) o) (Ret (m, RC_OK)).
Definition op_user_close_fd (m : mstate) (fd : nat) : prog (mstate * nat) :=
  UserClose (fun n o => Nat.eqb n fd && own_is OUser o) (Ret (m, RC_OK)).
Definition op_user_add (m : mstate) (fd : nat) (cx : bool) : prog (mstate * nat) :=
  UserAdd fd cx (Ret (m, RC_OK)).

(* uv__slurp (core.c:1118-1141) / uv__open_file + fclose: open, read, close *)
Definition op_slurp (m : mstate) : prog (mstate * nat) :=
  Create KOpen [OTemp 0] true (fun a =>
    if is_ok a then close_field (OTemp 0) (Ret (m, RC_OK)) else Ret (m, RC_OK)).   (* callers fall back *)

(* ---- uv_spawn, process.c:967-1093 ------------------------------------- *)
(* stdio containers: UV_IGNORE; UV_CREATE_PIPE with pipe handle sh; UV_INHERIT_FD / UV_INHERIT_STREAM
   (a descriptor of the caller or of another handle: uv_spawn only passes its number on - nothing
   of it enters pipes[][0], and the "error:" loop skips the entry); a container uv__process_init_stdio
   rejects with UV_EINVAL: UV_CREATE_PIPE whose handle is not a pipe (process.c:203-204) or
   UV_INHERIT_STREAM of a stream without descriptor (:225-226) *)
Inductive sdesc := SdIgnore | SdPipe (sh : nat) | SdInherit | SdBadPipe.

(* first loop, process.c:1012-1016: a socketpair per UV_CREATE_PIPE container *)
Fixpoint spawn_pairs (i : nat) (sd : list sdesc) (k : bool -> prog (mstate * nat)) : prog (mstate * nat) :=
  match sd with
  | [] => k true
  | SdPipe _ :: r =>
      Create KSocketpair [OTemp (2 * i); OTemp (2 * i + 1)] true (fun a =>
        if is_ok a then spawn_pairs (S i) r k else k false)
  | SdBadPipe :: _ => k false
  | _ :: r => spawn_pairs (S i) r k
  end.

(* the "error:" label, process.c:1076-1092: closes what is in pipes[][] of the entries that are not
   UV_INHERIT_FD / UV_INHERIT_STREAM - i.e. exactly the socketpairs uv_spawn itself created and has
   not handed to a stream yet (the call-local OTemp entries); nothing else in the table *)
Definition spawn_error_temps {A} (c : prog A) : prog A := CloseIf is_temp false c.

(* uv__process_close_stream for the containers before i (process.c:1064-1067), which now also
   resets pipes[j][0] = -1; before 4ad4719 the number stayed in pipes[][] and the "error:" loop
   closed it a second time *)
Fixpoint spawn_unwind (m : mstate) (done : list nat) (c : prog (mstate * nat)) : prog (mstate * nat) :=
  match done with
  | [] => c
  | sh :: r =>
      FdOf (OHandle sh HIo) (fun x =>
        CloseIf (own_is (OHandle sh HIo)) true
          (close_field (OHandle sh HAcc) (CloseIf (is_queued sh) false
            (spawn_unwind m r
               (match x with
                | Some fd => if m_fixed m then c else RawClose fd c
                | None => c
                end)))))
  end.

(* second loop, process.c:1057-1066: uv__process_open_stream per container *)
Fixpoint spawn_open (m : mstate) (i : nat) (sd : list sdesc) (done : list nat) (rc : nat)
  : prog (mstate * nat) :=
  match sd with
  | [] => Ret (m, rc)
  | SdPipe sh :: r =>
      close_field (OTemp (2 * i + 1))                                    (* process.c:245 *)
        (Has (own_is (OHandle sh HIo)) (fun busy =>
           if busy || negb (hok m sh HAcc) then                           (* uv__stream_open: UV_EBUSY *)
             spawn_unwind m done (spawn_error_temps (Ret (m, RC_ERR)))
           else Relabel (move (OTemp (2 * i)) (OHandle sh HIo))
                  (spawn_open m (S i) r (sh :: done) rc)))
  | _ :: r => spawn_open m (S i) r done rc
  end.

(* [childok]: fork and exec worked (exec_errorno == 0) *)
Definition op_spawn (m : mstate) (h : nat) (sd : list sdesc) (childok : bool) : prog (mstate * nat) :=
  match m_loop m with
  | None => Ret (m, RC_MISUSE)
  | Some l =>
    if negb (Nat.eqb h (length (m_handles m))) then Ret (m, RC_MISUSE)
    else
    let m := add_handle m TOther HOpen in
    spawn_pairs 0 sd (fun ok =>
      if negb ok then spawn_error_temps (Ret (m, RC_ERR))
      else
      (* uv__spawn_and_init_child, process.c:920-963: the exec-error pipe *)
      Create KPipe2 [OTemp 1000; OTemp 1001] true (fun a =>
        if is_ok a then
          close_field (OTemp 1001) (close_field (OTemp 1000)
            (spawn_open m 0 sd [] (if childok then RC_OK else RC_ERR)))
        else spawn_open m 0 sd [] RC_ERR))
  end.

(* ------------------------------------------------------------------ *)
(* operations                                                          *)
(* ------------------------------------------------------------------ *)
Inductive op :=
| OLoopInit (nofd : nat) (usable : bool)
| OLoopClose
| OSqpoll                       (* uv_loop_configure(UV_LOOP_USE_IO_URING_SQPOLL) *)
| OIouLazy (usable : bool)
| OHInit (h : nat) (t : htype) (withsock : bool)
| OEnsure (h : nat) (sysok : bool)
| OPipeBind (h : nat) (sysok : bool)
| OOpen (h : nat) (src : fdsrc) (ok : bool)
| OSrvIo (h : nat) (fuel : nat)
| OAccept (s c : nat) (ok : bool)
| ORecvFds (h : nat) (n keep : nat)
| OClose (h : nat)
| ORun
| OFsEventStart (h : nat)
| OGive1 (k : kind) (g : nat)
| OGive2 (k : kind) (g1 g2 : nat)
| OUserClose (g : nat)
| OUserCloseFd (fd : nat)
| OUserAdd (fd : nat) (cx : bool)
| OSlurp
| OSpawn (h : nat) (sd : list sdesc) (childok : bool).

Definition op_prog (m : mstate) (o : op) : prog (mstate * nat) :=
  if m_abort m then Ret (m, RC_ABORT)
  else
  match o with
  | OLoopInit nofd usable => op_loop_init m nofd usable
  | OLoopClose => op_loop_close m
  | OSqpoll => Ret (set_sqpoll m true (m_iou_tried m), RC_OK)
  | OIouLazy usable => op_iou_lazy m usable
  | OHInit h t ws => op_hinit m h t ws
  | OEnsure h sysok => op_ensure m h sysok
  | OPipeBind h sysok => op_pipe_bind m h sysok
  | OOpen h src ok => op_open m h src ok
  | OSrvIo h fuel => op_srvio m h fuel
  | OAccept s c ok => op_accept m s c ok
  | ORecvFds h n keep => if hok m h HAcc then op_recvfds m h n keep else Ret (m, RC_MISUSE)
  | OClose h => op_close m h
  | ORun => op_run m
  | OFsEventStart h => op_fsevent_start m h
  | OGive1 k g => op_give1 m k g
  | OGive2 k g1 g2 => op_give2 m k g1 g2
  | OUserClose g => op_user_close m g
  | OUserCloseFd fd => op_user_close_fd m fd
  | OUserAdd fd cx => op_user_add m fd cx
  | OSlurp => op_slurp m
  | OSpawn h sd childok => op_spawn m h sd childok
  end.

Definition step (st : mstate * ist) (o : op) : mstate * ist :=
  let '(r, s) := run_prog (op_prog (fst st) o) (snd st) in
  (fst r, mkI (i_led s) (i_orc s) (ERet (snd r) :: i_tr s)).

Definition run_ops (os : list op) (st : mstate * ist) : mstate * ist := fold_left step os st.

(* a fresh process: the program's own descriptors, nothing of libuv's *)
Definition user_ledger (fds : list (nat * bool)) : ledger :=
  map (fun x => (fst x, mkE OUser (snd x) false)) fds.

Definition run (fixed : bool) (fds : list (nat * bool)) (os : list op) (orc : list ans) : mstate * ist :=
  run_ops os (minit fixed, mkI (user_ledger fds) orc []).
(* the code as it is *)
Definition run_current := run true.
