(* Model of src/timer.c on top of Model/Heap.v.  64-bit fields are Z with
   the wrap written out.  A callback's behaviour is a script: the k-th timer
   callback of a run executes the operation list [beh k]. *)
From UV Require Import Lib.Base Model.Heap.

Local Open Scope Z_scope.

Record key := mkKey { k_timeout : Z; k_sid : Z; k_id : nat }.

(* timer_less_than *)
Definition key_lt (a b : key) : bool :=
  if k_timeout a <? k_timeout b then true
  else if k_timeout b <? k_timeout a then false
  else k_sid a <? k_sid b.

Record timer := mkTimer {
  t_active : bool;
  t_closing : bool;
  t_timeout : Z;
  t_repeat : Z;
  t_sid : Z;
  t_cb : option nat;        (* timer_cb; None = NULL *)
  (* ghost: loop time and requested timeout of the latest arm *)
  g_at : Z;
  g_req : Z
}.

Record tstate := mkT {
  now : Z;                   (* loop->time *)
  counter : Z;               (* loop->timer_counter *)
  hp : heap key;             (* loop->timer_heap *)
  tms : list timer;          (* handles, by identity *)
  ready : list nat           (* ready_queue of the pass in progress *)
}.

Definition tinit (t0 : Z) : tstate := mkT t0 0 (heap_init) [] [].

Definition dflt_timer : timer := mkTimer false false 0 0 0 None 0 0.
Definition get (s : tstate) (i : nat) : timer := nth i (tms s) dflt_timer.
Definition set_tm (s : tstate) (i : nat) (f : timer -> timer) : tstate :=
  mkT (now s) (counter s) (hp s) (upd i f (tms s)) (ready s).

Definition hins := heap_insert key_lt.
Definition hrem := heap_remove key_lt k_id.

Definition remove_id (i : nat) (l : list nat) : list nat :=
  filter (fun j => negb (Nat.eqb i j)) l.

Definition UV_EINVAL : Z := -22.

(* uv_timer_init *)
Definition timer_init (s : tstate) : tstate :=
  mkT (now s) (counter s) (hp s) (tms s ++ [dflt_timer]) (ready s).

(* uv_timer_stop *)
Definition timer_stop (s : tstate) (i : nat) : tstate :=
  let t := get s i in
  if t_active t then
    let s1 := mkT (now s) (counter s) (hrem (hp s) i) (tms s) (ready s) in
    set_tm s1 i (fun t => mkTimer false (t_closing t) (t_timeout t) (t_repeat t)
                                  (t_sid t) (t_cb t) (g_at t) (g_req t))
  else
    mkT (now s) (counter s) (hp s) (tms s) (remove_id i (ready s)).

(* clamped_timeout = loop->time + timeout; if (clamped < timeout) clamped = -1 *)
Definition clamp (nw timeout : Z) : Z :=
  let c := wrap64 (nw + timeout) in
  if c <? timeout then max64 else c.

(* uv_timer_start *)
Definition timer_start (s : tstate) (i : nat) (cb : option nat) (timeout repeat : Z)
  : tstate * Z :=
  let t := get s i in
  match cb with
  | None => (s, UV_EINVAL)
  | Some _ =>
    if t_closing t then (s, UV_EINVAL) else
    let s1 := timer_stop s i in
    let c := clamp (now s1) timeout in
    let sid := counter s1 in
    let s2 := mkT (now s1) (wrap64 (counter s1 + 1))
                  (hins (hp s1) (mkKey c sid i)) (tms s1) (ready s1) in
    (set_tm s2 i (fun t => mkTimer true (t_closing t) c repeat sid cb (now s1) timeout), 0)
  end.

(* uv_timer_again *)
Definition timer_again (s : tstate) (i : nat) : tstate * Z :=
  let t := get s i in
  match t_cb t with
  | None => (s, UV_EINVAL)
  | Some _ =>
    if t_repeat t =? 0 then (s, 0)
    else let s1 := timer_stop s i in
         (fst (timer_start s1 i (t_cb t) (t_repeat t) (t_repeat t)), 0)
  end.

Definition timer_set_repeat (s : tstate) (i : nat) (r : Z) : tstate :=
  set_tm s i (fun t => mkTimer (t_active t) (t_closing t) (t_timeout t) r
                               (t_sid t) (t_cb t) (g_at t) (g_req t)).

(* uv_timer_get_due_in *)
Definition timer_due_in (s : tstate) (i : nat) : Z :=
  let t := get s i in
  if t_timeout t <=? now s then 0 else t_timeout t - now s.

(* uv_close on a timer: uv__timer_close = stop; flag CLOSING *)
Definition timer_close (s : tstate) (i : nat) : tstate :=
  let s1 := timer_stop s i in
  set_tm s1 i (fun t => mkTimer (t_active t) true (t_timeout t) (t_repeat t)
                                (t_sid t) (t_cb t) (g_at t) (g_req t)).

(* uv__next_timeout *)
Definition next_timeout (s : tstate) : Z :=
  match heap_min (hp s) with
  | None => -1
  | Some k =>
      if k_timeout k <=? now s then 0
      else let d := k_timeout k - now s in
           if int_max <? d then int_max else d
  end.

(* uv__update_time with the clock having advanced by d >= 0 ms *)
Definition advance (s : tstate) (d : Z) : tstate :=
  mkT (now s + Z.max 0 d) (counter s) (hp s) (tms s) (ready s).

Inductive op :=
| OInit
| OStart (i : nat) (cb : option nat) (timeout repeat : Z)
| OStop (i : nat)
| OAgain (i : nat)
| OSetRepeat (i : nat) (r : Z)
| OClose (i : nat)
| ODueIn (i : nat)
| ONext
| OAdvance (d : Z)
| ORun.                      (* uv__run_timers; ignored inside callbacks *)

Inductive event :=
| ERet (code : Z)
| EDue (v : Z)
| ENext (v : Z)
| EFire (i : nat) (cbtok : nat) (at_now : Z) (due : Z) (sid : Z) (armed_at : Z) (req : Z)
| EEntry (rep : Z) (due_in : Z) (act : bool) (closing : bool)   (* at callback entry: repeat in force, due-in, active, closing *)
| EPass (ctr : Z)
| EActive (l : list bool).

Definition active_flags (s : tstate) : event := EActive (map t_active (tms s)).

Definition valid (s : tstate) (i : nat) : bool := Nat.ltb i (length (tms s)).

(* one API call made outside uv__run_timers or from inside a callback;
   calls naming a handle that does not exist are ignored (the harness does
   the same) *)
Definition api (s : tstate) (o : op) : tstate * list event :=
  match o with
  | OInit => (timer_init s, [])
  | OStart i cb t r =>
      if valid s i then let '(s', c) := timer_start s i cb t r in (s', [ERet c]) else (s, [])
  | OStop i => if valid s i then (timer_stop s i, [ERet 0]) else (s, [])
  | OAgain i => if valid s i then let '(s', c) := timer_again s i in (s', [ERet c]) else (s, [])
  | OSetRepeat i r => if valid s i then (timer_set_repeat s i r, []) else (s, [])
  | OClose i => if valid s i then (timer_close s i, []) else (s, [])
  | ODueIn i => if valid s i then (s, [EDue (timer_due_in s i)]) else (s, [])
  | ONext => (s, [ENext (next_timeout s)])
  | OAdvance d => (advance s d, [])
  | ORun => (s, [])
  end.

Fixpoint apis (s : tstate) (os : list op) : tstate * list event :=
  match os with
  | [] => (s, [])
  | o :: os' => let '(s1, e1) := api s o in
                let '(s2, e2) := apis s1 os' in (s2, e1 ++ e2)
  end.

(* first loop of uv__run_timers: move every due timer to the ready queue *)
Fixpoint collect (fuel : nat) (s : tstate) : tstate :=
  match fuel with
  | O => s
  | S f =>
      match heap_min (hp s) with
      | None => s
      | Some k =>
          if now s <? k_timeout k then s
          else let s1 := timer_stop s (k_id k) in
               collect f (mkT (now s1) (counter s1) (hp s1) (tms s1)
                              (ready s1 ++ [k_id k]))
      end
  end.

(* second loop: pop the head, uv_timer_again, callback *)
Fixpoint fire (fuel : nat) (s : tstate) (beh : nat -> list op) (cnt : nat)
  : tstate * list event * nat :=
  match fuel with
  | O => (s, [], cnt)
  | S f =>
      match ready s with
      | [] => (s, [], cnt)
      | i :: rest =>
          let s0 := mkT (now s) (counter s) (hp s) (tms s) rest in
          let t := get s0 i in
          let ev := EFire i (match t_cb t with Some c => c | None => O end)
                          (now s0) (t_timeout t) (t_sid t) (g_at t) (g_req t) in
          let s1 := fst (timer_again s0 i) in
          let en := EEntry (t_repeat (get s1 i)) (timer_due_in s1 i) (t_active (get s1 i)) (t_closing (get s1 i)) in
          let '(s2, evs) := apis s1 (beh cnt) in
          let '(s3, evs', cnt') := fire f s2 beh (S cnt) in
          (s3, ev :: en :: evs ++ evs', cnt')
      end
  end.

Definition run_timers (s : tstate) (beh : nat -> list op) (cnt : nat)
  : tstate * list event * nat :=
  let s1 := collect (S (N.to_nat (h_n (hp s)))) s in
  fire (length (ready s1)) s1 beh cnt.

(* a whole script: top-level operations, ORun runs a timer pass *)
Fixpoint run (s : tstate) (os : list op) (beh : nat -> list op) (cnt : nat)
  : tstate * list event :=
  match os with
  | [] => (s, [])
  | ORun :: os' =>
      let '(s1, e1, cnt') := run_timers s beh cnt in
      let '(s2, e2) := run s1 os' beh cnt' in
      (s2, EPass (counter s) :: e1 ++ active_flags s1 :: e2)
  | o :: os' =>
      let '(s1, e1) := api s o in
      let '(s2, e2) := run s1 os' beh cnt in
      (s2, e1 ++ e2)
  end.
