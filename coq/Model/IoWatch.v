(* Model of the io watchers of libuv on Linux:
     src/unix/core.c   uv__io_start / uv__io_stop / uv__io_close / uv__io_feed /
                       uv__io_active / uv__fd_exists, uv__run_pending     (870-1001)
     src/unix/linux.c  uv__platform_invalidate_fd, uv__io_check_fd          (695-753)
                       uv__epoll_ctl_prep / uv__epoll_ctl_flush            (1246-1347)
                       uv__io_poll: registration loop, dispatch loop       (1350-1620)
     src/unix/poll.c   uv_poll_init / uv_poll_start / uv_poll_stop /
                       uv__poll_close / uv__poll_io
   and of the part of the kernel the property speaks about: the descriptor
   table (number -> open file description) with open / dup / close, and the
   epoll interest set keyed by (descriptor number, open file description);
   a registration dies when the last descriptor of its open file description
   is closed.

   An event mask is a set of flags, written as a record of booleans (the
   POLL* encoding and the UV_* encoding of the same four conditions are the
   same set; the driver converts the integers).  Oracles: [fdo k] is the
   descriptor number the kernel hands out at the k-th open/dup, [pw k] the
   answer of the k-th epoll_pwait, [beh k] the operations the k-th callback
   of the case performs.  Fields starting with g_ are ghosts. *)
From UV Require Import Lib.Base.

Local Open Scope Z_scope.

(* ---- masks ------------------------------------------------------------- *)
Record mask := mkM {
  m_in : bool;       (* POLLIN   / UV_READABLE *)
  m_pri : bool;      (* POLLPRI  / UV_PRIORITIZED *)
  m_out : bool;      (* POLLOUT  / UV_WRITABLE *)
  m_err : bool;      (* POLLERR *)
  m_hup : bool;      (* POLLHUP *)
  m_rdhup : bool     (* POLLRDHUP / UV_DISCONNECT *)
}.

Definition m0 : mask := mkM false false false false false false.
Definition mor (a b : mask) : mask :=
  mkM (m_in a || m_in b) (m_pri a || m_pri b) (m_out a || m_out b)
      (m_err a || m_err b) (m_hup a || m_hup b) (m_rdhup a || m_rdhup b).
Definition mand (a b : mask) : mask :=
  mkM (m_in a && m_in b) (m_pri a && m_pri b) (m_out a && m_out b)
      (m_err a && m_err b) (m_hup a && m_hup b) (m_rdhup a && m_rdhup b).
Definition mdiff (a b : mask) : mask :=      (* a & ~b *)
  mkM (m_in a && negb (m_in b)) (m_pri a && negb (m_pri b)) (m_out a && negb (m_out b))
      (m_err a && negb (m_err b)) (m_hup a && negb (m_hup b)) (m_rdhup a && negb (m_rdhup b)).
Definition meqb (a b : mask) : bool :=
  Bool.eqb (m_in a) (m_in b) && Bool.eqb (m_pri a) (m_pri b) && Bool.eqb (m_out a) (m_out b) &&
  Bool.eqb (m_err a) (m_err b) && Bool.eqb (m_hup a) (m_hup b) && Bool.eqb (m_rdhup a) (m_rdhup b).
Definition mzero (a : mask) : bool := meqb a m0.

(* POLLIN | POLLOUT | UV__POLLRDHUP | UV__POLLPRI *)
Definition ALLEV : mask := mkM true true true false false true.
Definition ERRHUP : mask := mkM false false false true true false.
Definition ONLY_ERR : mask := mkM false false false true false false.
Definition ONLY_HUP : mask := mkM false false false false true false.
Definition ONLY_IN : mask := mkM true false false false false false.
Definition ONLY_OUT : mask := mkM false false true false false false.

(* ---- the flag encodings (include/uv.h uv_poll_event, <poll.h>) and the translation
   tables of uv_poll_start (UV to POLL flags) and uv__poll_io (POLL to UV flags) ----- *)
Definition UV_READABLE : Z := 1.
Definition UV_WRITABLE : Z := 2.
Definition UV_DISCONNECT : Z := 4.
Definition UV_PRIORITIZED : Z := 8.
Definition POLLIN : Z := 1.
Definition POLLPRI : Z := 2.
Definition POLLOUT : Z := 4.
Definition POLLERR : Z := 8.
Definition POLLHUP : Z := 16.
Definition POLLRDHUP : Z := 8192.

Definition has (v flag : Z) : bool := negb (Z.land v flag =? 0).
Definition bit (b : bool) (flag : Z) : Z := if b then flag else 0.

(* a mask given in the UV encoding / written in it *)
Definition mask_of_uv (v : Z) : mask :=
  mkM (has v UV_READABLE) (has v UV_PRIORITIZED) (has v UV_WRITABLE) false false (has v UV_DISCONNECT).
Definition uv_of_mask (m : mask) : Z :=
  bit (m_in m) UV_READABLE + bit (m_out m) UV_WRITABLE + bit (m_rdhup m) UV_DISCONNECT +
  bit (m_pri m) UV_PRIORITIZED.
(* ... in the POLL encoding *)
Definition mask_of_poll (v : Z) : mask :=
  mkM (has v POLLIN) (has v POLLPRI) (has v POLLOUT) (has v POLLERR) (has v POLLHUP) (has v POLLRDHUP).
Definition poll_of_mask (m : mask) : Z :=
  bit (m_in m) POLLIN + bit (m_pri m) POLLPRI + bit (m_out m) POLLOUT + bit (m_err m) POLLERR +
  bit (m_hup m) POLLHUP + bit (m_rdhup m) POLLRDHUP.
(* uv_poll_start: the events handed to uv__io_start for a UV request *)
Definition poll_of_uv (v : Z) : Z := poll_of_mask (mask_of_uv v).
(* uv__poll_io: the UV events handed to the user for POLL events *)
Definition uv_of_poll (v : Z) : Z := uv_of_mask (mask_of_poll v).

(* ---- errno / libuv codes ------------------------------------------------ *)
Definition EBADF : Z := 9.
Definition EEXIST : Z := 17.
Definition ENOENT : Z := 2.
Definition UV_EBADF : Z := -9.
Definition UV_EEXIST : Z := -17.

(* ---- handles ------------------------------------------------------------- *)
Inductive kind := KPoll | KRaw.    (* uv_poll_t / a bare uv__io_t as streams use it *)

Record handle := mkH {
  h_kind : kind;
  h_fd : Z;               (* w->fd *)
  h_pev : mask;           (* w->pevents *)
  h_ev : mask;            (* w->events *)
  h_active : bool;        (* UV_HANDLE_ACTIVE (poll handles) *)
  h_closed : bool;        (* uv_close / uv__io_close has returned *)
  g_req : mask;           (* ghost: mask of the latest successful uv_poll_start *)
  g_start : option nat    (* ghost: Some k = started (and not stopped since) when k
                             epoll_pwait calls had been made; None = stopped *)
}.

Inductive ctlop := CAdd | CMod | CDel.

Record state := mkS {
  hs : list handle;               (* every handle ever initialised, by identity *)
  reg : Z -> option nat;          (* loop->watchers[fd] *)
  wq : list nat;                  (* loop->watcher_queue *)
  pend : list nat;                (* loop->pending_queue *)
  prun : list nat;                (* local queue of the uv__run_pending in progress *)
  batch : list (Z * Z * mask);    (* rest of inv->events: (data.fd or -1, fd as reported, events) *)
  ring : bool;                    (* ctl.ringfd != -1 *)
  sq : list (ctlop * Z * mask);   (* prepared, not yet submitted ctl ring entries *)
  fdt : Z -> option nat;          (* kernel: descriptor number -> open file description *)
  ep : Z -> nat -> option mask;   (* kernel: epoll interest set, key (number, file) *)
  pairs : list (Z * nat);         (* every (number, file) pair that ever existed *)
  next_ofd : nat;
  slots : nat -> Z;               (* the script's descriptor variables; -1 = none *)
  npw : nat;                      (* epoll_pwait calls made *)
  nopen : nat;                    (* open/dup calls made *)
  ncb : nat;                      (* callbacks run *)
  aborted : bool;                 (* abort() reached *)
  strict : bool                   (* which usage discipline the guards enforce *)
}.

Definition sinit (rng strct : bool) : state :=
  mkS [] (fun _ => None) [] [] [] [] rng [] (fun _ => None) (fun _ _ => None) [] O
      (fun _ => -1) O O O false strct.

Definition set_hs s v := mkS v (reg s) (wq s) (pend s) (prun s) (batch s) (ring s) (sq s) (fdt s) (ep s) (pairs s) (next_ofd s) (slots s) (npw s) (nopen s) (ncb s) (aborted s) (strict s).
Definition set_reg s v := mkS (hs s) v (wq s) (pend s) (prun s) (batch s) (ring s) (sq s) (fdt s) (ep s) (pairs s) (next_ofd s) (slots s) (npw s) (nopen s) (ncb s) (aborted s) (strict s).
Definition set_wq s v := mkS (hs s) (reg s) v (pend s) (prun s) (batch s) (ring s) (sq s) (fdt s) (ep s) (pairs s) (next_ofd s) (slots s) (npw s) (nopen s) (ncb s) (aborted s) (strict s).
Definition set_pend s v := mkS (hs s) (reg s) (wq s) v (prun s) (batch s) (ring s) (sq s) (fdt s) (ep s) (pairs s) (next_ofd s) (slots s) (npw s) (nopen s) (ncb s) (aborted s) (strict s).
Definition set_prun s v := mkS (hs s) (reg s) (wq s) (pend s) v (batch s) (ring s) (sq s) (fdt s) (ep s) (pairs s) (next_ofd s) (slots s) (npw s) (nopen s) (ncb s) (aborted s) (strict s).
Definition set_batch s v := mkS (hs s) (reg s) (wq s) (pend s) (prun s) v (ring s) (sq s) (fdt s) (ep s) (pairs s) (next_ofd s) (slots s) (npw s) (nopen s) (ncb s) (aborted s) (strict s).
Definition set_sq s v := mkS (hs s) (reg s) (wq s) (pend s) (prun s) (batch s) (ring s) v (fdt s) (ep s) (pairs s) (next_ofd s) (slots s) (npw s) (nopen s) (ncb s) (aborted s) (strict s).
Definition set_fdt s v := mkS (hs s) (reg s) (wq s) (pend s) (prun s) (batch s) (ring s) (sq s) v (ep s) (pairs s) (next_ofd s) (slots s) (npw s) (nopen s) (ncb s) (aborted s) (strict s).
Definition set_ep s v := mkS (hs s) (reg s) (wq s) (pend s) (prun s) (batch s) (ring s) (sq s) (fdt s) v (pairs s) (next_ofd s) (slots s) (npw s) (nopen s) (ncb s) (aborted s) (strict s).
Definition set_pairs s v := mkS (hs s) (reg s) (wq s) (pend s) (prun s) (batch s) (ring s) (sq s) (fdt s) (ep s) v (next_ofd s) (slots s) (npw s) (nopen s) (ncb s) (aborted s) (strict s).
Definition set_next_ofd s v := mkS (hs s) (reg s) (wq s) (pend s) (prun s) (batch s) (ring s) (sq s) (fdt s) (ep s) (pairs s) v (slots s) (npw s) (nopen s) (ncb s) (aborted s) (strict s).
Definition set_slots s v := mkS (hs s) (reg s) (wq s) (pend s) (prun s) (batch s) (ring s) (sq s) (fdt s) (ep s) (pairs s) (next_ofd s) v (npw s) (nopen s) (ncb s) (aborted s) (strict s).
Definition set_npw s v := mkS (hs s) (reg s) (wq s) (pend s) (prun s) (batch s) (ring s) (sq s) (fdt s) (ep s) (pairs s) (next_ofd s) (slots s) v (nopen s) (ncb s) (aborted s) (strict s).
Definition set_nopen s v := mkS (hs s) (reg s) (wq s) (pend s) (prun s) (batch s) (ring s) (sq s) (fdt s) (ep s) (pairs s) (next_ofd s) (slots s) (npw s) v (ncb s) (aborted s) (strict s).
Definition set_ncb s v := mkS (hs s) (reg s) (wq s) (pend s) (prun s) (batch s) (ring s) (sq s) (fdt s) (ep s) (pairs s) (next_ofd s) (slots s) (npw s) (nopen s) v (aborted s) (strict s).
Definition set_aborted s v := mkS (hs s) (reg s) (wq s) (pend s) (prun s) (batch s) (ring s) (sq s) (fdt s) (ep s) (pairs s) (next_ofd s) (slots s) (npw s) (nopen s) (ncb s) v (strict s).

Definition dflt_h : handle := mkH KPoll (-1) m0 m0 false true m0 None.
Definition hget (s : state) (i : nat) : handle := nth i (hs s) dflt_h.
Definition hupd (s : state) (i : nat) (f : handle -> handle) : state := set_hs s (upd i f (hs s)).

Definition h_set_pev h v := mkH (h_kind h) (h_fd h) v (h_ev h) (h_active h) (h_closed h) (g_req h) (g_start h).
Definition h_set_ev h v := mkH (h_kind h) (h_fd h) (h_pev h) v (h_active h) (h_closed h) (g_req h) (g_start h).
Definition h_set_active h v := mkH (h_kind h) (h_fd h) (h_pev h) (h_ev h) v (h_closed h) (g_req h) (g_start h).
Definition h_set_closed h v := mkH (h_kind h) (h_fd h) (h_pev h) (h_ev h) (h_active h) v (g_req h) (g_start h).
Definition h_set_ghost h r st := mkH (h_kind h) (h_fd h) (h_pev h) (h_ev h) (h_active h) (h_closed h) r st.

Definition kind_eqb (a b : kind) : bool :=
  match a, b with KPoll, KPoll | KRaw, KRaw => true | _, _ => false end.

Definition mem (i : nat) (l : list nat) : bool := existsb (Nat.eqb i) l.
Definition remove_id (i : nat) (l : list nat) : list nat := filter (fun j => negb (Nat.eqb i j)) l.

(* ---- kernel --------------------------------------------------------------- *)
Definition fn_set {A} (f : Z -> A) (k : Z) (v : A) : Z -> A := fun x => if x =? k then v else f x.
Definition ep_set (e : Z -> nat -> option mask) (fd : Z) (o : nat) (v : option mask) :=
  fun x y => if (x =? fd) && Nat.eqb y o then v else e x y.

(* epoll_ctl(backend_fd, op, fd, {m}) -> new interest set, errno (0 = success) *)
Definition epoll_ctl (s : state) (op : ctlop) (fd : Z) (m : mask) : state * Z :=
  match fdt s fd with
  | None => (s, EBADF)
  | Some o =>
    match op, ep s fd o with
    | CAdd, Some _ => (s, EEXIST)
    | CAdd, None => (set_ep s (ep_set (ep s) fd o (Some m)), 0)
    | CMod, Some _ => (set_ep s (ep_set (ep s) fd o (Some m)), 0)
    | CMod, None => (s, ENOENT)
    | CDel, Some _ => (set_ep s (ep_set (ep s) fd o None), 0)
    | CDel, None => (s, ENOENT)
    end
  end.

(* open() / socketpair() / eventfd() ... answered with number [fd] *)
Definition k_open (s : state) (fd : Z) : state :=
  let o := next_ofd s in
  set_next_ofd (set_pairs (set_fdt s (fn_set (fdt s) fd (Some o))) ((fd, o) :: pairs s)) (S o).

(* dup(src) answered with number [fd] *)
Definition k_dup (s : state) (src fd : Z) : state :=
  match fdt s src with
  | None => s
  | Some o => set_pairs (set_fdt s (fn_set (fdt s) fd (Some o))) ((fd, o) :: pairs s)
  end.

(* close(fd): the registrations of the open file description go away when this
   was its last descriptor; otherwise they stay -- also the one made through
   the number being closed *)
Definition k_close (s : state) (fd : Z) : state :=
  match fdt s fd with
  | None => s
  | Some o =>
    let t := fn_set (fdt s) fd None in
    let still := existsb (fun p => Nat.eqb (snd p) o &&
                                   match t (fst p) with Some o' => Nat.eqb o' o | None => false end)
                         (pairs s) in
    let s1 := set_fdt s t in
    if still then s1 else set_ep s1 (fun x y => if Nat.eqb y o then None else ep s x y)
  end.

(* ---- core.c ---------------------------------------------------------------- *)
(* uv__io_start *)
Definition io_start (s : state) (i : nat) (events : mask) : state :=
  let s1 := hupd s i (fun h => h_set_pev h (mor (h_pev h) events)) in
  let h := hget s1 i in
  if meqb (h_ev h) (h_pev h) then s1 else
  let s2 := if mem i (wq s1) then s1 else set_wq s1 (wq s1 ++ [i]) in
  match reg s2 (h_fd h) with
  | None => set_reg s2 (fn_set (reg s2) (h_fd h) (Some i))
  | Some _ => s2
  end.

(* uv__io_stop *)
Definition io_stop (s : state) (i : nat) (events : mask) : state :=
  let s1 := hupd s i (fun h => h_set_pev h (mdiff (h_pev h) events)) in
  let h := hget s1 i in
  if mzero (h_pev h) then
    let s2 := hupd (set_wq s1 (remove_id i (wq s1))) i (fun h => h_set_ev h m0) in
    match reg s2 (h_fd h) with
    | Some j => if Nat.eqb i j then set_reg s2 (fn_set (reg s2) (h_fd h) None) else s2
    | None => s2
    end
  else if mem i (wq s1) then s1 else set_wq s1 (wq s1 ++ [i]).

(* uv__platform_invalidate_fd *)
Definition invalidate (s : state) (fd : Z) : state :=
  let b := map (fun e => match e with (f, orig, ev) => if f =? fd then (-1, orig, ev) else e end)
               (batch s) in
  fst (epoll_ctl (set_batch s b) CDel fd m0).

(* uv__io_close *)
Definition io_close (s : state) (i : nat) : state :=
  let s1 := io_stop s i ALLEV in
  let s2 := set_prun (set_pend s1 (remove_id i (pend s1))) (remove_id i (prun s1)) in
  invalidate s2 (h_fd (hget s2 i)).

(* uv__io_feed *)
Definition io_feed (s : state) (i : nat) : state :=
  if mem i (pend s) || mem i (prun s) then s else set_pend s (pend s ++ [i]).

(* uv__io_active *)
Definition io_active (s : state) (i : nat) (events : mask) : bool :=
  negb (mzero (mand (h_pev (hget s i)) events)).

(* uv__fd_exists *)
Definition fd_exists (s : state) (fd : Z) : bool :=
  match reg s fd with Some _ => true | None => false end.

(* ---- poll.c ------------------------------------------------------------------ *)
(* if (!uv__fd_exists(loop, fd)) uv__platform_invalidate_fd(loop, fd): a watcher that
   is still registered under the number (another handle's) keeps its batch entries and
   its kernel registration *)
Definition invalidate_unless_watched (s : state) (fd : Z) : state :=
  if fd_exists s fd then s else invalidate s fd.

(* uv__poll_stop *)
Definition poll_stop (s : state) (i : nat) : state :=
  let s1 := io_stop s i ALLEV in
  let s2 := hupd s1 i (fun h => h_set_ghost (h_set_active h false) (g_req h) None) in
  invalidate_unless_watched s2 (h_fd (hget s2 i)).

(* uv_poll_start *)
Definition poll_start (s : state) (i : nat) (pevents : mask) : state * Z :=
  let h := hget s i in
  let other := match reg s (h_fd h) with Some j => negb (Nat.eqb i j) | None => false end in
  if other then (s, UV_EEXIST) else
  let s1 := poll_stop s i in
  if mzero pevents then (s1, 0) else
  let s2 := io_start s1 i (mand pevents ALLEV) in
  (hupd s2 i (fun h => h_set_ghost (h_set_active h true) (mand pevents ALLEV) (Some (npw s2))), 0).

(* uv__io_check_fd *)
Definition io_check_fd (s : state) (fd : Z) : state * Z :=
  let '(s1, e1) := epoll_ctl s CAdd fd ONLY_IN in
  if (e1 =? 0) || (e1 =? EEXIST) then
    let '(s2, e2) := epoll_ctl s1 CDel fd ONLY_IN in
    if e2 =? 0 then (s2, 0) else (set_aborted s2 true, 0)
  else (s1, - e1).

(* uv_poll_init; a failed init leaves a handle that can not be used *)
Definition poll_init (s : state) (fd : Z) : state * Z :=
  if fd_exists s fd then (set_hs s (hs s ++ [dflt_h]), UV_EEXIST) else
  let '(s1, rc) := io_check_fd s fd in
  if rc =? 0 then (set_hs s1 (hs s1 ++ [mkH KPoll fd m0 m0 false false m0 None]), 0)
  else (set_hs s1 (hs s1 ++ [dflt_h]), rc).

(* uv__io_init on a bare watcher *)
Definition raw_init (s : state) (fd : Z) : state :=
  set_hs s (hs s ++ [mkH KRaw fd m0 m0 false false m0 None]).

(* ---- linux.c: control ring ------------------------------------------------------ *)
(* one submitted entry; failed ADD with EEXIST is retried as MOD, any other
   failure of ADD/MOD is abort() *)
Fixpoint flush_entries (s : state) (l : list (ctlop * Z * mask)) (retry : list (ctlop * Z * mask))
  : state * list (ctlop * Z * mask) :=
  match l with
  | [] => (s, retry)
  | (op, fd, m) :: r =>
    let '(s1, e) := epoll_ctl s op fd m in
    if e =? 0 then flush_entries s1 r retry
    else match op with
         | CDel => flush_entries s1 r retry
         | CAdd => if e =? EEXIST then flush_entries s1 r (retry ++ [(CMod, fd, m)])
                   else flush_entries (set_aborted s1 true) r retry
         | CMod => flush_entries (set_aborted s1 true) r retry
         end
  end.

(* uv__epoll_ctl_flush *)
Definition ctl_flush (s : state) : state :=
  let '(s1, retry) := flush_entries (set_sq s []) (sq s) [] in
  set_sq s1 retry.

(* while (sqhead != sqtail) uv__epoll_ctl_flush(): the retries are
   MODs, which are not retried, so two rounds empty the ring *)
Definition ctl_flush_all (s : state) : state :=
  match sq s with
  | [] => s
  | _ => let s1 := ctl_flush s in
         match sq s1 with [] => s1 | _ => ctl_flush s1 end
  end.

(* registration loop of uv__io_poll over the detached watcher queue *)
Fixpoint reg_loop (s : state) (q : list nat) : state :=
  match q with
  | [] => s
  | i :: r =>
    let h := hget s i in
    let op := if mzero (h_ev h) then CAdd else CMod in
    let s1 := hupd s i (fun h => h_set_ev h (h_pev h)) in
    let m := h_pev h in
    let fd := h_fd h in
    if ring s1 then reg_loop (set_sq s1 (sq s1 ++ [(op, fd, m)])) r
    else
      let '(s2, e) := epoll_ctl s1 op fd m in
      if e =? 0 then reg_loop s2 r
      else let '(s3, e2) := epoll_ctl s2 CMod fd m in
           if e2 =? 0 then reg_loop s3 r else reg_loop (set_aborted s3 true) r
  end.

(* ---- scripts ---------------------------------------------------------------------- *)
Inductive op :=
| OOpen (sl : nat)                 (* a new open file; number := next oracle answer *)
| ODup (src dst : nat)
| OCloseFd (sl : nat)
| OEnv                             (* a peer made a descriptor ready / not ready: kernel's business *)
| OInit (sl : nat)                 (* uv_poll_init on the descriptor in slot sl *)
| ORawInit (sl : nat)              (* uv__io_init *)
| OStart (h : nat) (m : mask)      (* uv_poll_start / uv__io_start *)
| OStop (h : nat) (m : mask)       (* uv_poll_stop / uv__io_stop (m only for bare watchers) *)
| OClose (h : nat)                 (* uv_close / uv__io_close *)
| OFeed (h : nat)                  (* uv__io_feed (bare watchers) *)
| OActive (h : nat)                (* uv_is_active / uv__io_active(all) *)
| OForeign (k : nat) (sl : nat)     (* uv_pipe_open (0) / uv_tcp_open (1) / uv_udp_open (2) of a fresh
                                      handle of another kind on the descriptor in slot sl *)
| ORun.                            (* uv_run(UV_RUN_NOWAIT); ignored inside callbacks *)

Inductive event :=
| EOpen (sl : nat) (fd : Z)
| ECloseFd (fd : Z)
| ESkip                                    (* operation not legal here: not performed *)
| EInit (h : nat) (k : kind) (c : Z) (fd : Z)
| EStart (h : nat) (m : mask) (c : Z)
| EStop (h : nat) (m : mask)
| EClose (h : nat)
| EFeed (h : nat)
| EAct (h : nat) (b : bool)
| EForeign (k : nat) (fd : Z) (refused : bool)   (* refused = returned UV_EEXIST *)
| ECb (h : nat) (status : Z) (ev : mask)   (* poll callback; ghosts: *)
      (req : mask) (efd : Z) (rep : mask) (hfd : Z) (gstart : option nat) (n : nat)
| ERawCb (h : nat) (ev : mask)
| EPwait (at_ : state) (answer : list (Z * mask))
| EAbort.

Definition valid (s : state) (i : nat) : bool :=
  Nat.ltb i (length (hs s)) && negb (h_closed (hget s i)).

(* is some handle satisfying p attached to descriptor number fd? *)
Definition any_on (s : state) (fd : Z) (p : handle -> bool) : bool :=
  existsb (fun h => (h_fd h =? fd) && p h) (hs s).
Definition live (h : handle) : bool := negb (h_closed h).
Definition is_raw (h : handle) : bool := kind_eqb (h_kind h) KRaw.
Definition busy (h : handle) : bool :=
  negb (h_closed h) && (h_active h || negb (mzero (h_pev h)) || is_raw h).

(* one API call from the script (top level or inside a callback) *)
Definition api (fdo : nat -> Z) (s : state) (o : op) : state * list event :=
  if aborted s then (s, [ESkip]) else
  match o with
  | OOpen sl =>
      if slots s sl =? -1 then
        let fd := fdo (nopen s) in
        let s := set_nopen s (S (nopen s)) in
        if (0 <=? fd) && (match fdt s fd with None => true | Some _ => false end)
        then (set_slots (k_open s fd) (fun x => if Nat.eqb x sl then fd else slots s x), [EOpen sl fd])
        else (s, [ESkip])
      else (s, [ESkip])
  | ODup src dst =>
      if (slots s dst =? -1) && negb (slots s src =? -1) then
        let fd := fdo (nopen s) in
        let s := set_nopen s (S (nopen s)) in
        if (0 <=? fd) && (match fdt s fd with None => true | Some _ => false end)
        then (set_slots (k_dup s (slots s src) fd) (fun x => if Nat.eqb x dst then fd else slots s x),
              [EOpen dst fd])
        else (s, [ESkip])
      else (s, [ESkip])
  | OCloseFd sl =>
      let fd := slots s sl in
      if (fd =? -1) || any_on s fd busy || (strict s && any_on s fd live) then (s, [ESkip])
      else (set_slots (k_close s fd) (fun x => if Nat.eqb x sl then -1 else slots s x), [ECloseFd fd])
  | OEnv => (s, [])
  | OInit sl =>
      let fd := slots s sl in
      if (fd =? -1) || (negb (fd_exists s fd) && any_on s fd (fun h => live h && is_raw h)) ||
         (strict s && any_on s fd live)
      then (s, [ESkip])
      else let '(s1, rc) := poll_init s fd in (s1, [EInit (length (hs s)) KPoll rc fd])
  | ORawInit sl =>
      let fd := slots s sl in
      if (fd =? -1) || (match fdt s fd with None => true | Some _ => false end) || any_on s fd live
      then (s, [ESkip])
      else (raw_init s fd, [EInit (length (hs s)) KRaw 0 fd])
  | OStart i m =>
      if valid s i && (match fdt s (h_fd (hget s i)) with Some _ => true | None => false end) then
        match h_kind (hget s i) with
        | KPoll => let '(s1, rc) := poll_start s i (mand m ALLEV) in (s1, [EStart i (mand m ALLEV) rc])
        | KRaw => if mzero (mand m ALLEV) then (s, [ESkip]) else (io_start s i (mand m ALLEV), [EStart i (mand m ALLEV) 0])
        end
      else (s, [ESkip])
  | OStop i m =>
      if valid s i then
        match h_kind (hget s i) with
        | KPoll => (poll_stop s i, [EStop i m0])
        | KRaw => if mzero (mand m ALLEV) then (s, [ESkip]) else (io_stop s i (mand m ALLEV), [EStop i (mand m ALLEV)])
        end
      else (s, [ESkip])
  | OClose i =>
      if valid s i then
        match h_kind (hget s i) with
        | KPoll => (hupd (poll_stop s i) i (fun h => h_set_closed h true), [EClose i])
        | KRaw => (hupd (io_close s i) i (fun h => h_set_closed h true), [EClose i])
        end
      else (s, [ESkip])
  | OFeed i =>
      if valid s i && is_raw (hget s i) then (io_feed s i, [EFeed i]) else (s, [ESkip])
  | OActive i =>
      if valid s i then
        match h_kind (hget s i) with
        | KPoll => (s, [EAct i (h_active (hget s i))])
        | KRaw => (s, [EAct i (io_active s i ALLEV)])
        end
      else (s, [ESkip])
  | OForeign k sl =>
      (* uv_pipe_open / uv_tcp_open / uv_udp_open: if (uv__fd_exists(loop, fd)) return UV_EEXIST;
         otherwise the descriptor is only made non-blocking / flagged: nothing the watchers
         or the kernel's interest set see (the script disposes of the handle at once) *)
      let fd := slots s sl in
      if fd =? -1 then (s, [ESkip]) else (s, [EForeign k fd (fd_exists s fd)])
  | ORun => (s, [])
  end.

Fixpoint apis (fdo : nat -> Z) (s : state) (os : list op) : state * list event :=
  match os with
  | [] => (s, [])
  | o :: r => let '(s1, e1) := api fdo s o in
              let '(s2, e2) := apis fdo s1 r in (s2, e1 ++ e2)
  end.

(* the user callback: the k-th callback of the case performs [beh k] *)
Definition user_cb (fdo : nat -> Z) (beh : nat -> list op) (s : state) : state * list event :=
  let k := ncb s in
  apis fdo (set_ncb s (S k)) (beh k).

(* what w->cb does before it reaches the user's callback.  poll handles:
   uv__poll_io (POLLERR without POLLPRI stops the handle and reports UV_EBADF,
   otherwise the events are translated); bare watchers: nothing *)
Definition cb_pre (s : state) (i : nat) (events : mask) (efd : Z) (rep : mask) : state * event :=
  let h := hget s i in
  match h_kind h with
  | KPoll =>
    if m_err events && negb (m_pri events) then
      let s1 := io_stop s i ALLEV in
      let s2 := hupd s1 i (fun h => h_set_ghost (h_set_active h false) (g_req h) None) in
      (invalidate_unless_watched s2 (h_fd h),
       ECb i UV_EBADF m0 (g_req h) efd rep (h_fd h) (g_start h) (npw s))
    else (s, ECb i 0 (mand events ALLEV) (g_req h) efd rep (h_fd h) (g_start h) (npw s))
  | KRaw => (s, ERawCb i events)
  end.

(* w->cb(loop, w, events) *)
Definition watcher_cb (fdo : nat -> Z) (beh : nat -> list op) (s : state) (i : nat)
           (events : mask) (efd : Z) (rep : mask) : state * list event :=
  let '(s1, e) := cb_pre s i events efd rep in
  let '(s2, evs) := user_cb fdo beh s1 in (s2, e :: evs).

(* one entry of the batch in the dispatch loop of uv__io_poll: skipped
   (invalidated, or nothing left after masking), disarmed (no watcher), or
   dispatched with the masked / merged events *)
Inductive target := TSkip | TDel (fd : Z) | TCall (i : nat) (ev : mask) (orig : Z) (rep : mask).

Definition dispatch_target (s : state) (e : Z * Z * mask) : target :=
  let '(fd, orig, rep) := e in
  if fd =? -1 then TSkip else
  match reg s fd with
  | None => TDel fd
  | Some i =>
    let pev := h_pev (hget s i) in
    let ev1 := mand rep (mor pev ERRHUP) in
    let ev2 := if meqb ev1 ONLY_ERR || meqb ev1 ONLY_HUP then mor ev1 (mand pev ALLEV) else ev1 in
    if mzero ev2 then TSkip else TCall i ev2 orig rep
  end.

Definition dispatch_one (fdo : nat -> Z) (beh : nat -> list op) (s : state) (e : Z * Z * mask)
  : state * list event :=
  match dispatch_target s e with
  | TSkip => (s, [])
  | TDel fd => (fst (epoll_ctl s CDel fd m0), [])
  | TCall i ev orig rep => watcher_cb fdo beh s i ev orig rep
  end.

Fixpoint dispatch (fuel : nat) (fdo : nat -> Z) (beh : nat -> list op) (s : state)
  : state * list event :=
  match fuel with
  | O => (s, [])
  | S f =>
    if aborted s then (s, []) else
    match batch s with
    | [] => (s, [])
    | e :: rest =>
      let '(s1, e1) := dispatch_one fdo beh (set_batch s rest) e in
      let '(s2, e2) := dispatch f fdo beh s1 in (s2, e1 ++ e2)
    end
  end.

(* uv__io_poll up to the call of epoll_pwait: registration loop, ring flushed *)
Definition poll_prepare (s : state) : state :=
  let s1 := reg_loop (set_wq s []) (wq s) in
  if ring s1 then ctl_flush_all s1 else s1.

(* epoll_pwait answered with [ans] *)
Definition poll_fetch (s : state) (ans : list (Z * mask)) : state :=
  set_batch (set_npw s (S (npw s))) (map (fun a => (fst a, fst a, snd a)) ans).

(* uv__io_poll(loop, 0) *)
Definition io_poll (fdo : nat -> Z) (pw : nat -> list (Z * mask)) (beh : nat -> list op) (s : state)
  : state * list event :=
  let s2 := poll_prepare s in
  if aborted s2 then (s2, [EAbort]) else
  let ans := pw (npw s2) in
  let '(s4, evs) := dispatch (length ans) fdo beh (poll_fetch s2 ans) in
  (set_batch s4 [], EPwait s2 ans :: evs).

(* uv__run_pending *)
Fixpoint run_pending (fuel : nat) (fdo : nat -> Z) (beh : nat -> list op) (s : state)
  : state * list event :=
  match fuel with
  | O => (s, [])
  | S f =>
    if aborted s then (s, []) else
    match prun s with
    | [] => (s, [])
    | i :: rest =>
      let '(s1, e1) := watcher_cb fdo beh (set_prun s rest) i ONLY_OUT (-1) m0 in
      let '(s2, e2) := run_pending f fdo beh s1 in (s2, e1 ++ e2)
    end
  end.

Definition pending_round (fdo : nat -> Z) (beh : nat -> list op) (s : state) : state * list event :=
  let s0 := set_pend (set_prun s (pend s)) [] in
  let '(s1, e1) := run_pending (length (prun s0)) fdo beh s0 in
  (set_prun s1 [], e1).

(* for (r = 0; r < 8 && !uv__queue_empty(&loop->pending_queue); r++) uv__run_pending(loop) *)
Fixpoint pending_rounds (n : nat) (fdo : nat -> Z) (beh : nat -> list op) (s : state)
  : state * list event :=
  match n with
  | O => (s, [])
  | S k =>
    match pend s with
    | [] => (s, [])
    | _ => let '(s1, e1) := pending_round fdo beh s in
           let '(s2, e2) := pending_rounds k fdo beh s1 in (s2, e1 ++ e2)
    end
  end.

(* uv_run(loop, UV_RUN_NOWAIT) of a loop that is alive and has no timers / idle /
   check handles: uv__run_pending; uv__io_poll(0); up to 8 more uv__run_pending *)
Definition uv_run (fdo : nat -> Z) (pw : nat -> list (Z * mask)) (beh : nat -> list op) (s : state)
  : state * list event :=
  if aborted s then (s, [ESkip]) else
  let '(s1, e1) := pending_round fdo beh s in
  if aborted s1 then (s1, e1) else
  let '(s2, e2) := io_poll fdo pw beh s1 in
  let '(s3, e3) := pending_rounds 8 fdo beh s2 in
  (s3, e1 ++ e2 ++ e3).

Fixpoint run (fdo : nat -> Z) (pw : nat -> list (Z * mask)) (beh : nat -> list op)
         (s : state) (os : list op) : state * list event :=
  match os with
  | [] => (s, [])
  | ORun :: r =>
      let '(s1, e1) := uv_run fdo pw beh s in
      let '(s2, e2) := run fdo pw beh s1 r in (s2, e1 ++ e2)
  | o :: r =>
      let '(s1, e1) := api fdo s o in
      let '(s2, e2) := run fdo pw beh s1 r in (s2, e1 ++ e2)
  end.

(* ---- views used by the driver and by the statements ------------------------------- *)
(* what libuv is watching: (handle, descriptor, requested mask) for every registry entry *)
Definition watched (s : state) : list (nat * Z * mask) :=
  let fix go (i : nat) (l : list handle) :=
    match l with
    | [] => []
    | h :: r =>
      match reg s (h_fd h) with
      | Some j => if Nat.eqb i j then (i, h_fd h, h_pev h) :: go (S i) r else go (S i) r
      | None => go (S i) r
      end
    end in
  go O (hs s).

(* the kernel's interest set *)
Definition kernel_set (s : state) : list (Z * nat * mask) :=
  let fix go (l : list (Z * nat)) (seen : list (Z * nat)) :=
    match l with
    | [] => []
    | (fd, o) :: r =>
      if existsb (fun p => (fst p =? fd) && Nat.eqb (snd p) o) seen then go r seen else
      match ep s fd o with
      | Some m => (fd, o, m) :: go r ((fd, o) :: seen)
      | None => go r ((fd, o) :: seen)
      end
    end in
  go (pairs s) [].
