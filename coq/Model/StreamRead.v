(* Model of the read side of src/unix/stream.c (uv__read, uv__stream_eof,
   uv__stream_io, uv__read_start, uv_read_stop, uv__stream_close), of
   uv_read_start (src/uv-common.c) and of the per-descriptor part of uv__io_poll
   (src/unix/linux.c: filter by pevents, merge of a bare EPOLLERR/EPOLLHUP).

   One stream handle, opened on a connected descriptor, no writes queued.
   Everything that leaves libuv is an oracle:
     - read(2)/recvmsg(2): a list of answers consumed in order,
     - the events epoll reports for the descriptor: argument of ORun,
     - alloc_cb: [allocs k] is the buffer the k-th alloc callback returns,
     - read_cb:  [beh k] is the list of API calls the k-th read callback makes.
   [pos] is the kernel's cursor into the byte sequence the peer wrote (a stream
   socket hands bytes out in order, each once); buffers are described by the
   (offset, length) of the peer bytes the system call put into them.
   No proofs here. *)
From UV Require Import Lib.Base.

Local Open Scope Z_scope.

Definition POLLIN : Z := 1.
Definition POLLPRI : Z := 2.
Definition POLLOUT : Z := 4.
Definition POLLERR : Z := 8.
Definition POLLHUP : Z := 16.
Definition POLLRDHUP : Z := 8192.

Definition UV_EOF : Z := -4095.
Definition UV_ENOBUFS : Z := -105.
Definition UV_EINVAL : Z := -22.
Definition UV_EALREADY : Z := -114.
Definition UV_ENOTCONN : Z := -107.
Definition EAGAIN : positive := 11%positive.
Definition EINTR : positive := 4%positive.

(* answers of read()/recvmsg() *)
Inductive ans :=
| Intr                      (* -1, errno EINTR *)
| Again                     (* -1, errno EAGAIN/EWOULDBLOCK *)
| Eof                       (* 0 *)
| Err (e : positive)        (* -1, errno e *)
| Data (n : Z).             (* n bytes, 1 <= n <= length offered *)

(* what *buf holds when alloc_cb returns.  uv__read does buf = uv_buf_init(NULL, 0) before
   EVERY alloc_cb call, so an alloc_cb that refuses by not touching *buf is the same as one
   that stores NULL/0: refusal = base NULL or len 0, whatever the style *)
Record abuf := mkBuf { b_base : bool;  (* base != NULL *)  b_len : Z }.

(* API calls a read callback may make *)
Inductive cop := CStart (tok : nat) | CStop | CClose.

Record env := mkEnv { allocs : nat -> abuf; beh : nat -> list cop }.

Record st := mkSt {
  is_pipe : bool;           (* stream->type == UV_NAMED_PIPE (else UV_TCP / UV_TTY) *)
  ipc : bool;               (* uv_pipe_t with ipc = 1: recvmsg instead of read *)
  reading : bool;           (* UV_HANDLE_READING *)
  partial : bool;           (* UV_HANDLE_READ_PARTIAL *)
  eof : bool;               (* UV_HANDLE_READ_EOF *)
  readable : bool;          (* UV_HANDLE_READABLE *)
  active : bool;            (* UV_HANDLE_ACTIVE *)
  pollin : bool;            (* io_watcher.pevents & POLLIN *)
  rcb : option nat;         (* stream->read_cb / alloc_cb (set and cleared together) *)
  closing : bool;           (* UV_HANDLE_CLOSING; io_watcher.fd == -1 *)
  closed : bool;            (* UV_HANDLE_CLOSED: close_cb has run *)
  pos : Z;                  (* ghost: bytes the kernel has handed out so far *)
  oracle : list ans;        (* answers read()/recvmsg() will give *)
  nalloc : nat;             (* alloc callbacks so far *)
  ncb : nat                 (* read callbacks so far *)
}.

Definition init (pipe is_ipc : bool) (o : list ans) : st :=
  mkSt pipe is_ipc false false false true false false None false false 0 o O O.

Inductive event :=
| EPoll (raw : Z)                                   (* what epoll reported for the descriptor *)
| EAlloc (id : nat) (suggested : Z) (b : abuf)      (* alloc_cb: id-th buffer *)
| ESys (len : Z) (a : ans) (off : Z)                (* read/recvmsg offered len bytes, answer, kernel cursor *)
| ERead (tok : nat) (nread : Z) (buf : option nat) (off len : Z)
                                                    (* read_cb: which buffer, which peer bytes it holds *)
| ERet (which : nat) (code : Z)                     (* 0 uv_read_start, 1 uv_read_stop, 2 uv_close *)
| ECloseCb
| EFlags (rd act cl : bool)                         (* uv_is_readable, uv_is_active, uv_is_closing *)
| ECrash.                                           (* call through a NULL read_cb *)

(* ---- field updates ---- *)
Definition set_flags (s : st) (rdg par ef rdb act pin : bool) (cb : option nat) : st :=
  mkSt (is_pipe s) (ipc s) rdg par ef rdb act pin cb (closing s) (closed s) (pos s) (oracle s)
       (nalloc s) (ncb s).
Definition set_partial (s : st) (b : bool) : st :=
  set_flags s (reading s) b (eof s) (readable s) (active s) (pollin s) (rcb s).
Definition set_readable (s : st) (b : bool) : st :=
  set_flags s (reading s) (partial s) (eof s) b (active s) (pollin s) (rcb s).
Definition set_closing (s : st) : st :=
  mkSt (is_pipe s) (ipc s) (reading s) (partial s) (eof s) (readable s) (active s) (pollin s) (rcb s)
       true (closed s) (pos s) (oracle s) (nalloc s) (ncb s).
Definition set_closed (s : st) : st :=
  mkSt (is_pipe s) (ipc s) (reading s) (partial s) (eof s) (readable s) (active s) (pollin s) (rcb s)
       (closing s) true (pos s) (oracle s) (nalloc s) (ncb s).
Definition set_kernel (s : st) (p : Z) (o : list ans) : st :=
  mkSt (is_pipe s) (ipc s) (reading s) (partial s) (eof s) (readable s) (active s) (pollin s) (rcb s)
       (closing s) (closed s) p o (nalloc s) (ncb s).
Definition bump_alloc (s : st) : st :=
  mkSt (is_pipe s) (ipc s) (reading s) (partial s) (eof s) (readable s) (active s) (pollin s) (rcb s)
       (closing s) (closed s) (pos s) (oracle s) (S (nalloc s)) (ncb s).
Definition bump_cb (s : st) : st :=
  mkSt (is_pipe s) (ipc s) (reading s) (partial s) (eof s) (readable s) (active s) (pollin s) (rcb s)
       (closing s) (closed s) (pos s) (oracle s) (nalloc s) (S (ncb s)).

(* READING off: flags &= ~READING; uv__io_stop(POLLIN); uv__handle_stop *)
Definition stop_reading (s : st) : st :=
  set_flags s false (partial s) (eof s) (readable s) false false (rcb s).

(* ---- the API ---- *)

(* uv_read_start (uv-common.c) + uv__read_start *)
Definition read_start (s : st) (tok : nat) : st * Z :=
  if closing s then (s, UV_EINVAL)
  else if reading s then (s, UV_EALREADY)
  else if negb (readable s) then (s, UV_ENOTCONN)
  else (set_flags s true (partial s) false (readable s) true true (Some tok), 0).

(* uv_read_stop *)
Definition read_stop (s : st) : st :=
  if negb (reading s) then s
  else set_flags s false (partial s) (eof s) (readable s) false false None.

(* uv_close -> uv__stream_close: uv__io_close, uv_read_stop, uv__handle_stop,
   flags &= ~(READABLE|WRITABLE), close(fd), fd = -1.  Calling it twice is a
   failed assertion; the harness does not do it and the model ignores it. *)
Definition stream_close (s : st) : st :=
  if closing s then s
  else
    let s1 := set_closing s in
    let s2 := set_flags s1 (reading s1) (partial s1) (eof s1) (readable s1) (active s1) false (rcb s1) in
    let s3 := read_stop s2 in
    set_flags s3 (reading s3) (partial s3) (eof s3) false false (pollin s3) (rcb s3).

Definition cop_run (s : st) (c : cop) : st * list event :=
  match c with
  | CStart tok => let '(s', r) := read_start s tok in (s', [ERet 0 r])
  | CStop => (read_stop s, [ERet 1 0])
  | CClose => if closing s then (s, []) else (stream_close s, [ERet 2 0])
  end.

Fixpoint cops (s : st) (l : list cop) : st * list event :=
  match l with
  | [] => (s, [])
  | c :: l' => let '(s1, e1) := cop_run s c in
               let '(s2, e2) := cops s1 l' in (s2, e1 ++ e2)
  end.

(* stream->read_cb(stream, nread, buf): the k-th read callback runs [beh k] *)
Definition call_read_cb (E : env) (s : st) (nread : Z) (buf : option nat) (off len : Z)
  : st * list event :=
  match rcb s with
  | None => (s, [ECrash])
  | Some tok =>
      let k := ncb s in
      let '(s1, evs) := cops (bump_cb s) (beh E k) in
      (s1, ERead tok nread buf off len :: evs)
  end.

(* uv__stream_eof *)
Definition stream_eof (E : env) (s : st) (buf : option nat) : st * list event :=
  let s1 := set_flags s false (partial s) true (readable s) false false (rcb s) in
  call_read_cb E s1 UV_EOF buf 0 0.

(* do nread = read(...) while (nread < 0 && errno == EINTR) *)
Fixpoint sys_read (o : list ans) : ans * list ans :=
  match o with
  | [] => (Again, [])
  | Intr :: o' => sys_read o'
  | Err e :: o' => if Pos.eqb e EINTR then sys_read o'
                   else if Pos.eqb e EAGAIN then (Again, o') else (Err e, o')
  | a :: o' => (a, o')
  end.

Definition refuses (b : abuf) : bool := negb (b_base b) || (b_len b <=? 0).

(* one iteration of the while loop of uv__read (the loop condition held);
   the boolean says whether the loop goes on (false = return) *)
Definition read_iter (E : env) (s : st) : st * list event * bool :=
  let id := nalloc s in
  let b := allocs E id in     (* buf = uv_buf_init(NULL, 0); alloc_cb(handle, 64 * 1024, &buf) *)
  let ea := EAlloc id 65536 b in
  let s1 := bump_alloc s in
  if refuses b then
    (* User indicates it can't or won't handle the read. *)
    let '(s2, evs) := call_read_cb E s1 UV_ENOBUFS (Some id) 0 0 in
    (s2, ea :: evs, false)
  else
    let '(a, o') := sys_read (oracle s1) in
    match a with
    | Intr | Again =>
        let s2 := set_kernel s1 (pos s1) o' in
        (* if (flags & READING) uv__io_start(POLLIN) *)
        let s3 := if reading s2
                  then set_flags s2 (reading s2) (partial s2) (eof s2) (readable s2)
                                 (active s2) true (rcb s2)
                  else s2 in
        let '(s4, evs) := call_read_cb E s3 0 (Some id) 0 0 in
        (s4, ea :: ESys (b_len b) Again (pos s1) :: evs, false)
    | Err e =>
        (* flags &= ~(READABLE|WRITABLE); read_cb(err); if (READING) stop *)
        let s2 := set_readable (set_kernel s1 (pos s1) o') false in
        let '(s3, evs) := call_read_cb E s2 (Zneg e) (Some id) 0 0 in
        let s4 := if reading s3 then stop_reading s3 else s3 in
        (s4, ea :: ESys (b_len b) (Err e) (pos s1) :: evs, false)
    | Eof =>
        let s2 := set_kernel s1 (pos s1) o' in
        let '(s3, evs) := stream_eof E s2 (Some id) in
        (s3, ea :: ESys (b_len b) Eof (pos s1) :: evs, false)
    | Data n =>
        let nread := Z.max 1 (Z.min n (b_len b)) in
        let s2 := set_kernel s1 (pos s1 + nread) o' in
        let '(s3, evs) := call_read_cb E s2 nread (Some id) (pos s1) nread in
        (* Return if we didn't fill the buffer, there is no more data to read.
           READ_PARTIAL only if (stream->type != UV_NAMED_PIPE): on a UNIX domain
           socket a short read proves nothing (commit 34f0ffa) *)
        if nread <? b_len b
        then ((if is_pipe s3 then s3 else set_partial s3 true),
              ea :: ESys (b_len b) (Data nread) (pos s1) :: evs, false)
        else (s3, ea :: ESys (b_len b) (Data nread) (pos s1) :: evs, true)
    end.

(* while (stream->read_cb && (flags & READING) && count-- > 0) *)
Definition loop_cond (s : st) : bool :=
  match rcb s with Some _ => reading s | None => false end.

Fixpoint read_loop (E : env) (count : nat) (s : st) : st * list event :=
  match count with
  | O => (s, [])
  | S c =>
    if negb (loop_cond s) then (s, [])
    else
      let '(s1, e1, go) := read_iter E s in
      if go then let '(s2, e2) := read_loop E c s1 in (s2, e1 ++ e2)
      else (s1, e1)
  end.

(* uv__read *)
Definition uv_read (E : env) (s : st) : st * list event :=
  read_loop E 32 (set_partial s false).

Definition has (events bit : Z) : bool := negb (Z.land events bit =? 0).

(* uv__stream_io (connect_req == NULL; the write half - uv__write,
   uv__write_callbacks, uv__drain on POLLOUT|POLLERR|POLLHUP - touches no read-side
   state and is not modelled; write callbacks are assumed not to call the read API) *)
Definition stream_io (E : env) (s : st) (events : Z) : st * list event :=
  let '(s1, e1) :=
    if has events (Z.lor POLLIN (Z.lor POLLERR POLLHUP)) then uv_read E s else (s, []) in
  if closing s1 then (s1, e1)          (* fd == -1: read_cb closed stream *)
  else if has events POLLHUP && reading s1 && partial s1 && negb (eof s1) then
    let '(s2, e2) := stream_eof E s1 None in (s2, e1 ++ e2)
  else (s1, e1).

(* uv__io_poll, for the one epoll_event of our descriptor.  [wout]: POLLOUT is
   requested at that moment (a uv_write is waiting for the socket; the write side
   is C05's and abstract here), so the handle can be polled - and uv__stream_io
   entered - while READING is clear.  uv__io_close clears every request. *)
Definition io_poll (E : env) (s : st) (raw : Z) (wout : bool) : st * list event :=
  if raw =? 0 then (s, [])                       (* nothing reported *)
  else
    let pevents := if closing s then 0
                   else Z.lor (if pollin s then POLLIN else 0) (if wout then POLLOUT else 0) in
    if pevents =? 0 then (s, [])                 (* loop->watchers[fd] == NULL: EPOLL_CTL_DEL *)
    else
      let pe := Z.land raw (Z.lor pevents (Z.lor POLLERR POLLHUP)) in
      let pe := if (pe =? POLLERR) || (pe =? POLLHUP)
                then Z.lor pe (Z.land pevents (Z.lor POLLIN (Z.lor POLLOUT (Z.lor POLLRDHUP POLLPRI))))
                else pe in
      if pe =? 0 then (s, []) else stream_io E s pe.

(* one uv_run(UV_RUN_NOWAIT) iteration: poll phase, then closing handles *)
Definition run_once (E : env) (s : st) (raw : Z) (wout : bool) : st * list event :=
  let '(s1, e1) := io_poll E s raw wout in
  if closing s1 && negb (closed s1)
  then (set_closed s1, EPoll raw :: e1 ++ [ECloseCb])
  else (s1, EPoll raw :: e1).

(* uv__stream_io entered directly with [ev] (uv__run_pending after uv__io_feed passes
   POLLOUT; the theorems allow any mask in any state).  Never on a closing handle:
   uv__io_close takes the watcher off the pending queue. *)
Definition io_event (E : env) (s : st) (ev : Z) : st * list event :=
  if closing s then (s, [EPoll ev])
  else let '(s1, e1) := stream_io E s ev in (s1, EPoll ev :: e1).

(* OWrite: a uv_write / uv_try_write from our side, whatever its outcome (accepted, queued,
   EPIPE, ECONNRESET ...): uv__write and its error path touch POLLOUT and the write queue
   only - nothing the read side looks at changes *)
Inductive op := OStart (tok : nat) | OStop | OClose | ORun (raw : Z) (wout : bool) | OIo (ev : Z)
              | OWrite.

Definition flags_ev (s : st) : event := EFlags (readable s) (active s) (closing s).

Definition op_run (E : env) (s : st) (o : op) : st * list event :=
  match o with
  | OStart tok => cop_run s (CStart tok)
  | OStop => cop_run s CStop
  | OClose => cop_run s CClose
  | ORun raw wout => run_once E s raw wout
  | OIo ev => io_event E s ev
  | OWrite => (s, [])
  end.

Fixpoint exec (E : env) (s : st) (os : list op) : st * list event :=
  match os with
  | [] => (s, [])
  | o :: os' =>
      let '(s1, e1) := op_run E s o in
      let '(s2, e2) := exec E s1 os' in
      (s2, e1 ++ flags_ev s1 :: e2)
  end.
