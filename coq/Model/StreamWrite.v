(* Model of the write side of src/unix/stream.c (C05):
     uv__stream_flush_write_queue 440-452, uv__stream_destroy 455-470 (write part),
     uv__drain 626-659, uv__writev 662-667, uv__write_req_size 670-679,
     uv__write_req_update 688-711, uv__write_req_finish 714-737,
     uv__try_write 754-838 (send_handle == NULL branch), uv__write 840-898,
     uv__write_callbacks 901-929, uv_shutdown 1160-1186,
     uv__stream_io 1189-1238 (write part), uv__check_before_write 1295-1331,
     uv_write2/uv_write 1333-1411, uv_try_write(2) 1414-1436,
     uv__stream_close 1507-1559 (watcher/flag part),
   and of the pieces of src/unix/core.c one stream needs: uv__io_feed,
   uv__io_start/stop(POLLOUT), uv__io_close, uv__run_pending, one iteration of
   uv_run(UV_RUN_NOWAIT), uv_close/uv__finish_close for a stream.

   Also the connecting phase: uv_write2/uv_try_write2 with connect_req set,
   uv__stream_connect 1246-1300 (delayed_error / SO_ERROR, EINPROGRESS return, the
   POLLOUT decision, connect callback, flush with UV_ECANCELED on failure), the
   connect_req part of uv__stream_destroy, and the tails of uv__tcp_connect /
   uv_pipe_connect2 that define the start state ([init] with [Some ...]).

   One stream.  Payload bytes are abstract: byte [i] of request [id] is the
   pair (id, i); a buffer is its length.  The OS is an oracle: a list of
   answers consumed by write(2)/writev(2) in order (exhausted = the kernel
   accepts everything offered).  A callback's behaviour is a script: the k-th
   callback (write or shutdown) executes the operation list [beh k].
   The trace is kept in the state (newest event first).
   A write request may carry a send_handle (uv_write2 on an IPC pipe; one handle to
   send, which can be closed): uv__check_before_write's send_handle part, the
   uv__is_closing(send_handle) test and the SCM_RIGHTS decision of uv__try_write, and
   the `req->send_handle = NULL` of uv__write after the first accepted sendmsg.
   Not here: the connect(2) call itself and listening/accepting (C07), what the
   receiving side does with a descriptor (C07), uv_try_write2's handle (C07),
   uv_write2's ENOMEM (C16). *)
From UV Require Import Lib.Base.

Local Open Scope N_scope.

Definition IOV_MAX : nat := 1024.
Definition UV_EAGAIN : Z := (-11)%Z.
Definition UV_EPIPE : Z := (-32)%Z.
Definition UV_EBADF : Z := (-9)%Z.
Definition UV_ENOTCONN : Z := (-107)%Z.
Definition UV_ECANCELED : Z := (-125)%Z.

(* what one write(2)/writev(2) call returned: n >= 0, or -1 with errno e *)
Inductive answer := AWrote (n : N) | AErr (e : positive).

Record req := mkReq {
  r_id : nat;           (* identity: position in call order (ghost) *)
  r_total : N;          (* bytes passed to uv_write (ghost) *)
  r_bufs : list N;      (* req->bufs[i].len, mutated by uv__write_req_update *)
  r_widx : nat;         (* req->write_index *)
  r_off : N;            (* bytes the OS accepted so far (ghost) *)
  r_err : Z;            (* req->error *)
  r_freed : bool;       (* req->bufs == NULL *)
  r_sh : bool           (* req->send_handle != NULL *)
}.

Inductive event :=
| EWrite (id : nat) (total : N)           (* uv_write called *)
| ERet (id : nat) (code : Z)              (* ... and returned *)
| ETry (id : nat) (total : N)             (* uv_try_write called *)
| ETryRet (id : nat) (code : Z)
| EChunk (id : nat) (off len : N)         (* the OS accepted bytes [off, off+len) of request id *)
| ECb (id : nat) (status : Z) (qsz : N)   (* write_cb; qsz = write_queue_size seen inside *)
| EShut (code : Z)                        (* uv_shutdown returned *)
| ESysShut (ans : Z)                      (* shutdown(2) was called and returned ans (0 / -errno) *)
| EShutCb (status : Z)
| ECloseCb
| EQ (qsz : N)
| EConnCb (status : Z)                    (* connect_cb *)
| EWrite2 (id : nat)                       (* the uv_write call just traced was uv_write2 with a send_handle *)
| EFd (id : nat)                           (* the sendmsg that accepted the next chunk carried SCM_RIGHTS *)
| EFdFail (id : nat)
| EConnect (code : Z)                     (* uv_tcp_connect / uv_pipe_connect called again on the handle, and what it returned *)
| EReopen                                 (* that call set UV_HANDLE_WRITABLE on a stream where it was clear (ghost) *)
| EOrphan (ids : list nat)                (* that connect was started while these finished requests awaited their
                                             callback in write_completed_queue (ghost) *)
| EReset (code : Z).                      (* uv_tcp_close_reset called, and what it returned *)
(* EFdFail: a sendmsg carrying SCM_RIGHTS failed (EAGAIN or error);
   EQ: uv_stream_get_write_queue_size after a top-level step *)

Record st := mkSt {
  wq : list req;        (* stream->write_queue *)
  cq : list req;        (* stream->write_completed_queue *)
  pq : list req;        (* the local queue [pq] of a uv__write_callbacks in progress *)
  wqs : N;              (* stream->write_queue_size *)
  shutreq : bool;       (* stream->shutdown_req != NULL *)
  writable : bool;      (* UV_HANDLE_WRITABLE *)
  shut : bool;          (* UV_HANDLE_SHUT *)
  closing : bool;       (* UV_HANDLE_CLOSING *)
  closed : bool;        (* UV_HANDLE_CLOSED *)
  blocking : bool;      (* UV_HANDLE_BLOCKING_WRITES *)
  fdopen : bool;        (* io_watcher.fd >= 0 *)
  armed : bool;         (* POLLOUT in io_watcher.pevents *)
  fed : bool;           (* io_watcher in loop->pending_queue *)
  oracle : list answer; (* answers of write/writev still to come *)
  shutans : Z;          (* what shutdown(2) will answer: 0 or -errno *)
  pollw : list bool;    (* per loop iteration: does the kernel report the fd writable *)
  next_id : nat;
  cbn : nat;            (* callbacks run so far *)
  tr : list event;      (* newest first *)
  connecting : bool;    (* stream->connect_req != NULL and its callback has not been started *)
  derr : Z;             (* stream->delayed_error (0 or -errno) *)
  sockerr : list Z;     (* answers of getsockopt(SO_ERROR) still to come (errno values, 115 = EINPROGRESS) *)
  ipc : bool;           (* the ipc field of the uv_pipe_t *)
  sh_open : bool;       (* the handle offered to uv_write2: its fd >= 0 and it is not closing *)
  connected : bool;     (* the kernel has the socket connected (what connect(2)/shutdown(2) can answer depends on it) *)
  is_tcp : bool;        (* uv_tcp_t (else uv_pipe_t): which connect function a retry goes through *)
  readable : bool;      (* UV_HANDLE_READABLE (only read by uv_pipe_connect2's "not opened yet" test) *)
  connres : list (option positive);  (* results of the connect(2) calls of later uv_*_connect calls (None = 0/EINPROGRESS) *)
  cancelling : bool     (* inside the UV_ECANCELED callback of a connect request: connect_req is still set *)
}.

Definition set_wq v s := mkSt v (cq s) (pq s) (wqs s) (shutreq s) (writable s) (shut s) (closing s) (closed s) (blocking s) (fdopen s) (armed s) (fed s) (oracle s) (shutans s) (pollw s) (next_id s) (cbn s) (tr s) (connecting s) (derr s) (sockerr s) (ipc s) (sh_open s) (connected s) (is_tcp s) (readable s) (connres s) (cancelling s).
Definition set_cq v s := mkSt (wq s) v (pq s) (wqs s) (shutreq s) (writable s) (shut s) (closing s) (closed s) (blocking s) (fdopen s) (armed s) (fed s) (oracle s) (shutans s) (pollw s) (next_id s) (cbn s) (tr s) (connecting s) (derr s) (sockerr s) (ipc s) (sh_open s) (connected s) (is_tcp s) (readable s) (connres s) (cancelling s).
Definition set_pq v s := mkSt (wq s) (cq s) v (wqs s) (shutreq s) (writable s) (shut s) (closing s) (closed s) (blocking s) (fdopen s) (armed s) (fed s) (oracle s) (shutans s) (pollw s) (next_id s) (cbn s) (tr s) (connecting s) (derr s) (sockerr s) (ipc s) (sh_open s) (connected s) (is_tcp s) (readable s) (connres s) (cancelling s).
Definition set_wqs v s := mkSt (wq s) (cq s) (pq s) v (shutreq s) (writable s) (shut s) (closing s) (closed s) (blocking s) (fdopen s) (armed s) (fed s) (oracle s) (shutans s) (pollw s) (next_id s) (cbn s) (tr s) (connecting s) (derr s) (sockerr s) (ipc s) (sh_open s) (connected s) (is_tcp s) (readable s) (connres s) (cancelling s).
Definition set_shutreq v s := mkSt (wq s) (cq s) (pq s) (wqs s) v (writable s) (shut s) (closing s) (closed s) (blocking s) (fdopen s) (armed s) (fed s) (oracle s) (shutans s) (pollw s) (next_id s) (cbn s) (tr s) (connecting s) (derr s) (sockerr s) (ipc s) (sh_open s) (connected s) (is_tcp s) (readable s) (connres s) (cancelling s).
Definition set_writable v s := mkSt (wq s) (cq s) (pq s) (wqs s) (shutreq s) v (shut s) (closing s) (closed s) (blocking s) (fdopen s) (armed s) (fed s) (oracle s) (shutans s) (pollw s) (next_id s) (cbn s) (tr s) (connecting s) (derr s) (sockerr s) (ipc s) (sh_open s) (connected s) (is_tcp s) (readable s) (connres s) (cancelling s).
Definition set_shut v s := mkSt (wq s) (cq s) (pq s) (wqs s) (shutreq s) (writable s) v (closing s) (closed s) (blocking s) (fdopen s) (armed s) (fed s) (oracle s) (shutans s) (pollw s) (next_id s) (cbn s) (tr s) (connecting s) (derr s) (sockerr s) (ipc s) (sh_open s) (connected s) (is_tcp s) (readable s) (connres s) (cancelling s).
Definition set_closing v s := mkSt (wq s) (cq s) (pq s) (wqs s) (shutreq s) (writable s) (shut s) v (closed s) (blocking s) (fdopen s) (armed s) (fed s) (oracle s) (shutans s) (pollw s) (next_id s) (cbn s) (tr s) (connecting s) (derr s) (sockerr s) (ipc s) (sh_open s) (connected s) (is_tcp s) (readable s) (connres s) (cancelling s).
Definition set_closed v s := mkSt (wq s) (cq s) (pq s) (wqs s) (shutreq s) (writable s) (shut s) (closing s) v (blocking s) (fdopen s) (armed s) (fed s) (oracle s) (shutans s) (pollw s) (next_id s) (cbn s) (tr s) (connecting s) (derr s) (sockerr s) (ipc s) (sh_open s) (connected s) (is_tcp s) (readable s) (connres s) (cancelling s).
Definition set_blocking v s := mkSt (wq s) (cq s) (pq s) (wqs s) (shutreq s) (writable s) (shut s) (closing s) (closed s) v (fdopen s) (armed s) (fed s) (oracle s) (shutans s) (pollw s) (next_id s) (cbn s) (tr s) (connecting s) (derr s) (sockerr s) (ipc s) (sh_open s) (connected s) (is_tcp s) (readable s) (connres s) (cancelling s).
Definition set_fdopen v s := mkSt (wq s) (cq s) (pq s) (wqs s) (shutreq s) (writable s) (shut s) (closing s) (closed s) (blocking s) v (armed s) (fed s) (oracle s) (shutans s) (pollw s) (next_id s) (cbn s) (tr s) (connecting s) (derr s) (sockerr s) (ipc s) (sh_open s) (connected s) (is_tcp s) (readable s) (connres s) (cancelling s).
Definition set_armed v s := mkSt (wq s) (cq s) (pq s) (wqs s) (shutreq s) (writable s) (shut s) (closing s) (closed s) (blocking s) (fdopen s) v (fed s) (oracle s) (shutans s) (pollw s) (next_id s) (cbn s) (tr s) (connecting s) (derr s) (sockerr s) (ipc s) (sh_open s) (connected s) (is_tcp s) (readable s) (connres s) (cancelling s).
Definition set_fed v s := mkSt (wq s) (cq s) (pq s) (wqs s) (shutreq s) (writable s) (shut s) (closing s) (closed s) (blocking s) (fdopen s) (armed s) v (oracle s) (shutans s) (pollw s) (next_id s) (cbn s) (tr s) (connecting s) (derr s) (sockerr s) (ipc s) (sh_open s) (connected s) (is_tcp s) (readable s) (connres s) (cancelling s).
Definition set_oracle v s := mkSt (wq s) (cq s) (pq s) (wqs s) (shutreq s) (writable s) (shut s) (closing s) (closed s) (blocking s) (fdopen s) (armed s) (fed s) v (shutans s) (pollw s) (next_id s) (cbn s) (tr s) (connecting s) (derr s) (sockerr s) (ipc s) (sh_open s) (connected s) (is_tcp s) (readable s) (connres s) (cancelling s).
Definition set_shutans v s := mkSt (wq s) (cq s) (pq s) (wqs s) (shutreq s) (writable s) (shut s) (closing s) (closed s) (blocking s) (fdopen s) (armed s) (fed s) (oracle s) v (pollw s) (next_id s) (cbn s) (tr s) (connecting s) (derr s) (sockerr s) (ipc s) (sh_open s) (connected s) (is_tcp s) (readable s) (connres s) (cancelling s).
Definition set_pollw v s := mkSt (wq s) (cq s) (pq s) (wqs s) (shutreq s) (writable s) (shut s) (closing s) (closed s) (blocking s) (fdopen s) (armed s) (fed s) (oracle s) (shutans s) v (next_id s) (cbn s) (tr s) (connecting s) (derr s) (sockerr s) (ipc s) (sh_open s) (connected s) (is_tcp s) (readable s) (connres s) (cancelling s).
Definition set_next_id v s := mkSt (wq s) (cq s) (pq s) (wqs s) (shutreq s) (writable s) (shut s) (closing s) (closed s) (blocking s) (fdopen s) (armed s) (fed s) (oracle s) (shutans s) (pollw s) v (cbn s) (tr s) (connecting s) (derr s) (sockerr s) (ipc s) (sh_open s) (connected s) (is_tcp s) (readable s) (connres s) (cancelling s).
Definition set_cbn v s := mkSt (wq s) (cq s) (pq s) (wqs s) (shutreq s) (writable s) (shut s) (closing s) (closed s) (blocking s) (fdopen s) (armed s) (fed s) (oracle s) (shutans s) (pollw s) (next_id s) v (tr s) (connecting s) (derr s) (sockerr s) (ipc s) (sh_open s) (connected s) (is_tcp s) (readable s) (connres s) (cancelling s).
Definition set_connecting v s := mkSt (wq s) (cq s) (pq s) (wqs s) (shutreq s) (writable s) (shut s) (closing s) (closed s) (blocking s) (fdopen s) (armed s) (fed s) (oracle s) (shutans s) (pollw s) (next_id s) (cbn s) (tr s) v (derr s) (sockerr s) (ipc s) (sh_open s) (connected s) (is_tcp s) (readable s) (connres s) (cancelling s).
Definition set_derr v s := mkSt (wq s) (cq s) (pq s) (wqs s) (shutreq s) (writable s) (shut s) (closing s) (closed s) (blocking s) (fdopen s) (armed s) (fed s) (oracle s) (shutans s) (pollw s) (next_id s) (cbn s) (tr s) (connecting s) v (sockerr s) (ipc s) (sh_open s) (connected s) (is_tcp s) (readable s) (connres s) (cancelling s).
Definition set_sockerr v s := mkSt (wq s) (cq s) (pq s) (wqs s) (shutreq s) (writable s) (shut s) (closing s) (closed s) (blocking s) (fdopen s) (armed s) (fed s) (oracle s) (shutans s) (pollw s) (next_id s) (cbn s) (tr s) (connecting s) (derr s) v (ipc s) (sh_open s) (connected s) (is_tcp s) (readable s) (connres s) (cancelling s).
Definition set_ipc v s := mkSt (wq s) (cq s) (pq s) (wqs s) (shutreq s) (writable s) (shut s) (closing s) (closed s) (blocking s) (fdopen s) (armed s) (fed s) (oracle s) (shutans s) (pollw s) (next_id s) (cbn s) (tr s) (connecting s) (derr s) (sockerr s) v (sh_open s) (connected s) (is_tcp s) (readable s) (connres s) (cancelling s).
Definition set_sh_open v s := mkSt (wq s) (cq s) (pq s) (wqs s) (shutreq s) (writable s) (shut s) (closing s) (closed s) (blocking s) (fdopen s) (armed s) (fed s) (oracle s) (shutans s) (pollw s) (next_id s) (cbn s) (tr s) (connecting s) (derr s) (sockerr s) (ipc s) v (connected s) (is_tcp s) (readable s) (connres s) (cancelling s).
Definition set_connected v s := mkSt (wq s) (cq s) (pq s) (wqs s) (shutreq s) (writable s) (shut s) (closing s) (closed s) (blocking s) (fdopen s) (armed s) (fed s) (oracle s) (shutans s) (pollw s) (next_id s) (cbn s) (tr s) (connecting s) (derr s) (sockerr s) (ipc s) (sh_open s) v (is_tcp s) (readable s) (connres s) (cancelling s).
Definition set_is_tcp v s := mkSt (wq s) (cq s) (pq s) (wqs s) (shutreq s) (writable s) (shut s) (closing s) (closed s) (blocking s) (fdopen s) (armed s) (fed s) (oracle s) (shutans s) (pollw s) (next_id s) (cbn s) (tr s) (connecting s) (derr s) (sockerr s) (ipc s) (sh_open s) (connected s) v (readable s) (connres s) (cancelling s).
Definition set_readable v s := mkSt (wq s) (cq s) (pq s) (wqs s) (shutreq s) (writable s) (shut s) (closing s) (closed s) (blocking s) (fdopen s) (armed s) (fed s) (oracle s) (shutans s) (pollw s) (next_id s) (cbn s) (tr s) (connecting s) (derr s) (sockerr s) (ipc s) (sh_open s) (connected s) (is_tcp s) v (connres s) (cancelling s).
Definition set_connres v s := mkSt (wq s) (cq s) (pq s) (wqs s) (shutreq s) (writable s) (shut s) (closing s) (closed s) (blocking s) (fdopen s) (armed s) (fed s) (oracle s) (shutans s) (pollw s) (next_id s) (cbn s) (tr s) (connecting s) (derr s) (sockerr s) (ipc s) (sh_open s) (connected s) (is_tcp s) (readable s) v (cancelling s).
Definition set_cancelling v s := mkSt (wq s) (cq s) (pq s) (wqs s) (shutreq s) (writable s) (shut s) (closing s) (closed s) (blocking s) (fdopen s) (armed s) (fed s) (oracle s) (shutans s) (pollw s) (next_id s) (cbn s) (tr s) (connecting s) (derr s) (sockerr s) (ipc s) (sh_open s) (connected s) (is_tcp s) (readable s) (connres s) v.
Definition ev (e : event) s := mkSt (wq s) (cq s) (pq s) (wqs s) (shutreq s) (writable s) (shut s) (closing s) (closed s) (blocking s) (fdopen s) (armed s) (fed s) (oracle s) (shutans s) (pollw s) (next_id s) (cbn s) (e :: tr s) (connecting s) (derr s) (sockerr s) (ipc s) (sh_open s) (connected s) (is_tcp s) (readable s) (connres s) (cancelling s).

(* How the stream came to be.  [None]: opened connected with uv_pipe_open /
   uv_tcp_open on a read-write descriptor.  [Some (tcp, cres, so)]: right after
   uv_tcp_connect (tcp = true) / uv_pipe_connect (tcp = false) on a fresh handle,
   where connect(2) returned 0 ([cres = None]) or failed with errno e ([Some e]) and [so] are the answers
   getsockopt(SO_ERROR) will give.
   uv__tcp_connect: flags READABLE|WRITABLE set by maybe_new_socket; EINPROGRESS is
   no error, ECONNREFUSED becomes delayed_error; connect_req set; POLLOUT started;
   uv__io_feed when delayed_error.  (Other errnos make uv_tcp_connect fail: no
   connect pending - not a start state.)
   uv_pipe_connect2: on r == -1 && errno != EINPROGRESS: delayed_error = -errno, the
   flags are not set, POLLOUT not started, uv__io_feed; else uv__stream_open sets
   READABLE|WRITABLE and POLLOUT is started. *)
Definition conn_cfg := option (bool * option positive * list Z * list (option positive)).

Definition EINPROGRESS : Z := 115%Z.

(* connect(2) returned 0 or failed with EINPROGRESS: no delayed error *)
Definition conn_pending_ok (cres : option positive) : bool :=
  match cres with None => true | Some e => Pos.eqb e 115 end.
Definition conn_derr (cres : option positive) : Z :=
  match cres with None => 0%Z | Some e => Zneg e end.

(* [Some (tcp, cres, so, cr)]: first connect(2) result, SO_ERROR answers of all connects,
   connect(2) results of the later uv_*_connect calls on the handle *)
Definition init (blk : bool) (o : list answer) (sa : Z) (pw : list bool) (c : conn_cfg) (ip : bool) : st :=
  match c with
  | None => mkSt [] [] [] 0 false true false false false blk true false false o sa pw O O [] false 0%Z [] ip true
                 true false true [] false
  | Some (tcp, cres, so, cr) =>
      if conn_pending_ok cres then
        mkSt [] [] [] 0 false true false false false blk true true false o sa pw O O [] true 0%Z so ip true
             false tcp true cr false
      else if tcp then    (* ECONNREFUSED: delayed_error, POLLOUT started, watcher fed *)
        mkSt [] [] [] 0 false true false false false blk true true true o sa pw O O [] true (conn_derr cres) so ip true
             false tcp true cr false
      else                (* pipe: flags not set, POLLOUT not started, watcher fed *)
        mkSt [] [] [] 0 false false false false false blk true false true o sa pw O O [] true (conn_derr cres) so ip true
             false tcp false cr false
  end.

Fixpoint sumN (l : list N) : N :=
  match l with [] => 0 | x :: t => x + sumN t end.

(* uv__write_req_size: uv__count_bufs(bufs + write_index, nbufs - write_index) *)
Definition req_size (r : req) : N := sumN (skipn (r_widx r) (r_bufs r)).

(* The do { ... } while (n > 0) of uv__write_req_update on the buffers from
   write_index on: returns the updated lengths and how far [buf] advanced. *)
Fixpoint upd_loop (bufs : list N) (n : N) : list N * nat :=
  match bufs with
  | [] => ([], O)                 (* past the end: not reached when n <= offered *)
  | b :: rest =>
      let len := N.min n b in     (* len = n < buf->len ? n : buf->len *)
      let b' := b - len in        (* buf->len -= len *)
      let n' := n - len in        (* n -= len *)
      if b' =? 0 then             (* buf += (buf->len == 0) *)
        if 0 <? n' then           (* while (n > 0) *)
          let '(rest', k) := upd_loop rest n' in (b' :: rest', S k)
        else (b' :: rest, 1%nat)
      else (b' :: rest, O)        (* n' = 0 here *)
  end.

(* uv__write_req_update without the write_queue_size part *)
Definition req_update (r : req) (n : N) : req :=
  let '(tl, k) := upd_loop (skipn (r_widx r) (r_bufs r)) n in
  mkReq (r_id r) (r_total r) (firstn (r_widx r) (r_bufs r) ++ tl)
        (r_widx r + k)%nat (r_off r + n) (r_err r) (r_freed r)
        false.     (* req->send_handle = NULL, which uv__write does right before the call *)

Definition req_done (r : req) : bool := Nat.eqb (r_widx r) (length (r_bufs r)).

Definition set_err (e : Z) (r : req) : req :=
  mkReq (r_id r) (r_total r) (r_bufs r) (r_widx r) (r_off r) e (r_freed r) (r_sh r).
Definition set_freed (b : bool) (r : req) : req :=
  mkReq (r_id r) (r_total r) (r_bufs r) (r_widx r) (r_off r) (r_err r) b (r_sh r).
Definition clear_sh (r : req) : req :=
  mkReq (r_id r) (r_total r) (r_bufs r) (r_widx r) (r_off r) (r_err r) (r_freed r) false.

(* The system-call part of uv__try_write: do n = writev(...) while (n == -1 &&
   errno == EINTR); then EAGAIN/EWOULDBLOCK(11)/ENOBUFS(105) -> UV_EAGAIN,
   any other errno e -> -e.  [offered] = bytes in the (capped) iovec. *)
Inductive wres := WN (n : N) | WAgain | WErr (code : Z).

(* One write/writev/sendmsg transfers at most MAX_RW_COUNT = INT_MAX & PAGE_MASK bytes on
   Linux (rw_verify_area / import_iovec), so an answer is 0 <= n <= min(offered, MAX_RW_COUNT);
   this is also why the `int` return type of uv__try_write and uv_try_write loses nothing. *)
Definition MAX_RW_COUNT : N := 2147479552.

Fixpoint sys_write (o : list answer) (offered : N) : wres * list answer :=
  match o with
  | [] => (WN (N.min offered MAX_RW_COUNT), [])
  | AWrote n :: o' => (WN (N.min (N.min n offered) MAX_RW_COUNT), o')
  | AErr e :: o' =>
      if Pos.eqb e 4 then sys_write o' offered
      else if Pos.eqb e 11 || Pos.eqb e 105 then (WAgain, o')
      else (WErr (Zneg e), o')
  end.

(* iovcnt = nbufs; if (iovcnt > iovmax) iovcnt = iovmax *)
Definition offered (bufs : list N) : N := sumN (firstn IOV_MAX bufs).

(* uv__write_req_finish for the head [r] of the write queue (already updated) *)
Definition finish_head (r : req) (rest : list req) (s : st) : st :=
  let r' := if Z.eqb (r_err r) 0 then set_freed true r else r in
  set_fed true (set_cq (cq s ++ [r']) (set_wq rest s)).

(* uv__write; [count] is the starvation budget *)
Fixpoint write_loop (fuel count : nat) (s : st) : st :=
  match fuel with
  | O => set_armed true s          (* not reached, see write_fuel *)
  | S f =>
    match wq s with
    | [] => s
    | r :: rest =>
      if r_sh r && negb (sh_open s) then
        (* uv__try_write: if (uv__is_closing(send_handle)) return UV_EBADF;  -> goto error *)
        set_armed false (finish_head (set_err UV_EBADF r) rest s)
      else
      let '(res, o') := sys_write (oracle s) (offered (skipn (r_widx r) (r_bufs r))) in
      let s0 := set_oracle o' s in
      match res with
      | WN n =>
          (* the sendmsg carried the SCM_RIGHTS message iff req->send_handle != NULL;
             then req->send_handle = NULL (inside req_update) *)
          let sf := if r_sh r then ev (EFd (r_id r)) s0 else s0 in
          let r' := req_update r n in
          let s1 := ev (EChunk (r_id r) (r_off r) n)
                       (set_wqs (wqs sf - n) (set_wq (r' :: rest) sf)) in
          if req_done r' then
            let s2 := finish_head r' rest s1 in
            match count with
            | S c => write_loop f c s2      (* if (count-- > 0) continue; *)
            | O => s2                       (* return; *)
            end
          else if blocking s1 then write_loop f count s1
          else set_armed true s1
      | WAgain =>
          let s0 := if r_sh r then ev (EFdFail (r_id r)) s0 else s0 in   (* send_handle stays *)
          if blocking s0 then write_loop f count s0 else set_armed true s0
      | WErr code =>
          let s0 := if r_sh r then ev (EFdFail (r_id r)) s0 else s0 in
          set_armed false (finish_head (set_err code r) rest s0)
      end
    end
  end.

Definition bufs_left (r : req) : nat := (length (r_bufs r) - r_widx r)%nat.

Definition write_fuel (s : st) : nat :=
  S (length (oracle s) + fold_right (fun r a => (bufs_left r + a)%nat) O (wq s) + length (wq s))%nat.

Definition uv_write_queue (s : st) : st := write_loop (write_fuel s) 32 s.

Inductive op :=
| OWrite (bufs : list N)
| OTry (bufs : list N)
| OShutdown
| OClose
| OWrite2 (bufs : list N)     (* uv_write2 with the send handle *)
| OCloseSend                  (* uv_close on the send handle *)
| OWriteNomem (bufs : list N)   (* uv_write during which uv__malloc fails *)
| OWrite2Nomem (bufs : list N)  (* uv_write2 with the send handle during which uv__malloc fails *)
| OConnect                      (* uv_tcp_connect / uv_pipe_connect again on the same handle *)
| ORun                  (* one uv_run(UV_RUN_NOWAIT); ignored inside callbacks *)
| OCloseReset.          (* uv_tcp_close_reset (TCP scripts only) *)

Definition check_before_write (s : st) : option Z :=
  if negb (fdopen s) then Some UV_EBADF
  else if negb (writable s) then Some UV_EPIPE
  else None.

(* uv_write2(req, stream, bufs, nbufs, NULL, cb), nbufs >= 1 *)
Definition api_write (s : st) (bufs : list N) : st :=
  let id := next_id s in
  let total := sumN bufs in
  let s := ev (EWrite id total) (set_next_id (S id) s) in
  match check_before_write s with
  | Some e => ev (ERet id e) s
  | None =>
      let empty_queue := wqs s =? 0 in
      let r := mkReq id total bufs O 0 0%Z false false in
      let s1 := set_wq (wq s ++ [r]) (set_wqs (wqs s + total) s) in
      let s2 := if connecting s1 then s1                 (* still connecting, do nothing *)
                else if empty_queue then uv_write_queue s1 else set_armed true s1 in
      ev (ERet id 0%Z) s2
  end.

Definition UV_EINVAL : Z := (-22)%Z.

(* uv__check_before_write with send_handle != NULL *)
Definition check_before_write2 (s : st) : option Z :=
  if negb (fdopen s) then Some UV_EBADF
  else if negb (writable s) then Some UV_EPIPE
  else if negb (ipc s) then Some UV_EINVAL         (* not a pipe opened for IPC *)
  else if negb (sh_open s) then Some UV_EBADF      (* uv__handle_fd(send_handle) < 0 *)
  else None.

(* uv_write2(req, stream, bufs, nbufs, send_handle, cb) with send_handle != NULL *)
Definition api_write2 (s : st) (bufs : list N) : st :=
  let id := next_id s in
  let total := sumN bufs in
  let s := ev (EWrite2 id) (ev (EWrite id total) (set_next_id (S id) s)) in
  match check_before_write2 s with
  | Some e => ev (ERet id e) s
  | None =>
      let empty_queue := wqs s =? 0 in
      let r := mkReq id total bufs O 0 0%Z false true in
      let s1 := set_wq (wq s ++ [r]) (set_wqs (wqs s + total) s) in
      let s2 := if connecting s1 then s1
                else if empty_queue then uv_write_queue s1 else set_armed true s1 in
      ev (ERet id 0%Z) s2
  end.

Definition UV_ENOMEM : Z := (-12)%Z.

(* nbufs > ARRAY_SIZE(req->bufsml): the uv_buf_t array is copied to the heap *)
Definition needs_alloc (bufs : list N) : bool := (4 <? length bufs)%nat.

(* uv_write2 when uv__malloc returns NULL: after uv__check_before_write and the empty_queue
   test, before the request is registered or anything is queued: return UV_ENOMEM.  With
   4 buffers or fewer nothing is allocated and the call is an ordinary one. *)
Definition api_write_nomem (s : st) (bufs : list N) : st :=
  match check_before_write s with
  | Some _ => api_write s bufs
  | None =>
      if needs_alloc bufs
      then ev (ERet (next_id s) UV_ENOMEM) (ev (EWrite (next_id s) (sumN bufs)) (set_next_id (S (next_id s)) s))
      else api_write s bufs
  end.

Definition api_write2_nomem (s : st) (bufs : list N) : st :=
  match check_before_write2 s with
  | Some _ => api_write2 s bufs
  | None =>
      if needs_alloc bufs
      then ev (ERet (next_id s) UV_ENOMEM)
              (ev (EWrite2 (next_id s)) (ev (EWrite (next_id s) (sumN bufs)) (set_next_id (S (next_id s)) s)))
      else api_write2 s bufs
  end.

(* uv_try_write *)
Definition api_try (s : st) (bufs : list N) : st :=
  let id := next_id s in
  let s := ev (ETry id (sumN bufs)) (set_next_id (S id) s) in
  if connecting s || cancelling s || negb (wqs s =? 0) then ev (ETryRet id UV_EAGAIN) s
  else match check_before_write s with
  | Some e => ev (ETryRet id e) s
  | None =>
      let '(res, o') := sys_write (oracle s) (offered bufs) in
      let s0 := set_oracle o' s in
      match res with
      | WN n => ev (ETryRet id (Z.of_N n)) (ev (EChunk id 0 n) s0)
      | WAgain => ev (ETryRet id UV_EAGAIN) s0
      | WErr c => ev (ETryRet id c) s0
      end
  end.

(* uv_shutdown *)
Definition api_shutdown (s : st) : st :=
  if negb (writable s) || shut s || shutreq s || closing s || closed s then ev (EShut UV_ENOTCONN) s
  else
    let s1 := set_writable false (set_shutreq true s) in
    (* if (connect_req == NULL && uv__queue_empty(&write_queue)) uv__io_feed(): while a connect
       is pending the shutdown waits for it like the writes do *)
    let s2 := if connecting s1 then s1 else match wq s1 with [] => set_fed true s1 | _ => s1 end in
    ev (EShut 0%Z) s2.

(* uv_close on the stream: flag, uv__io_close, clear WRITABLE, close the fd *)
Definition api_close (s : st) : st :=
  if closing s then s     (* calling uv_close twice is not allowed *)
  else set_fdopen false (set_writable false (set_fed false (set_armed false (set_closing true s)))).

Definition UV_EALREADY : Z := (-114)%Z.

(* ghost: a connect accepted while write_completed_queue is not empty (the requests in it are
   finished, their callbacks are due at the next run of the pending queue) *)
Definition orphan (s : st) : st := match cq s with [] => s | _ :: _ => ev (EOrphan (map r_id (cq s))) s end.

(* uv_tcp_connect / uv_pipe_connect on a handle that already has its socket (a retry after a
   failed connect).  The connect(2) result is the next entry of [connres].
   uv__tcp_connect: UV_EALREADY while a connect is pending; maybe_new_socket ors
   READABLE|WRITABLE into the flags (also when uv_shutdown had cleared WRITABLE: ghost event
   EReopen); EINPROGRESS/0 -> pending, ECONNREFUSED -> delayed_error + uv__io_feed, any other
   errno is returned at once; connect_req set, POLLOUT started.
   uv_pipe_connect2 (existing socket): a connect(2) error becomes delayed_error, POLLOUT is not
   started, the watcher is fed; else the stream is opened (READABLE|WRITABLE) if it has
   neither flag yet, POLLOUT started.
   Not modelled (no-op): a closing handle, a connected stream (the kernel says EISCONN), a
   second uv_pipe_connect while one is pending. *)
Definition api_connect (s : st) : st :=
  if closing s || negb (fdopen s) || connected s then s
  else if connecting s then (if is_tcp s then ev (EConnect UV_EALREADY) s else s)
  else
    let cres := match connres s with [] => None | c :: _ => c end in
    let s := set_connres (tl (connres s)) s in
    if is_tcp s then
      let s1 := if writable s then s else ev EReopen (set_writable true s) in
      let s1 := set_readable true s1 in
      if conn_pending_ok cres then
        (* delayed_error is 0 here: it is non-zero only while a connect is pending, which returned
           UV_EALREADY above; the model writes the 0 *)
        orphan (ev (EConnect 0%Z) (set_armed true (set_derr 0%Z (set_connecting true s1))))
      else if match cres with Some 111%positive => true | _ => false end then
        orphan (ev (EConnect 0%Z) (set_fed true (set_armed true (set_derr (conn_derr cres) (set_connecting true s1)))))
      else ev (EConnect (conn_derr cres)) s1
    else
      if conn_pending_ok cres then
        let s1 := if negb (readable s) && negb (writable s)
                  then set_readable true (ev EReopen (set_writable true s)) else s in
        orphan (ev (EConnect 0%Z) (set_armed true (set_derr 0%Z (set_connecting true s1))))
      else orphan (ev (EConnect 0%Z) (set_fed true (set_derr (conn_derr cres) (set_connecting true s)))).

(* uv_tcp_close_reset (src/unix/tcp.c): refused with UV_EINVAL while a uv_shutdown request is pending
   (uv__is_stream_shutting) - before anything is touched, so a refused call changes nothing: SO_LINGER
   stays off and a later uv_close ends the stream in order (every accepted byte, then end-of-stream).
   Otherwise SO_LINGER {1,0} and uv_close: the stream part is api_close (pending requests complete once with
   UV_ECANCELED); the peer sees a reset, which may cut its byte stream short (the correspondence does not
   compare the peer's count / EOF after an accepted reset).  Not modelled (no-op, the harness skips the
   call): a handle that is closing already. *)
Definition api_close_reset (s : st) : st :=
  if closing s then s
  else if shutreq s then ev (EReset UV_EINVAL) s
  else api_close (ev (EReset 0%Z) s).

Definition api (s : st) (o : op) : st :=
  match o with
  | OWrite bufs => api_write s bufs
  | OTry bufs => api_try s bufs
  | OShutdown => api_shutdown s
  | OClose => api_close s
  | OWrite2 bufs => api_write2 s bufs
  | OCloseSend => set_sh_open false s
  | OWriteNomem bufs => api_write_nomem s bufs
  | OWrite2Nomem bufs => api_write2_nomem s bufs
  | OConnect => api_connect s
  | ORun => s
  | OCloseReset => api_close_reset s
  end.

Fixpoint apis (s : st) (os : list op) : st :=
  match os with
  | [] => s
  | o :: os' => apis (api s o) os'
  end.

Section WithCallbacks.
Variable beh : nat -> list op.

Definition run_cb (s : st) : st :=
  let k := cbn s in apis (set_cbn (S k) s) (beh k).

(* the while loop of uv__write_callbacks over the detached queue *)
Fixpoint cb_loop (l : list req) (s : st) : st :=
  match l with
  | [] => s
  | r :: rest =>
      let s1 := set_pq rest s in
      let s2 := if r_freed r then s1 else set_wqs (wqs s1 - req_size r) s1 in
      cb_loop rest (run_cb (ev (ECb (r_id r) (r_err r) (wqs s2)) s2))
  end.

Definition write_callbacks (s : st) : st :=
  match cq s with
  | [] => s
  | l => cb_loop l (set_pq l (set_cq [] s))
  end.

(* shutdown(2): the scripted answer on a connected socket, ENOTCONN on one that is not *)
Definition UV_ENOTCONN_ : Z := (-107)%Z.
Definition shutdown_answer (s : st) : Z := if connected s then shutans s else UV_ENOTCONN_.

(* uv__drain *)
Definition drain (s : st) : st :=
  (* uv__io_stop(POLLOUT) - also when a connect started from a callback is waiting for it *)
  let s1 := if closing s then s else set_armed false s in
  if negb (shutreq s1) then s1
  else if closing s1 || negb (shut s1) then
    let s2 := set_shutreq false s1 in
    if closing s2 then run_cb (ev (EShutCb UV_ECANCELED) s2)
    else
      let ans := shutdown_answer s2 in
      let s3 := ev (ESysShut ans) s2 in
      if Z.eqb ans 0 then run_cb (ev (EShutCb 0%Z) (set_shut true s3))
      else run_cb (ev (EShutCb ans) s3)
  else s1.

(* uv__stream_flush_write_queue(stream, UV_ECANCELED) *)
Definition flush (s : st) : st :=
  set_wq [] (set_cq (cq s ++ map (set_err UV_ECANCELED) (wq s)) s).

(* uv__stream_connect *)
Definition stream_connect (s : st) : st :=
  let '(error, s1) :=
    if negb (Z.eqb (derr s) 0) then (derr s, set_derr 0%Z s)
    else match sockerr s with
         | [] => (0%Z, s)
         | e :: t => ((- e)%Z, set_sockerr t s)
         end in
  if Z.eqb error (- EINPROGRESS) then s1
  else
    let s2 := set_connecting false s1 in
    (* uv__io_stop(POLLOUT) unless writes are queued or a shutdown is pending (the next
       wake-up then runs uv__stream_io, which drains and performs the shutdown) *)
    let s3 := if (error <? 0)%Z || (match wq s2 with [] => true | _ => false end && negb (shutreq s2))
              then set_armed false s2 else s2 in
    let s3 := if (error <? 0)%Z then s3 else set_connected true s3 in   (* ghost: the kernel's view *)
    let s4 := run_cb (ev (EConnCb error) s3) in             (* req->cb(req, error) *)
    if negb (fdopen s4) then s4                             (* closed in the callback *)
    else if (error <? 0)%Z then
      let s5 := write_callbacks (flush s4) in
      (* a shutdown queued behind the writes is reported, too (ENOTCONN), unless the callback
         started another connect: the shutdown then waits with it *)
      if shutreq s5 && negb (connecting s5) && fdopen s5 then
        match wq s5, cq s5 with [], [] => drain s5 | _, _ => s5 end
      else s5
    else
      (* requests that had finished before this connect was started still wait for their callbacks:
         the wake-up meant for them ended up here; uv__io_feed hands it back *)
      match cq s4 with [] => s4 | _ :: _ => set_fed true s4 end.

(* uv__stream_io with POLLOUT (nothing to read) *)
Definition stream_io (s : st) : st :=
  if connecting s then stream_connect s
  else
  let s1 := uv_write_queue s in
  let s2 := write_callbacks s1 in
  (* if (connect_req == NULL && uv__queue_empty(&write_queue) &&
         uv__queue_empty(&write_completed_queue)) uv__drain();
     a connect started from a write callback keeps its POLLOUT *)
  if connecting s2 then s2
  else match wq s2, cq s2 with [], [] => drain s2 | _, _ => s2 end.

(* uv__finish_close -> uv__stream_destroy, close_cb *)
Definition destroy (s : st) : st :=
  let s0 := set_closed true s in
  let s1 := if connecting s0         (* connect_req->cb(connect_req, UV_ECANCELED); connect_req = NULL; *)
            then set_cancelling false
                   (run_cb (ev (EConnCb UV_ECANCELED) (set_cancelling true (set_connecting false s0))))
            else s0 in
  ev ECloseCb (drain (write_callbacks (flush s1))).

(* uv__run_pending for this watcher *)
Definition run_pending (s : st) : st :=
  if fed s then stream_io (set_fed false s) else s.

Fixpoint pending_rounds (k : nat) (s : st) : st :=
  match k with
  | O => s
  | S k' => if fed s then pending_rounds k' (run_pending s) else s
  end.

(* one iteration of uv_run(loop, UV_RUN_NOWAIT) with the loop kept alive *)
Definition run_iter (s : st) : st :=
  let s1 := run_pending s in
  let w := match pollw s1 with [] => true | b :: _ => b end in
  let s1 := set_pollw (tl (pollw s1)) s1 in
  let s2 := if armed s1 && w then stream_io s1 else s1 in       (* uv__io_poll *)
  let s3 := pending_rounds 8 s2 in
  if closing s3 && negb (closed s3) then destroy s3 else s3.  (* uv__run_closing_handles *)

Definition step (s : st) (o : op) : st :=
  let s' := match o with ORun => run_iter s | _ => api s o end in
  ev (EQ (wqs s')) s'.

Fixpoint exec (s : st) (os : list op) : st :=
  match os with
  | [] => s
  | o :: os' => exec (step s o) os'
  end.

End WithCallbacks.

Definition trace (s : st) : list event := rev (tr s).
