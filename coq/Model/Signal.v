(* Model of src/unix/signal.c (uv_signal_t) and of the close deferral in
   src/unix/core.c uv__finish_close, written statement by statement.

   - the process-wide red-black tree uv__signal_tree is a list of handle ids
     kept sorted by uv__signal_compare (signum, ONE_SHOT flag, loop, handle);
   - the kernel's per-signal disposition is [disp_of];
   - each loop's self-pipe is a FIFO list of messages (handle, signum) with a
     capacity [cap] (a write to a full pipe fails with EAGAIN);
   - [batch] is the local buffer of uv__signal_event (the messages already
     read from the pipe and not yet looked at);
   - [clq_of l] is loop->closing_handles (LIFO).

   TRUSTED ASSUMPTION (not proved, stated in DESIGN.md section 4): the
   critical sections of uv__signal_start / uv__signal_stop run with all
   signals blocked and the signal lock held, and the handler holds the lock:
   start, stop and one delivery are atomic with respect to each other.  They
   are therefore single functions here.
   The protocol that gives this atomicity - uv__signal_block_and_lock: block
   every signal, then take the lock; uv__signal_unlock_and_unblock: release the
   lock, then restore the mask; the handler: take and release the lock with
   sa_mask full - is modelled at the end of this file ([csys]); what stays
   trusted is that the kernel does not deliver a blocked signal and that a
   1-byte pipe read/write is an atomic take/put of the token.

   Three switches select the variant of the code that is modelled:
   [fx] - [true] = the code as it is since /repo commit 6ba1164
          (notes/C13_fix_oneshot_flag.diff: UV_SIGNAL_ONE_SHOT is set or cleared by
          every effective start), [false] = before that commit (the flag is only
          ever set);
   [fs] - [true] = the code as it is since /repo commit c39ecc3
          (notes/C13_fix_oneshot_stale_stop.diff: the one-shot stop only after the
          callback), [false] = before that commit (uv__signal_event stopped a
          ONE_SHOT handle after every message, also one whose signum was not the
          watched one);
   [fr] - [true] = the code as it is since /repo commit 48c2ea2
          (notes/C13_fix_oneshot_restart_in_cb.diff: after the callback a ONE_SHOT
          handle is stopped only if it still watches the signal of the message),
          [false] = before that commit (stopped whatever it watches by then).

   Ghost fields (never printed, never read by the modelled code): [g_fired]
   (the handler has run for this handle since it was last inserted into the
   tree), [race] (some handle was started on a signal that had a one-shot
   watcher with [g_fired] in the tree), [tr] (the trace, newest event first). *)
From UV Require Import Lib.Base.

Inductive disp := Default | Handler (resethand : bool).

Record handle := mkH {
  h_loop : nat;
  h_signum : nat;            (* 0 = not started *)
  h_oneshot : bool;          (* UV_SIGNAL_ONE_SHOT *)
  h_caught : nat;            (* caught_signals *)
  h_dispatched : nat;        (* dispatched_signals *)
  h_active : bool;           (* UV_HANDLE_ACTIVE *)
  h_closing : bool;          (* UV_HANDLE_CLOSING (stays set once closed) *)
  h_closed : bool;           (* UV_HANDLE_CLOSED: close_cb has run *)
  g_fired : bool
}.

Definition msg := (nat * nat)%type.     (* uv__signal_msg_t: handle, signum *)

Inductive op :=
| OInit (l : nat)                        (* uv_signal_init on loop l *)
| OStart (h sig : nat)                   (* uv_signal_start *)
| OStartOneshot (h sig : nat)            (* uv_signal_start_oneshot *)
| OStop (h : nat)                        (* uv_signal_stop *)
| OClose (h : nat)                       (* uv_close *)
| ORaise (sig : nat)                     (* the kernel delivers sig to the process *)
| ORun (l : nat)                         (* uv_run(loop l, UV_RUN_NOWAIT); top level only *)
| OFork (l : nat)                        (* the process is the child of a fork(): uv_loop_fork(loop l); top level only *)
| OUvStop (l : nat)                      (* uv_stop(loop l) *)
| OReinit (h : nat).                     (* uv_signal_init again on the memory of a handle whose close_cb has run *)

Inductive event :=
| EOp (o : op) (ret : Z)                 (* the call returned ret (ORaise: 0 handled, 1 default action) *)
| ESkip (o : op)                         (* not a legal call here (closing handle, unknown handle, nested run) *)
| ECb (h sig : nat)                      (* signal_cb(handle, signum) entered *)
| ECbEnd (h : nat)                       (* ... returned *)
| ECloseCb (h : nat)
| ERunBegin (l : nat)
| ERunEnd (l : nat)
| ESnap (d : list disp) (a : list bool)  (* sigaction() of the watched signals, uv_is_active of every handle *)
| EDrop (h sig : nat)                    (* ghost: a message (h, sig) was consumed without a callback *)
| EFork (l : nat) (ids : list nat).      (* uv_loop_fork(loop l) returned; ids (ghost) = the handles of that loop *)

Record state := mkS {
  hs : list handle;
  tree : list nat;
  disp_of : nat -> disp;
  pipe_of : nat -> list msg;
  batch : list msg;
  clq_of : nat -> list nat;
  cap : nat;
  cbcount : nat;
  race : bool;
  lost : nat;                (* ghost: writes that found the pipe full (EAGAIN) *)
  stopf : nat -> bool;       (* loop->stop_flag *)
  tr : list event
}.

Definition init (c : nat) : state :=
  mkS [] [] (fun _ => Default) (fun _ => []) [] (fun _ => []) c 0 false 0 (fun _ => false) [].

Definition dflt_h : handle := mkH 0 0 false 0 0 false false false false.
Definition get (s : state) (h : nat) : handle := nth h (hs s) dflt_h.

Definition with_hs (s : state) v := mkS v (tree s) (disp_of s) (pipe_of s) (batch s) (clq_of s) (cap s) (cbcount s) (race s) (lost s) (stopf s) (tr s).
Definition with_tree (s : state) v := mkS (hs s) v (disp_of s) (pipe_of s) (batch s) (clq_of s) (cap s) (cbcount s) (race s) (lost s) (stopf s) (tr s).
Definition with_disp (s : state) v := mkS (hs s) (tree s) v (pipe_of s) (batch s) (clq_of s) (cap s) (cbcount s) (race s) (lost s) (stopf s) (tr s).
Definition with_pipes (s : state) v := mkS (hs s) (tree s) (disp_of s) v (batch s) (clq_of s) (cap s) (cbcount s) (race s) (lost s) (stopf s) (tr s).
Definition with_batch (s : state) v := mkS (hs s) (tree s) (disp_of s) (pipe_of s) v (clq_of s) (cap s) (cbcount s) (race s) (lost s) (stopf s) (tr s).
Definition with_clqs (s : state) v := mkS (hs s) (tree s) (disp_of s) (pipe_of s) (batch s) v (cap s) (cbcount s) (race s) (lost s) (stopf s) (tr s).
Definition with_cbcount (s : state) v := mkS (hs s) (tree s) (disp_of s) (pipe_of s) (batch s) (clq_of s) (cap s) v (race s) (lost s) (stopf s) (tr s).
Definition with_race (s : state) v := mkS (hs s) (tree s) (disp_of s) (pipe_of s) (batch s) (clq_of s) (cap s) (cbcount s) v (lost s) (stopf s) (tr s).
Definition with_tr (s : state) v := mkS (hs s) (tree s) (disp_of s) (pipe_of s) (batch s) (clq_of s) (cap s) (cbcount s) (race s) (lost s) (stopf s) v.
Definition with_lost (s : state) v := mkS (hs s) (tree s) (disp_of s) (pipe_of s) (batch s) (clq_of s) (cap s) (cbcount s) (race s) v (stopf s) (tr s).
Definition with_stopf (s : state) v := mkS (hs s) (tree s) (disp_of s) (pipe_of s) (batch s) (clq_of s) (cap s) (cbcount s) (race s) (lost s) v (tr s).

Definition fupd {A} (f : nat -> A) (k : nat) (v : A) : nat -> A :=
  fun x => if x =? k then v else f x.

Definition upd_h (s : state) (h : nat) (f : handle -> handle) : state := with_hs s (upd h f (hs s)).
Definition set_disp (s : state) (sig : nat) (d : disp) : state := with_disp s (fupd (disp_of s) sig d).
Definition set_pipe (s : state) (l : nat) (p : list msg) : state := with_pipes s (fupd (pipe_of s) l p).
Definition set_clq (s : state) (l : nat) (q : list nat) : state := with_clqs s (fupd (clq_of s) l q).
Definition set_stopf (s : state) (l : nat) (b : bool) : state := with_stopf s (fupd (stopf s) l b).
Definition log (s : state) (e : event) : state := with_tr s (e :: tr s).

(* field setters of a handle *)
Definition h_set_stopped (x : handle) : handle :=
  mkH (h_loop x) 0 (h_oneshot x) (h_caught x) (h_dispatched x) false (h_closing x) (h_closed x) (g_fired x).
Definition h_set_started (sig : nat) (flag : bool) (x : handle) : handle :=
  mkH (h_loop x) sig flag (h_caught x) (h_dispatched x) true (h_closing x) (h_closed x) false.
Definition h_set_fired (x : handle) : handle :=
  mkH (h_loop x) (h_signum x) (h_oneshot x) (h_caught x) (h_dispatched x) (h_active x) (h_closing x) (h_closed x) true.
Definition h_inc_caught (x : handle) : handle :=
  mkH (h_loop x) (h_signum x) (h_oneshot x) (S (h_caught x)) (h_dispatched x) (h_active x) (h_closing x) (h_closed x) (g_fired x).
Definition h_inc_dispatched (x : handle) : handle :=
  mkH (h_loop x) (h_signum x) (h_oneshot x) (h_caught x) (S (h_dispatched x)) (h_active x) (h_closing x) (h_closed x) (g_fired x).
Definition h_set_closing (x : handle) : handle :=
  mkH (h_loop x) (h_signum x) (h_oneshot x) (h_caught x) (h_dispatched x) (h_active x) true (h_closed x) (g_fired x).
Definition h_set_closed (x : handle) : handle :=
  mkH (h_loop x) (h_signum x) (h_oneshot x) (h_caught x) (h_dispatched x) (h_active x) (h_closing x) true (g_fired x).

(* uv__signal_compare; the handle's address is its index, the loop's address its index *)
Definition sig_compare (a : handle) (ia : nat) (b : handle) (ib : nat) : comparison :=
  if h_signum a <? h_signum b then Lt else
  if h_signum b <? h_signum a then Gt else
  match h_oneshot a, h_oneshot b with
  | false, true => Lt
  | true, false => Gt
  | _, _ =>
      if h_loop a <? h_loop b then Lt else
      if h_loop b <? h_loop a then Gt else
      if ia <? ib then Lt else if ib <? ia then Gt else Eq
  end.

(* RB_INSERT: an element comparing equal is not inserted again *)
Fixpoint tree_insert (hl : list handle) (x : nat) (t : list nat) : list nat :=
  match t with
  | [] => [x]
  | y :: t' =>
      match sig_compare (nth x hl dflt_h) x (nth y hl dflt_h) y with
      | Lt => x :: y :: t'
      | Eq => y :: t'
      | Gt => y :: tree_insert hl x t'
      end
  end.

(* RB_REMOVE *)
Definition tree_remove (x : nat) (t : list nat) : list nat :=
  filter (fun y => negb (y =? x)) t.

(* uv__signal_first_handle: RB_NFIND of { signum, flags 0, loop NULL }, i.e. the
   first element that is not smaller than every (signum, ...) key, kept only when
   its signum is the one asked for *)
Definition first_handle (s : state) (sig : nat) : option nat :=
  match find (fun y => sig <=? h_signum (get s y)) (tree s) with
  | Some y => if h_signum (get s y) =? sig then Some y else None
  | None => None
  end.

Fixpoint drop_below (s : state) (sig : nat) (t : list nat) : list nat :=
  match t with
  | [] => []
  | y :: t' => if h_signum (get s y) <? sig then drop_below s sig t' else t
  end.

(* RB_NEXT while handle->signum == signum *)
Fixpoint walk (s : state) (sig : nat) (t : list nat) : list nat :=
  match t with
  | [] => []
  | y :: t' => if h_signum (get s y) =? sig then y :: walk s sig t' else []
  end.

Definition targets (s : state) (sig : nat) : list nat := walk s sig (drop_below s sig (tree s)).

(* one turn of the loop in uv__signal_handler *)
Definition write_msg (sig : nat) (s : state) (y : nat) : state :=
  let l := h_loop (get s y) in
  let s1 := upd_h s y h_set_fired in
  if length (pipe_of s1 l) <? cap s1
  then upd_h (set_pipe s1 l (pipe_of s1 l ++ [(y, sig)])) y h_inc_caught
  else with_lost s1 (S (lost s1)).           (* EAGAIN: caught_signals not incremented *)

Definition handler (s : state) (sig : nat) : state :=
  fold_left (write_msg sig) (targets s sig) s.

(* the kernel delivers sig *)
Definition deliver (s : state) (sig : nat) : state * Z :=
  match disp_of s sig with
  | Default => (s, 1%Z)                       (* default action; the harness does not raise *)
  | Handler rh =>
      let s1 := if rh then set_disp s sig Default else s in   (* SA_RESETHAND *)
      (handler s1 sig, 0%Z)
  end.

(* what sigaction() accepts on Linux/glibc *)
Definition sigok (n : nat) : bool :=
  (1 <=? n) && (n <=? 64) && negb (n =? 9) && negb (n =? 19) && negb (n =? 32) && negb (n =? 33).

Definition UV_EINVAL : Z := (-22)%Z.

(* uv__signal_stop *)
Definition sig_stop (s : state) (h : nat) : state :=
  let hd := get s h in
  if h_signum hd =? 0 then s else
  let s1 := with_tree s (tree_remove h (tree s)) in
  let s2 :=
    match first_handle s1 (h_signum hd) with
    | None => set_disp s1 (h_signum hd) Default                  (* unregister *)
    | Some f =>
        if h_oneshot (get s1 f) && negb (h_oneshot hd)
        then set_disp s1 (h_signum hd) (Handler true)            (* re-register one-shot *)
        else s1
    end in
  upd_h s2 h h_set_stopped.

Definition fired_oneshot_on (s : state) (sig : nat) : bool :=
  existsb (fun y => (h_signum (get s y) =? sig) && h_oneshot (get s y) && g_fired (get s y)) (tree s).

(* uv__signal_start *)
Definition sig_start (fx : bool) (s : state) (h sig : nat) (os : bool) : state * Z :=
  if sig =? 0 then (s, UV_EINVAL) else
  if sig =? h_signum (get s h) then (s, 0%Z) else               (* short circuit *)
  let s1 := if h_signum (get s h) =? 0 then s else sig_stop s h in
  let need :=
    match first_handle s1 sig with
    | None => true
    | Some f => negb os && h_oneshot (get s1 f)
    end in
  if need && negb (sigok sig) then (s1, UV_EINVAL) else
  let s2 := if need then set_disp s1 sig (Handler os) else s1 in
  let s3 := if fired_oneshot_on s2 sig then with_race s2 true else s2 in   (* ghost *)
  let flag := if fx then os else h_oneshot (get s3 h) || os in
  let s4 := upd_h s3 h (h_set_started sig flag) in
  (with_tree s4 (tree_insert (hs s4) h (tree s4)), 0%Z).

(* uv_close on a signal handle: flag, uv__signal_close, uv__make_close_pending *)
Definition sig_close (s : state) (h : nat) : state :=
  let s1 := upd_h s h h_set_closing in
  let s2 := sig_stop s1 h in
  let l := h_loop (get s2 h) in
  set_clq s2 l (h :: clq_of s2 l).

Definition usable (s : state) (h : nat) : bool :=
  (h <? length (hs s)) && negb (h_closing (get s h)).

Definition new_handle (l : nat) : handle := mkH l 0 false 0 0 false false false false.

(* one API call (top level or inside a callback) *)
Definition api (fx : bool) (s : state) (o : op) : state :=
  match o with
  | OInit l => log (with_hs s (hs s ++ [new_handle l])) (EOp o 0%Z)
  | OStart h sig =>
      if usable s h then let '(s1, r) := sig_start fx s h sig false in log s1 (EOp o r)
      else log s (ESkip o)
  | OStartOneshot h sig =>
      if usable s h then let '(s1, r) := sig_start fx s h sig true in log s1 (EOp o r)
      else log s (ESkip o)
  | OStop h => if usable s h then log (sig_stop s h) (EOp o 0%Z) else log s (ESkip o)
  | OClose h => if usable s h then log (sig_close s h) (EOp o 0%Z) else log s (ESkip o)
  | ORaise sig =>
      if sig =? 0 then log s (ESkip o)
      else let '(s1, r) := deliver s sig in log s1 (EOp o r)
  | ORun _ => log s (ESkip o)
  | OFork _ => log s (ESkip o)                                   (* not from inside a callback *)
  | OUvStop l => log (set_stopf s l true) (EOp o 0%Z)
  | OReinit h =>
      (* the storage of a closed handle is used again.  A closed handle is stopped and in no
         closing queue (invariants): the first two steps change nothing in a reachable state *)
      if (h <? length (hs s)) && h_closed (get s h) then
        let s1 := sig_stop s h in
        let s2 := with_clqs s1 (fun l => filter (fun x => negb (x =? h)) (clq_of s1 l)) in
        log (upd_h s2 h (fun x => new_handle (h_loop x))) (EOp o 0%Z)
      else log s (ESkip o)
  end.

Definition watch_sigs : list nat := [1; 10; 12; 28].   (* SIGHUP SIGUSR1 SIGUSR2 SIGWINCH *)

Definition snap (s : state) : state :=
  log s (ESnap (map (disp_of s) watch_sigs) (map h_active (hs s))).

Definition api_snap (fx : bool) (s : state) (o : op) : state := snap (api fx s o).

Fixpoint script (fx : bool) (s : state) (os : list op) : state :=
  match os with
  | [] => s
  | o :: r => script fx (api_snap fx s o) r
  end.

(* body of the for loop of uv__signal_event for one message (h, sig); [r] = the
   messages of the buffer that come after it *)

(* the callback is entered: event, snapshot (ghost of the harness), next behaviour *)
Definition cb_enter (s : state) (h sig : nat) : state :=
  let s' := snap (log s (ECb h sig)) in
  with_cbcount s' (S (cbcount s')).

(* after the callback (or without one): dispatched_signals++, one-shot stop *)
Definition msg_finish (s : state) (h : nat) (r : list msg) : state :=
  let s2 := upd_h (with_batch s r) h h_inc_dispatched in
  if h_oneshot (get s2 h) then sig_stop s2 h else s2.

(* after the callback of a message (h, sig) *)
Definition msg_after_cb (fr : bool) (s : state) (h sig : nat) (r : list msg) : state :=
  if fr then
    let s2 := upd_h (with_batch s r) h h_inc_dispatched in
    if h_oneshot (get s2 h) && (h_signum (get s2 h) =? sig) then sig_stop s2 h else s2
  else msg_finish s h r.

(* a message whose signum is not the one being watched: no callback *)
Definition msg_skip (fs : bool) (s : state) (h sig : nat) (r : list msg) : state :=
  let s0 := log s (EDrop h sig) in
  if fs then upd_h (with_batch s0 r) h h_inc_dispatched     (* only dispatched_signals++ *)
  else msg_finish s0 h r.                                   (* before c39ecc3: also the one-shot stop *)

Definition process_msg (fx fs fr : bool) (beh : nat -> list op) (s : state) (m : msg) (r : list msg) : state :=
  let h := fst m in
  let sig := snd m in
  if sig =? h_signum (get s h) then
    let s1 := script fx (cb_enter s h sig) (beh (cbcount s)) in
    msg_after_cb fr (log s1 (ECbEnd h)) h sig r
  else msg_skip fs s h sig r.

Fixpoint process_msgs (fx fs fr : bool) (beh : nat -> list op) (s : state) (b : list msg) : state :=
  match b with
  | [] => s
  | m :: r => process_msgs fx fs fr beh (process_msg fx fs fr beh s m r) r
  end.

Definition batch_size : nat := 32.

(* one successful read(): up to 32 messages move from the pipe into the buffer *)
Definition take_batch (s : state) (l : nat) : state :=
  with_batch (set_pipe s l (skipn batch_size (pipe_of s l))) (firstn batch_size (pipe_of s l)).

(* uv__signal_event: read up to 32 messages, handle them, go on only while a
   full buffer was read *)
Fixpoint signal_event (fx fs fr : bool) (beh : nat -> list op) (fuel : nat) (s : state) (l : nat) : state :=
  match fuel with
  | O => s
  | S f =>
      match pipe_of s l with
      | [] => s                                                  (* EAGAIN with an empty buffer *)
      | _ :: _ =>
          let s1 := take_batch s l in
          let s2 := process_msgs fx fs fr beh s1 (batch s1) in
          if length (batch s1) =? batch_size then signal_event fx fs fr beh f s2 l else s2
      end
  end.

(* uv__run_closing_handles / uv__finish_close for signal handles *)
Definition finish_close (s : state) (l h : nat) : state :=
  if h_dispatched (get s h) <? h_caught (get s h)
  then set_clq s l (h :: clq_of s l)                            (* back into the queue *)
  else log (upd_h s h h_set_closed) (ECloseCb h).

Fixpoint finish_all (s : state) (l : nat) (q : list nat) : state :=
  match q with
  | [] => s
  | h :: r => finish_all (finish_close s l h) l r
  end.

Definition run_closing (s : state) (l : nat) : state :=
  finish_all (set_clq s l []) l (clq_of s l).

(* one uv_run(UV_RUN_NOWAIT) of a loop that is kept alive: poll phase (signal
   pipe), then closing handles *)
Definition dispatch (fx fs fr : bool) (beh : nat -> list op) (fuel : nat) (s : state) (l : nat) : state :=
  let s0 := log s (ERunBegin l) in
  let s2 :=
    if stopf s0 l then s0                                        (* uv_stop() before the run: no iteration *)
    else run_closing (signal_event fx fs fr beh fuel s0 l) l in
  snap (log (set_stopf s2 l false) (ERunEnd l)).               (* stop_flag is cleared on the way out *)

(* uv_loop_fork(loop l) in the child of a fork(): uv__signal_loop_fork closes the inherited
   signal pipe, makes a new one and zeroes caught_signals / dispatched_signals of every signal
   handle of the loop.  The tree, the dispositions and the handles' watches are inherited. *)
Definition h_reset_counters (x : handle) : handle :=
  mkH (h_loop x) (h_signum x) (h_oneshot x) 0 0 (h_active x) (h_closing x) (h_closed x) (g_fired x).

Definition loop_fork (s : state) (l : nat) : state :=
  let ids := filter (fun h => h_loop (get s h) =? l) (seq 0 (length (hs s))) in
  let s1 := set_pipe s l [] in
  let s2 := with_hs s1 (map (fun x => if h_loop x =? l then h_reset_counters x else x) (hs s1)) in
  log s2 (EFork l ids).

Definition top (fx fs fr : bool) (beh : nat -> list op) (fuel : nat) (s : state) (o : op) : state :=
  match o with
  | ORun l => dispatch fx fs fr beh fuel s l
  | OFork l => snap (loop_fork s l)
  | _ => api_snap fx s o
  end.

Fixpoint run (fx fs fr : bool) (beh : nat -> list op) (fuel : nat) (s : state) (os : list op) : state :=
  match os with
  | [] => s
  | o :: r => run fx fs fr beh fuel (top fx fs fr beh fuel s o) r
  end.

Definition trace_of (s : state) : list event := rev (tr s).

(* ------------------------------------------------------------------ *)
(* The critical sections.  Threads make API calls that enter the critical *)
(* section of uv__signal_start / uv__signal_stop; the kernel may run the *)
(* handler in any thread that does not block the signal.  The lock is a  *)
(* pipe holding one token.                                               *)
(*   [order = true]  the code as it is: uv__signal_block_and_lock blocks *)
(*                   every signal and then reads the token;              *)
(*   [order = false] the other order (read the token, then block).       *)
(* ------------------------------------------------------------------ *)
Inductive cpc :=
| CIdle                    (* between two API calls *)
| CEntry1                  (* first step of uv__signal_block_and_lock done *)
| CIn                      (* in the critical section *)
| CBodyDone                (* tree / sigaction work done *)
| CUnlocked                (* uv__signal_unlock done, mask not yet restored *)
| CH1                      (* uv__signal_handler entered (sa_mask: everything blocked) *)
| CH2                      (* ... holds the lock, writes its messages *)
| CH3.                     (* ... has released the lock *)

Record cthread := mkCT {
  c_pc : cpc;
  c_saved : cpc;             (* where the handler returns to *)
  c_blocked : bool;          (* every signal blocked in this thread *)
  c_holds : bool;            (* this thread has taken the token *)
  c_calls : nat              (* API calls still to make *)
}.

Record csys := mkCS { c_token : bool; c_thr : list cthread }.

Inductive cchoice :=
| CRun (t : nat)             (* thread t makes its next step (nothing happens if it waits for the token) *)
| CSignal (t : nat).         (* the kernel delivers a watched signal to thread t (only if it does not block it) *)

Definition ct_dflt : cthread := mkCT CIdle CIdle false false 0.

Definition cstep_thread (order : bool) (tok : bool) (x : cthread) : bool * cthread :=
  match c_pc x with
  | CIdle =>
      match c_calls x with
      | O => (tok, x)
      | S _ =>
          if order then (tok, mkCT CEntry1 (c_saved x) true (c_holds x) (c_calls x))
          else if tok then (false, mkCT CEntry1 (c_saved x) (c_blocked x) true (c_calls x))
          else (tok, x)
      end
  | CEntry1 =>
      if order then
        if tok then (false, mkCT CIn (c_saved x) (c_blocked x) true (c_calls x)) else (tok, x)
      else (tok, mkCT CIn (c_saved x) true (c_holds x) (c_calls x))
  | CIn => (tok, mkCT CBodyDone (c_saved x) (c_blocked x) (c_holds x) (c_calls x))
  | CBodyDone => (true, mkCT CUnlocked (c_saved x) (c_blocked x) false (c_calls x))
  | CUnlocked => (tok, mkCT CIdle (c_saved x) false (c_holds x) (pred (c_calls x)))
  | CH1 => if tok then (false, mkCT CH2 (c_saved x) (c_blocked x) true (c_calls x)) else (tok, x)
  | CH2 => (true, mkCT CH3 (c_saved x) (c_blocked x) false (c_calls x))
  | CH3 => (tok, mkCT (c_saved x) (c_saved x) false (c_holds x) (c_calls x))
  end.

Definition csignal_thread (x : cthread) : cthread :=
  if c_blocked x then x
  else mkCT CH1 (c_pc x) true (c_holds x) (c_calls x).

Definition cstep (order : bool) (st : csys) (c : cchoice) : csys :=
  match c with
  | CRun t =>
      if t <? length (c_thr st) then
        let '(tok, x) := cstep_thread order (c_token st) (nth t (c_thr st) ct_dflt) in
        mkCS tok (upd t (fun _ => x) (c_thr st))
      else st
  | CSignal t => mkCS (c_token st) (upd t csignal_thread (c_thr st))
  end.

Fixpoint crun (order : bool) (st : csys) (cs : list cchoice) : csys :=
  match cs with
  | [] => st
  | c :: r => crun order (cstep order st c) r
  end.

(* n threads, each with [calls] API calls to make, the token in the pipe *)
Definition cinit (n calls : nat) : csys :=
  mkCS true (repeat (mkCT CIdle CIdle false false calls) n).
