(* Model of the UDP send and receive paths of src/unix/udp.c and of the udp entry
   checks of src/uv-common.c (one handle on one loop, Linux).

     uv_udp_send / uv__udp_send              uv-common.c:487-500, udp.c:562-625
     uv_udp_try_send / uv__udp_try_send      uv-common.c:503-514, udp.c:628-655
     uv_udp_try_send2 / uv__udp_try_send2    uv-common.c:517-533, udp.c:1409-1421
     uv__udp_sendmsg1                        udp.c:1261-1286
     uv__udp_sendmsgv                        udp.c:1289-1349
     uv__udp_sendmsg                         udp.c:1352-1406
     uv__udp_run_completed                   udp.c:95-136
     uv__udp_io                              udp.c:139-152
     uv__udp_recvmmsg / uv__udp_recvmsg      udp.c:154-287
     uv__udp_recv_start / uv__udp_recv_stop  udp.c:1195-1230
     uv__udp_close / uv__udp_finish_close    udp.c:56-92
     uv_run(UV_RUN_NOWAIT) as far as this handle is concerned  core.c:427-492

   The kernel is an oracle: [os] answers sendmsg/sendmmsg in call order, [orv]
   answers recvmsg/recvmmsg, the readiness of the descriptor is an argument of the
   run step.  User callbacks are scripts: the k-th send callback executes [beh k],
   the k-th receive callback executes [rbeh k chunk].  The output is the trace.

   [fx] selects the index arithmetic of the sendmmsg chunk loop of uv__udp_sendmsgv:
   [false] = as written in the tree (the index is advanced by the prepared count and
   again by the sent count), [true] = advanced by the sent count only.
   [sendmsgv_fixed] says which of the two the tree has.

   At the end of the file: the two monitors (decidable predicates on traces) that the
   theorems of Proofs/UdpProofs.v are about - [mon_step] for the send side, [bmon_step]
   for the buffers of the receive side. *)
From UV Require Import Lib.Base.

Local Open Scope Z_scope.

Definition sendmsgv_fixed : bool := true.

(* errno values (Linux) and their uv codes *)
Definition EINTR : Z := 4.
Definition EAGAIN : Z := 11.          (* = EWOULDBLOCK *)
Definition ENOBUFS : Z := 105.
Definition UV_EAGAIN : Z := -11.
Definition UV_EINVAL : Z := -22.
Definition UV_ENOBUFS : Z := -105.
Definition UV_EISCONN : Z := -106.
Definition UV_EDESTADDRREQ : Z := -89.
Definition UV_EALREADY : Z := -114.
Definition UV_ECANCELED : Z := -125.

Definition UV_UDP_PARTIAL : Z := 2.
Definition UV_UDP_MMSG_CHUNK : Z := 8.
Definition UV_UDP_MMSG_FREE : Z := 16.
Definition DGRAM_MAXSIZE : Z := 65536.   (* UV__UDP_DGRAM_MAXSIZE *)
Definition BATCH : nat := 20.            (* ARRAY_SIZE(m), N in uv__udp_sendmsg, ARRAY_SIZE(peers) *)

(* one datagram: its sequence number (submission order on the handle) and size *)
(* d_dst: the address the application gave for it: 0 = NULL (the connected peer),
   1 / 2 = one of two fixed destinations *)
(* d_nb: the number of buffers (msg_iovlen) it is made of *)
Record dgram := mkD { d_seq : nat; d_len : N; d_dst : nat; d_nb : N }.

(* uv_udp_send_t *)
Record req := mkReq { q_id : nat; q_d : dgram; q_status : Z }.

(* answer of sendmsg (bytes) / sendmmsg (messages), or an errno *)
(* errno values are positive *)
Inductive sans := SRet (r : N) | SErr (e : positive).
(* a received message: which datagram, msg_len, MSG_TRUNC *)
Record rmsg := mkM { m_id : nat; m_len : Z; m_trunc : bool }.
(* answer of recvmsg (one message) / recvmmsg (k messages), or an errno *)
Inductive rans := RMsgs (l : list rmsg) | RErr (e : Z).

Inductive op :=
| OSend (len : N) (addr : nat) (nb : N)   (* uv_udp_send, one datagram of len bytes in nb buffers; addr 0 = NULL *)
| OTry (len : N) (addr : nat) (nb : N)    (* uv_udp_try_send *)
| OTry2 (lens : list (N * N)) (flags : Z) (addr : nat)  (* uv_udp_try_send2, batch of (bytes, buffers); addr 3 = 1,2 alternating *)
| OConnect (dst : nat)               (* uv_udp_connect(addr of destination dst) *)
| ODisconnect                        (* uv_udp_connect(NULL) *)
| OGet                               (* the two getters and uv_is_active *)
| ORecvStart
| ORecvStop
| OClose
| ORun (kin kout : bool).            (* uv_run(NOWAIT); kernel readiness of the descriptor *)

Inductive part := Whole | Chunk (k : nat).

Inductive event :=
| ESend (id seq : nat) (len : Z) (ret : Z)
| ETry (seq : nat) (len : Z) (ret : Z)
| ETry2 (seq0 : nat) (count : nat) (ret : Z)
| ESys1 (seq : nat) (a : sans)                 (* sendmsg(datagram) = a *)
| ESysN (seqs : list nat) (a : sans)           (* sendmmsg(datagrams) = a *)
| EName (l : list (nat * nat * N))             (* (seq, msg_name, msg_iovlen) of the datagrams passed to uv__udp_sendmsgv / uv__udp_sendmsg1 *)
| EConnect (dst : nat) (ret : Z)
| EDisconnect (ret : Z)
| ECb (id : nat) (status : Z)                  (* send_cb *)
| EGet (size count : Z) (act : bool)
| ERecvStart (ret : Z)
| ERecvStop (ret : Z)
| EAlloc (b : nat) (len : Z)                   (* alloc_cb returned buffer b of len bytes *)
| ERSys (mm : bool) (vlen : Z) (a : rans)      (* recvmsg / recvmmsg(vlen) = a *)
| ERecv (b : nat) (p : part) (nread : Z) (msg : option nat) (flags : Z)   (* recv_cb *)
| EClose
| EClosed
| ERun (kin kout : bool).

Record st := mkSt {
  wq : list req;            (* handle->write_queue *)
  cq : list req;            (* handle->write_completed_queue *)
  sq_size : Z;              (* handle->send_queue_size *)
  sq_count : Z;             (* handle->send_queue_count *)
  processing : bool;        (* UV_HANDLE_UDP_PROCESSING *)
  pin : bool;               (* io_watcher.pevents & POLLIN *)
  pout : bool;              (* io_watcher.pevents & POLLOUT *)
  fed : bool;               (* io_watcher is in loop->pending_queue *)
  active : bool;            (* UV_HANDLE_ACTIVE *)
  closing : bool;           (* UV_HANDLE_CLOSING, io_watcher.fd == -1 *)
  close_pending : bool;     (* handle is in loop->closing_handles *)
  peer : nat;               (* UV_HANDLE_UDP_CONNECTED and to whom: 0 = not connected *)
  mmsg : bool;              (* UV_HANDLE_UDP_RECVMMSG *)
  recving : bool;           (* recv_cb != NULL *)
  next_seq : nat;
  next_id : nat;
  next_buf : nat;
  ncb : nat;                (* send callbacks run so far *)
  nrcb : nat;               (* receive callbacks run so far *)
  os : list sans;           (* oracle: sendmsg/sendmmsg answers *)
  orv : list rans;          (* oracle: recvmsg/recvmmsg answers *)
  allocs : list Z           (* alloc_cb behaviour: the sizes it hands out *)
}.

Definition init (conn mm : bool) (o : list sans) (r : list rans) (al : list Z) : st :=
  mkSt [] [] 0 0 false false false false false false false (if conn then 1%nat else O) mm false
       O O O O O o r al.

(* field updates *)
Definition set_queues (w c : list req) (size count : Z) (s : st) : st :=
  mkSt w c size count (processing s) (pin s) (pout s) (fed s) (active s) (closing s)
       (close_pending s) (peer s) (mmsg s) (recving s) (next_seq s) (next_id s)
       (next_buf s) (ncb s) (nrcb s) (os s) (orv s) (allocs s).
Definition set_processing (b : bool) (s : st) : st :=
  mkSt (wq s) (cq s) (sq_size s) (sq_count s) b (pin s) (pout s) (fed s) (active s) (closing s)
       (close_pending s) (peer s) (mmsg s) (recving s) (next_seq s) (next_id s)
       (next_buf s) (ncb s) (nrcb s) (os s) (orv s) (allocs s).
(* pevents, pending queue membership, handle activity, closing flags *)
Definition set_io (i o f a cl cp : bool) (s : st) : st :=
  mkSt (wq s) (cq s) (sq_size s) (sq_count s) (processing s) i o f a cl
       cp (peer s) (mmsg s) (recving s) (next_seq s) (next_id s)
       (next_buf s) (ncb s) (nrcb s) (os s) (orv s) (allocs s).
Definition set_recving (b : bool) (s : st) : st :=
  mkSt (wq s) (cq s) (sq_size s) (sq_count s) (processing s) (pin s) (pout s) (fed s) (active s)
       (closing s) (close_pending s) (peer s) (mmsg s) b (next_seq s) (next_id s)
       (next_buf s) (ncb s) (nrcb s) (os s) (orv s) (allocs s).
Definition set_ctr (sq id bf c rc : nat) (s : st) : st :=
  mkSt (wq s) (cq s) (sq_size s) (sq_count s) (processing s) (pin s) (pout s) (fed s) (active s)
       (closing s) (close_pending s) (peer s) (mmsg s) (recving s) sq id
       bf c rc (os s) (orv s) (allocs s).
Definition set_os (o : list sans) (s : st) : st :=
  mkSt (wq s) (cq s) (sq_size s) (sq_count s) (processing s) (pin s) (pout s) (fed s) (active s)
       (closing s) (close_pending s) (peer s) (mmsg s) (recving s) (next_seq s) (next_id s)
       (next_buf s) (ncb s) (nrcb s) o (orv s) (allocs s).
Definition set_orv (r : list rans) (al : list Z) (s : st) : st :=
  mkSt (wq s) (cq s) (sq_size s) (sq_count s) (processing s) (pin s) (pout s) (fed s) (active s)
       (closing s) (close_pending s) (peer s) (mmsg s) (recving s) (next_seq s) (next_id s)
       (next_buf s) (ncb s) (nrcb s) (os s) r al.

Definition set_peer (p : nat) (s : st) : st :=
  mkSt (wq s) (cq s) (sq_size s) (sq_count s) (processing s) (pin s) (pout s) (fed s) (active s)
       (closing s) (close_pending s) p (mmsg s) (recving s) (next_seq s) (next_id s)
       (next_buf s) (ncb s) (nrcb s) (os s) (orv s) (allocs s).
Definition connected (s : st) : bool := negb (peer s =? 0)%nat.

Definition set_pout (b : bool) (s : st) : st :=
  set_io (pin s) b (fed s) (active s) (closing s) (close_pending s) s.
Definition set_fed (b : bool) (s : st) : st :=
  set_io (pin s) (pout s) b (active s) (closing s) (close_pending s) s.
Definition set_active (b : bool) (s : st) : st :=
  set_io (pin s) (pout s) (fed s) b (closing s) (close_pending s) s.

(* ------------------------------------------------------------------ *)
(* system calls: "do r = call(); while (r == -1 && errno == EINTR)"    *)
(* An exhausted oracle answers EAGAIN.                                 *)

Definition is_eintr (a : sans) : bool :=
  match a with SErr e => Z.pos e =? EINTR | SRet _ => false end.

Fixpoint send_retry (mk : sans -> event) (o : list sans) : sans * list event * list sans :=
  match o with
  | [] => (SErr 11, [mk (SErr 11)], [])
  | a :: o' =>
      if is_eintr a then
        let '(a', ev, o'') := send_retry mk o' in (a', mk a :: ev, o'')
      else (a, [mk a], o')
  end.

(* r = UV__ERR(errno); if (errno == EAGAIN || errno == EWOULDBLOCK || errno == ENOBUFS) r = UV_EAGAIN *)
Definition map_errno (e : Z) : Z :=
  if (e =? EAGAIN) || (e =? ENOBUFS) then UV_EAGAIN else - e.

(* Kernel contract (part of the OS oracle, not libuv code): a message with more than
   IOV_MAX (UIO_MAXIOV = 1024) buffers is refused with EMSGSIZE; sendmmsg(vlen) takes
   messages in order, so it answers at most the number of leading messages it can accept
   (and at most vlen), or EMSGSIZE when the first one is too long. *)
Definition IOV_MAX : N := 1024.
Definition EMSGSIZE : positive := 90.
Fixpoint okp (m : list dgram) : nat :=
  match m with
  | [] => O
  | d :: r => if (d_nb d <=? IOV_MAX)%N then S (okp r) else O
  end.
Definition clamp (m : list dgram) (a : sans) : sans :=
  match a with
  | SRet r =>
      match m, okp m with
      | _ :: _, O => SErr EMSGSIZE
      | _, k => SRet (N.min r (N.of_nat k))
      end
  | SErr e => SErr e
  end.
Definition clamp1 (d : dgram) (a : sans) : sans :=
  match a with
  | SRet r => if (d_nb d <=? IOV_MAX)%N then SRet r else SErr EMSGSIZE
  | SErr e => SErr e
  end.

(* the "exit:" label of uv__udp_sendmsgv *)
Definition vexit (nsent : Z) (a : sans) : Z :=
  if 0 <? nsent then nsent
  else match a with
       | SRet r => Z.of_N r            (* r == 0 *)
       | SErr e => map_errno (Z.pos e) (* r < 0: re-derived from errno *)
       end.

(* the sendmmsg loop of uv__udp_sendmsgv (count > 1):
     for (i = 0; i < count; ) {
       for (n = 0; i < count && n < 20; i++, n++) prep(m[n], [i]);
       r = sendmmsg(fd, m, n);  if (r < 1) goto exit;
       nsent += r;  i += r;
     }
   With [fx] the preparation reads [i + n] and leaves i alone. *)
Fixpoint chunk_loop (fx : bool) (fuel : nat) (ds : list dgram) (i : nat) (nsent : Z)
                    (o : list sans) : Z * list event * list sans :=
  match fuel with
  | O => (vexit nsent (SRet 0), [], o)
  | S f =>
      if (length ds <=? i)%nat then (vexit nsent (SRet 0), [], o)
      else
        let m := firstn BATCH (skipn i ds) in
        let n := length m in
        let i1 := if fx then i else (i + n)%nat in
        let '(a0, ev, o1) := send_retry (fun a => ESysN (map d_seq m) (clamp m a)) o in
        match clamp m a0 with
        | SErr e => (vexit nsent (SErr e), ev, o1)
        | SRet r =>
            if (r <? 1)%N then (vexit nsent (SRet r), ev, o1)
            else
              let '(res, ev2, o2) :=
                chunk_loop fx f ds (i1 + N.to_nat r)%nat (nsent + Z.of_N r) o1 in
              (res, ev ++ ev2, o2)
        end
  end.

(* uv__udp_sendmsg1: 1 when sent, else the mapped errno *)
Definition sendmsg1 (d : dgram) (o : list sans) : Z * list event * list sans :=
  let '(a, ev, o') := send_retry (fun a => ESys1 (d_seq d) (clamp1 d a)) o in
  (match clamp1 d a with SRet _ => 1 | SErr e => map_errno (Z.pos e) end, ev, o').

(* uv__udp_sendmsgv *)
Definition sendmsgv (fx : bool) (ds : list dgram) (o : list sans) : Z * list event * list sans :=
  match ds with
  | [] => (0, [], o)
  | [d] => sendmsg1 d o      (* for (i = 0; i < count; i++, nsent++) if ((r = sendmsg1())) goto exit; *)
  | _ => chunk_loop fx (S (length ds)) ds O 0 o
  end.

(* ------------------------------------------------------------------ *)
Definition sum_len (l : list req) : Z := fold_right (fun r a => Z.of_N (d_len (q_d r)) + a) 0 l.
Definition with_status (r : req) (st : Z) : req := mkReq (q_id r) (q_d r) st.

(* while (n > 0) { head of write_queue: status = size; move to write_completed_queue; n--; } *)
Definition complete (k : nat) (s : st) : st :=
  set_queues (skipn k (wq s))
             (cq s ++ map (fun r => with_status r (Z.of_N (d_len (q_d r)))) (firstn k (wq s)))
             (sq_size s) (sq_count s) s.

(* req->status = n on the head of write_queue; move it to write_completed_queue *)
Definition fail_head (n : Z) (s : st) : st :=
  match wq s with
  | [] => s
  | r :: w => set_queues w (cq s ++ [with_status r n]) (sq_size s) (sq_count s) s
  end.

(* uv__udp_sendmsg from the label "again" *)
Fixpoint sendmsg_loop (fx : bool) (fuel : nat) (s : st) : st * list event :=
  match fuel with
  | O => (s, [])
  | S f =>
      let batch := firstn BATCH (wq s) in
      let '(n, ev0, o') := sendmsgv fx (map q_d batch) (os s) in
      let ev := EName (map (fun r => (d_seq (q_d r), d_dst (q_d r), d_nb (q_d r))) batch) :: ev0 in
      let s1 := set_os o' s in
      if 0 <? n then
        let s2 := complete (Z.to_nat n) s1 in
        match wq s2 with
        | [] => (set_fed true s2, ev)                          (* goto feed *)
        | _ => let '(s3, ev') := sendmsg_loop fx f s2 in (s3, ev ++ ev')   (* goto again *)
        end
      else if n =? 0 then
        let '(s3, ev') := sendmsg_loop fx f s1 in (s3, ev ++ ev')
      else if n =? UV_EAGAIN then (s1, ev)
      else (set_fed true (fail_head n s1), ev)
  end.

Definition udp_sendmsg (fx : bool) (s : st) : st * list event :=
  match wq s with
  | [] => (s, [])
  | _ => sendmsg_loop fx (S (length (os s))) s
  end.

(* uv__udp_check_before_send: < 0 is an error *)
Definition check_before_send (s : st) (addr : nat) : Z :=
  let given := negb (addr =? 0)%nat in
  if given && connected s then UV_EISCONN
  else if negb given && negb (connected s) then UV_EDESTADDRREQ
  else 0.

Definition bump_seq (k : nat) (s : st) : st :=
  set_ctr (next_seq s + k) (next_id s) (next_buf s) (ncb s) (nrcb s) s.
Definition bump_id (s : st) : st :=
  set_ctr (next_seq s) (S (next_id s)) (next_buf s) (ncb s) (nrcb s) s.

(* uv_udp_send; every call uses up one request id and one sequence number.  The event of
   the call is put in front of the system calls it makes (its result is known by then:
   past the entry check uv__udp_send returns 0). *)
Definition udp_send (fx : bool) (s : st) (len : N) (addr : nat) (nb : N) : st * list event :=
  let id := next_id s in
  let seq := next_seq s in
  let s0 := bump_id (bump_seq 1 s) in
  let c := check_before_send s addr in
  if c <? 0 then (s0, [ESend id seq (Z.of_N len) c])
  else
    let empty_queue := sq_count s0 =? 0 in
    let s1 := set_active true
                (set_queues (wq s0 ++ [mkReq id (mkD seq len addr nb) 0]) (cq s0)
                            (sq_size s0 + Z.of_N len) (sq_count s0 + 1) s0) in
    if empty_queue && negb (processing s1) then
      let '(s2, ev) := udp_sendmsg fx s1 in
      let s3 := match wq s2 with [] => s2 | _ => set_pout true s2 end in
      (s3, ESend id seq (Z.of_N len) 0 :: ev)
    else (set_pout true s1, [ESend id seq (Z.of_N len) 0]).

(* uv_udp_try_send *)
Definition udp_try_send (s : st) (len : N) (addr : nat) (nb : N) : st * list event :=
  let seq := next_seq s in
  let s0 := bump_seq 1 s in
  let c := check_before_send s addr in
  if c <? 0 then (s0, [ETry seq (Z.of_N len) c])
  else if negb (sq_count s0 =? 0) then (s0, [ETry seq (Z.of_N len) UV_EAGAIN])
  else
    let '(r, ev, o') := sendmsg1 (mkD seq len addr nb) (os s0) in
    (set_os o' s0, EName [(seq, addr, nb)] :: ev ++ [ETry seq (Z.of_N len) (if 0 <? r then Z.of_N len else r)]).

Fixpoint mk_batch (seq : nat) (addr : nat) (lens : list (N * N)) : list dgram :=
  match lens with
  | [] => []
  | l :: ls => mkD seq (fst l) (if (addr =? 3)%nat then S (seq mod 2) else addr) (snd l)
               :: mk_batch (S seq) addr ls
  end.

(* uv_udp_try_send2 *)
Definition udp_try_send2 (fx : bool) (s : st) (lens : list (N * N)) (flags : Z) (addr : nat) : st * list event :=
  let seq0 := next_seq s in
  let count := length lens in
  let s0 := bump_seq count s in
  if (count <? 1)%nat then (s0, [ETry2 seq0 count UV_EINVAL])
  else if negb (flags =? 0) then (s0, [ETry2 seq0 count UV_EINVAL])
  else if 0 <? sq_count s0 then (s0, [ETry2 seq0 count UV_EAGAIN])
  else
    let '(r, ev, o') := sendmsgv fx (mk_batch seq0 addr lens) (os s0) in
    (set_os o' s0, EName (map (fun d => (d_seq d, d_dst d, d_nb d)) (mk_batch seq0 addr lens)) :: ev ++ [ETry2 seq0 count r]).

(* uv__udp_recv_start *)
Definition recv_start (s : st) : st * list event :=
  if pin s then (s, [ERecvStart UV_EALREADY])
  else (set_recving true (set_io true (pout s) (fed s) true (closing s) (close_pending s) s),
        [ERecvStart 0]).

(* uv__udp_recv_stop *)
Definition recv_stop (s : st) : st * list event :=
  let a := if pout s then active s else false in
  (set_recving false (set_io false (pout s) (fed s) a (closing s) (close_pending s) s),
   [ERecvStop 0]).

(* uv_udp_connect with an address: UV_EISCONN when connected, else connect(2) (which does
   not fail on loopback; not an oracle) *)
Definition UV_ENOTCONN : Z := -107.
Definition udp_connect (s : st) (dst : nat) : st * list event :=
  if connected s then (s, [EConnect dst UV_EISCONN])
  else (set_peer dst s, [EConnect dst 0]).

(* uv_udp_connect(NULL): uv__udp_disconnect *)
Definition udp_disconnect (s : st) : st * list event :=
  if connected s then (set_peer O s, [EDisconnect 0])
  else (s, [EDisconnect UV_ENOTCONN]).

(* uv_close: uv__udp_close (uv__io_close, uv__handle_stop, close the descriptor),
   uv__make_close_pending *)
Definition udp_close (s : st) : st * list event :=
  (set_io false false false false true true s, [EClose]).

(* an API call; nothing here runs a callback.  A closing handle only answers getters. *)
Definition api (fx : bool) (s : st) (o : op) : st * list event :=
  match o with
  | OGet => (s, [EGet (sq_size s) (sq_count s) (active s)])
  | ORun _ _ => (s, [])
  | _ =>
    if closing s then (s, []) else
    match o with
    | OSend len addr nb => udp_send fx s len addr nb
    | OTry len addr nb => udp_try_send s len addr nb
    | OTry2 lens flags addr => udp_try_send2 fx s lens flags addr
    | OConnect dst => udp_connect s dst
    | ODisconnect => udp_disconnect s
    | ORecvStart => recv_start s
    | ORecvStop => recv_stop s
    | OClose => udp_close s
    | _ => (s, [])
    end
  end.

Fixpoint apis (fx : bool) (s : st) (l : list op) : st * list event :=
  match l with
  | [] => (s, [])
  | o :: l' => let '(s1, e1) := api fx s o in
               let '(s2, e2) := apis fx s1 l' in (s2, e1 ++ e2)
  end.

(* ------------------------------------------------------------------ *)
(* uv__udp_run_completed.  Callbacks cannot add to write_completed_queue
   (PROCESSING keeps uv__udp_send from sending), so the loop runs at most
   length(cq) times. *)
Fixpoint completed_loop (fx : bool) (fuel : nat) (beh : nat -> list op) (s : st)
  : st * list event :=
  match fuel with
  | O => (s, [])
  | S f =>
      match cq s with
      | [] => (s, [])
      | r :: c =>
          let s1 := set_queues (wq s) c (sq_size s - Z.of_N (d_len (q_d r))) (sq_count s - 1) s in
          let k := ncb s1 in
          let s2 := set_ctr (next_seq s1) (next_id s1) (next_buf s1) (S k) (nrcb s1) s1 in
          let status := if 0 <=? q_status r then 0 else q_status r in
          let '(s3, ev) := apis fx s2 (beh k) in
          let '(s4, ev') := completed_loop fx f beh s3 in
          (s4, ECb (q_id r) status :: ev ++ ev')
      end
  end.

Definition run_completed (fx : bool) (beh : nat -> list op) (s : st) : st * list event :=
  let s0 := set_processing true s in
  let '(s1, ev) := completed_loop fx (length (cq s0)) beh s0 in
  let s2 :=
    match wq s1 with
    | [] =>
        (* uv__io_stop(POLLOUT) returns at once when fd == -1 *)
        if closing s1 then s1
        else set_io (pin s1) false (fed s1) (if pin s1 then active s1 else false)
                    (closing s1) (close_pending s1) s1
    | _ => s1
    end in
  (set_processing false s2, ev).

(* ------------------------------------------------------------------ *)
(* receive side *)
Fixpoint recv_retry (mk : rans -> event) (o : list rans) : rans * list event * list rans :=
  match o with
  | [] => (RErr EAGAIN, [mk (RErr EAGAIN)], [])
  | a :: o' =>
      match a with
      | RErr e => if e =? EINTR then
                    let '(a', ev, o'') := recv_retry mk o' in (a', mk a :: ev, o'')
                  else (a, [mk a], o')
      | _ => (a, [mk a], o')
      end
  end.

(* one recv_cb invocation: the event, then what the callback does *)
Definition recv_cb (fx : bool) (rbeh : nat -> bool -> list op) (s : st)
                   (b : nat) (p : part) (nread : Z) (msg : option nat) (flags : Z)
  : st * list event :=
  let k := nrcb s in
  let s1 := set_ctr (next_seq s) (next_id s) (next_buf s) (ncb s) (S k) s in
  let '(s2, ev) := apis fx s1 (rbeh k (match p with Chunk _ => true | Whole => false end)) in
  (s2, ERecv b p nread msg flags :: ev).

Definition msg_flags (m : rmsg) : Z := if m_trunc m then UV_UDP_PARTIAL else 0.

(* for (k = 0; k < nread && handle->recv_cb != NULL; k++) recv_cb(chunk k) *)
Fixpoint chunk_cbs (fx : bool) (rbeh : nat -> bool -> list op) (s : st) (b : nat) (k : nat)
                   (ms : list rmsg) : st * list event :=
  match ms with
  | [] => (s, [])
  | m :: ms' =>
      if recving s then
        let '(s1, e1) := recv_cb fx rbeh s b (Chunk k) (m_len m) (Some (m_id m))
                                 (UV_UDP_MMSG_CHUNK + msg_flags m) in
        let '(s2, e2) := chunk_cbs fx rbeh s1 b (S k) ms' in
        (s2, e1 ++ e2)
      else (s, [])
  end.

(* kernel contract: recvmsg answers one message, recvmmsg(vlen) at most vlen *)
Definition rclamp (n : nat) (a : rans) : rans :=
  match a with RMsgs l => RMsgs (firstn n l) | RErr e => RErr e end.

(* uv__udp_recvmmsg; the result is nread (-1 for an error) *)
Definition udp_recvmmsg (fx : bool) (rbeh : nat -> bool -> list op) (s : st) (b : nat) (len : Z)
  : st * list event * Z :=
  let chunks0 := len / DGRAM_MAXSIZE in
  let chunks := if Z.of_nat BATCH <? chunks0 then Z.of_nat BATCH else chunks0 in
  let '(a0, ev, o') :=
    recv_retry (fun a => ERSys true chunks (rclamp (Z.to_nat chunks) a)) (orv s) in
  let s1 := set_orv o' (allocs s) s in
  match rclamp (Z.to_nat chunks) a0 with
  | RErr e =>
      let '(s2, e2) := recv_cb fx rbeh s1 b Whole (if e =? EAGAIN then 0 else - e) None 0 in
      (s2, ev ++ e2, -1)
  | RMsgs [] =>
      let '(s2, e2) := recv_cb fx rbeh s1 b Whole 0 None 0 in
      (s2, ev ++ e2, 0)
  | RMsgs ms =>
      let '(s2, e2) := chunk_cbs fx rbeh s1 b O ms in
      let '(s3, e3) :=
        if recving s2 then recv_cb fx rbeh s2 b Whole 0 None UV_UDP_MMSG_FREE
        else (s2, []) in
      (s3, ev ++ e2 ++ e3, Z.of_nat (length ms))
  end.

(* one pass through the body of the do { } while of uv__udp_recvmsg with buffer b of
   len bytes: the state, the events, nread (-1 = error) and what is left of the budget *)
Definition recv_round (fx : bool) (rbeh : nat -> bool -> list op) (s0 : st) (b : nat)
                      (len count : Z) : st * list event * Z * Z :=
  if mmsg s0 then
    let '(s1, e1, nread) := udp_recvmmsg fx rbeh s0 b len in
    (s1, e1, nread, if 0 <? nread then count - nread else count)
  else
    let '(a0, e0, o') := recv_retry (fun a => ERSys false 1 (rclamp 1 a)) (orv s0) in
    let s1 := set_orv o' (allocs s0) s0 in
    match rclamp 1 a0 with
    | RMsgs (m :: _) =>
        let '(s2, e2) := recv_cb fx rbeh s1 b Whole (m_len m) (Some (m_id m)) (msg_flags m) in
        (s2, e0 ++ e2, m_len m, count - 1)
    | RMsgs [] =>      (* not a recvmsg answer; treated as EAGAIN *)
        let '(s2, e2) := recv_cb fx rbeh s1 b Whole 0 None 0 in
        (s2, e0 ++ e2, -1, count - 1)
    | RErr e =>
        let '(s2, e2) := recv_cb fx rbeh s1 b Whole (if e =? EAGAIN then 0 else - e) None 0 in
        (s2, e0 ++ e2, -1, count - 1)
    end.

(* the do { } while of uv__udp_recvmsg; [count] is the budget *)
Fixpoint recvmsg_loop (fx : bool) (fuel : nat) (rbeh : nat -> bool -> list op) (s : st)
                      (count : Z) : st * list event :=
  match fuel with
  | O => (s, [])
  | S f =>
      let len := match allocs s with [] => 0 | l :: _ => l end in
      let b := next_buf s in
      let s0 := set_ctr (next_seq s) (next_id s) (S b) (ncb s) (nrcb s)
                        (set_orv (orv s) (tl (allocs s)) s) in
      if len <=? 0 then
        let '(s1, e1) := recv_cb fx rbeh s0 b Whole UV_ENOBUFS None 0 in
        (s1, EAlloc b len :: e1)
      else
        let '(s2, ev, nread, count') := recv_round fx rbeh s0 b len count in
        if negb (nread =? -1) && (0 <? count') && negb (closing s2) && recving s2 then
          let '(s3, ev') := recvmsg_loop fx f rbeh s2 count' in
          (s3, EAlloc b len :: ev ++ ev')
        else (s2, EAlloc b len :: ev)
  end.

Definition udp_recvmsg (fx : bool) (rbeh : nat -> bool -> list op) (s : st) : st * list event :=
  if recving s then recvmsg_loop fx (S (length (orv s))) rbeh s 32
  else (s, []).            (* assert(handle->recv_cb != NULL) *)

(* ------------------------------------------------------------------ *)
(* uv__udp_io *)
Definition udp_io (fx : bool) (beh : nat -> list op) (rbeh : nat -> bool -> list op)
                  (s : st) (rin rout : bool) : st * list event :=
  let '(s1, e1) := if rin then udp_recvmsg fx rbeh s else (s, []) in
  if rout && negb (closing s1) then
    let '(s2, e2) := udp_sendmsg fx s1 in
    let '(s3, e3) := run_completed fx beh s2 in
    (s3, e1 ++ e2 ++ e3)
  else (s1, e1).

(* uv__run_pending, as often as uv_run repeats it *)
Fixpoint pending (fx : bool) (n : nat) (beh : nat -> list op) (rbeh : nat -> bool -> list op)
                 (s : st) : st * list event :=
  match n with
  | O => (s, [])
  | S n' =>
      if fed s then
        let '(s1, e1) := udp_io fx beh rbeh (set_fed false s) false true in
        let '(s2, e2) := pending fx n' beh rbeh s1 in
        (s2, e1 ++ e2)
      else (s, [])
  end.

(* uv__udp_finish_close *)
Definition finish_close (fx : bool) (beh : nat -> list op) (s : st) : st * list event :=
  let s1 := set_queues [] (cq s ++ map (fun r => with_status r UV_ECANCELED) (wq s))
                       (sq_size s) (sq_count s) s in
  let '(s2, ev) := run_completed fx beh s1 in
  (set_recving false s2, ev ++ [EClosed]).

(* one uv_run(loop, UV_RUN_NOWAIT) with the loop alive: pending, poll, pending (up to 8
   times), closing handles *)
Definition run_once (fx : bool) (beh : nat -> list op) (rbeh : nat -> bool -> list op)
                    (s : st) (kin kout : bool) : st * list event :=
  let '(s1, e1) := pending fx 1 beh rbeh s in
  let rin := kin && pin s1 in
  let rout := kout && pout s1 in
  let '(s2, e2) := if rin || rout then udp_io fx beh rbeh s1 rin rout else (s1, []) in
  let '(s3, e3) := pending fx 8 beh rbeh s2 in
  let '(s4, e4) :=
    if close_pending s3 then
      finish_close fx beh (set_io (pin s3) (pout s3) (fed s3) (active s3) (closing s3) false s3)
    else (s3, []) in
  (s4, ERun kin kout :: e1 ++ e2 ++ e3 ++ e4).

Fixpoint run (fx : bool) (beh : nat -> list op) (rbeh : nat -> bool -> list op)
             (s : st) (l : list op) : st * list event :=
  match l with
  | [] => (s, [])
  | ORun kin kout :: l' =>
      let '(s1, e1) := run_once fx beh rbeh s kin kout in
      let '(s2, e2) := run fx beh rbeh s1 l' in (s2, e1 ++ e2)
  | o :: l' =>
      let '(s1, e1) := api fx s o in
      let '(s2, e2) := run fx beh rbeh s1 l' in (s2, e1 ++ e2)
  end.

(* ------------------------------------------------------------------ *)
(* What a trace says was handed to the OS. *)
Definition handed_by (e : event) : list nat :=
  match e with
  | ESys1 seq (SRet _) => [seq]
  | ESysN seqs (SRet r) => firstn (N.to_nat r) seqs
  | _ => []
  end.
Definition handed (tr : list event) : list nat := flat_map handed_by tr.

(* Who receives what, according to a trace: a datagram handed over with msg_name a goes to
   destination a, with msg_name NULL (0) to the peer the handle is connected to at that
   moment.  [names] is the latest EName. *)
Fixpoint name_of (seq : nat) (names : list (nat * nat * N)) : nat :=
  match names with
  | [] => O
  | (sq, a, _) :: r => if (sq =? seq)%nat then a else name_of seq r
  end.
Fixpoint delivered (pr : nat) (names : list (nat * nat * N)) (tr : list event) : list (nat * nat) :=
  match tr with
  | [] => []
  | e :: t =>
      match e with
      | EConnect dst ret => delivered (if ret =? 0 then dst else pr) names t
      | EDisconnect ret => delivered (if ret =? 0 then O else pr) names t
      | EName l => delivered pr l t
      | _ =>
          map (fun sq => (sq, let a := name_of sq names in if (a =? 0)%nat then pr else a)) (handed_by e)
          ++ delivered pr names t
      end
  end.

(* ------------------------------------------------------------------ *)
(* The monitors: decidable predicates on traces.  [mon] watches the send side,
   [bmon] the buffers of the receive side. *)
Record mon := mkMon {
  m_owed : list (nat * nat * Z);   (* accepted by uv_udp_send, callback not seen yet: id, seq, bytes *)
  m_next : nat;                    (* request ids are handed out in increasing order *)
  m_hand : list nat;               (* sequence numbers handed to the OS, latest first *)
  m_errs : list (nat * Z);         (* (seq, uv error) for the first datagram of a failed call *)
  m_closed : bool
}.

Definition mon0 : mon := mkMon [] O [] [] false.

Definition newer (hs : list nat) (seq : nat) : bool :=
  match hs with [] => true | h :: _ => (h <? seq)%nat end.

Fixpoint hand_all (hs : list nat) (seqs : list nat) : option (list nat) :=
  match seqs with
  | [] => Some hs
  | x :: r => if newer hs x then hand_all (x :: hs) r else None
  end.

Definition real_err (e : Z) : bool :=
  negb ((e =? EINTR) || (e =? EAGAIN) || (e =? ENOBUFS)).

Definition okey : Type := (nat * nat * Z)%type.
Fixpoint find_owed (id : nat) (l : list okey) : option (nat * Z) :=
  match l with
  | [] => None
  | (i, sq, ln) :: r => if (i =? id)%nat then Some (sq, ln) else find_owed id r
  end.
Definition drop_owed (id : nat) (l : list okey) : list okey :=
  filter (fun x => negb (fst (fst x) =? id)%nat) l.
Definition owed_bytes (l : list okey) : Z := fold_right (fun x a => snd x + a) 0 l.

Definition mem_nat (x : nat) (l : list nat) : bool := existsb (Nat.eqb x) l.
Definition mem_err (x : nat) (st : Z) (l : list (nat * Z)) : bool :=
  existsb (fun p => (fst p =? x)%nat && (snd p =? st)) l.

Definition mon_sys (m : mon) (seqs : list nat) (a : sans) : option mon :=
  match a with
  | SRet r =>
      match hand_all (m_hand m) (firstn (N.to_nat r) seqs) with
      | Some hs => Some (mkMon (m_owed m) (m_next m) hs (m_errs m) (m_closed m))
      | None => None
      end
  | SErr e =>
      if real_err (Z.pos e) then
        match seqs with
        | x :: _ => Some (mkMon (m_owed m) (m_next m) (m_hand m) ((x, - Z.pos e) :: m_errs m)
                                (m_closed m))
        | [] => Some m
        end
      else Some m
  end.

Definition cb_ok (m : mon) (seq : nat) (status : Z) : bool :=
  if mem_nat seq (m_hand m) then status =? 0
  else negb (status =? 0) &&
       (mem_err seq status (m_errs m) || ((status =? UV_ECANCELED) && m_closed m)).

Definition mon_step (m : mon) (e : event) : option mon :=
  match e with
  | ESend id seq len ret =>
      if ret =? 0 then
        if (m_next m <=? id)%nat then
          Some (mkMon (m_owed m ++ [(id, seq, len)]) (S id) (m_hand m) (m_errs m) (m_closed m))
        else None
      else Some m
  | ESys1 seq a => mon_sys m [seq] (match a with SRet _ => SRet 1 | _ => a end)
  | ESysN seqs a => mon_sys m seqs a
  | ECb id status =>
      match find_owed id (m_owed m) with
      | None => None
      | Some (seq, _) =>
          if cb_ok m seq status
          then Some (mkMon (drop_owed id (m_owed m)) (m_next m) (m_hand m) (m_errs m) (m_closed m))
          else None
      end
  | EGet size count _ =>
      if (count =? Z.of_nat (length (m_owed m))) && (size =? owed_bytes (m_owed m))
      then Some m else None
  | EClose => Some (mkMon (m_owed m) (m_next m) (m_hand m) (m_errs m) true)
  | EClosed => match m_owed m with [] => Some m | _ => None end
  | _ => Some m
  end.

Fixpoint mon_run (m : mon) (tr : list event) : option mon :=
  match tr with
  | [] => Some m
  | e :: tr' => match mon_step m e with
                | Some m' => mon_run m' tr'
                | None => None
                end
  end.

(* buffers: the one alloc_cb handed out and recv_cb has not handed back
   (id, chunk callbacks seen, uv_udp_recv_stop seen in a chunk callback), next id *)
Definition bmon : Type := (option (nat * bool * bool) * nat)%type.
Definition bmon0 : bmon := (None, O).

Definition has_flag (flags f : Z) : bool := Z.odd (flags / f).

Definition bmon_step (m : bmon) (e : event) : option bmon :=
  let '(cur, nb) := m in
  match e with
  | EAlloc b _ =>
      match cur with
      | None => if (nb <=? b)%nat then Some (Some (b, false, false), S b) else None
      | Some (_, _, stopped) =>
          (* a buffer may be left behind only after uv_udp_recv_stop in a chunk callback *)
          if stopped && (nb <=? b)%nat then Some (Some (b, false, false), S b) else None
      end
  | ERecv b p _ _ flags =>
      match cur with
      | Some (b', chunks, stopped) =>
          if (b =? b')%nat then
            match p with
            | Chunk _ =>
                if has_flag flags UV_UDP_MMSG_CHUNK then Some (Some (b', true, stopped), nb) else None
            | Whole =>
                (* handed back; after chunk callbacks only as UV_UDP_MMSG_FREE *)
                if negb (has_flag flags UV_UDP_MMSG_CHUNK) &&
                   (negb chunks || has_flag flags UV_UDP_MMSG_FREE)
                then Some (None, nb) else None
            end
          else None
      | None => None
      end
  | ERecvStop _ =>
      match cur with
      | Some (b, true, _) => Some (Some (b, true, true), nb)
      | _ => Some m
      end
  | _ => Some m
  end.

Fixpoint bmon_run (m : bmon) (tr : list event) : option bmon :=
  match tr with
  | [] => Some m
  | e :: tr' => match bmon_step m e with
                | Some m' => bmon_run m' tr'
                | None => None
                end
  end.

Definition accepts (tr : list event) : bool :=
  match mon_run mon0 tr, bmon_run bmon0 tr with
  | Some _, Some _ => true
  | _, _ => false
  end.
