(* C08 - thread pool (src/threadpool.c).  Interleaving semantics.

   Threads: tids 0 .. nloops-1 are loop threads (one per uv_loop_t, each running the
   script of its loop), tids nloops .. nloops+nthreads-1 are the pool workers.

   One step of a thread = the code from the blocking point it is parked at up to the
   next blocking point.  Blocking points are: every uv_mutex_lock (of the pool's
   global mutex or a loop's wq_mutex), the wake-up inside uv_cond_wait, and the poll
   of uv_run (loop threads).  So a step is one critical section (two for the short
   nested ones of uv__work_cancel) plus the unprotected code behind it.  Every
   synchronisation call made inside the step is recorded in the trace (ESync), so the
   run can be compared call by call with the real library.

   All shared variables of threadpool.c are only touched with the protecting mutex
   held, so this granularity loses no interleaving of the shared state.  The one
   unprotected write, w->work = uv__cancelled in uv__work_cancel, happens after the
   item has been unlinked under both mutexes (state Limbo).

   r_work / the queues are the C data; r_st is a ghost field (where the request is)
   that no decision of the model reads - except the validity test of a script's
   cancel operation (a request that already had its callback must not be touched:
   its memory belongs to the user again). *)
From UV Require Import Lib.Base.

Inductive kind := KCpu | KFast | KSlow.   (* UV__WORK_CPU, UV__WORK_FAST_IO, UV__WORK_SLOW_IO *)
Inductive item := IWork (r : nat) | ISlowMsg | IExit.
Inductive wfield := WFn | WNull | WCancelled.          (* w->work *)
Inductive rstate :=
| RFree | Queued | Running (w : nat) | Finished | Limbo | Cancelled | Done (status : Z).
Record req := mkReq { r_loop : nat; r_kind : kind; r_work : wfield; r_st : rstate }.

(* script of a loop thread; callbacks run scripts too (ORun is skipped there).  uv__work_done
   never looks at stop_flag: every entry of the detached batch gets its callback in that call;
   uv_stop only makes the next top-level uv_run return without an iteration. *)
Inductive op := OSubmit (k : kind) | OCancel (r : nat) | ORun | OStop.   (* OStop = uv_stop(loop) *)

Inductive wpc :=
| WRelock (slow : bool)        (* parked at uv_mutex_lock(&mutex), line 66 / 134 *)
| WWait (sg : bool)            (* inside uv_cond_wait, line 77; sg = signalled *)
| WRun (r : nat) (slow : bool) (* work returned; parked at uv_mutex_lock(&w->loop->wq_mutex), line 125 *)
| WExited.

Inductive lpc :=
| LReady                       (* parked at the first blocking point of the current operation *)
| LCancel2 (r : nat)           (* uv__work_cancel: holds mutex, parked at lock(&w->loop->wq_mutex), line 287 *)
| LCancel3 (r : nat)           (* uv__work_cancel: parked at lock(&loop->wq_mutex), line 300 *)
| LWorkDone                    (* uv__work_done: parked at lock(&loop->wq_mutex), line 318 *)
| LDrain                       (* script finished, requests outstanding: blocked in the poll of uv_run *)
| LEnd.

Record loopst := mkLoop {
  l_wq : list nat;             (* loop->wq *)
  l_local : list nat;          (* the local queue of the running uv__work_done *)
  l_pending : bool;            (* loop->wq_async sent and not yet dispatched *)
  l_active : nat;              (* loop->active_reqs.count *)
  l_prog : list op;
  l_cb : list op;              (* rest of the callback being executed *)
  l_in_done : bool;
  l_pc : lpc;
  l_stop : bool                (* loop->stop_flag *)
}.

Inductive sync :=
| SLock | SUnlock | SLockQ (l : nat) | SUnlockQ (l : nat)
| SWait | SWake | SSignal | SPoll | SNop | SStop.

Inductive event :=
| ESync (t : nat) (o : sync)
| ESubmit (r l : nat) (k : kind)
| EWork (r t : nat)                    (* the work function of r ran on thread t *)
| EDone (r t : nat) (status : Z)       (* the completion callback of r ran on thread t *)
| ECancel (r t : nat) (code : Z)       (* uv_cancel(r) returned code on thread t *)
| EAlive (t : nat) (b : bool).         (* uv_run returned b on loop thread t *)

Record config := mkCfg { c_n : nat; c_loops : nat; c_beh : nat -> list op }.

Record state := mkSt {
  wq : list item;              (* static wq *)
  sp : list nat;               (* slow_io_pending_wq *)
  running : nat;               (* slow_io_work_running *)
  idle : nat;                  (* idle_threads *)
  gmutex : option nat;         (* owner of the static mutex when held across a blocking point *)
  nreq : nat;
  reqs : nat -> req;
  wk : nat -> wpc;
  lp : nat -> loopst;
  trace : list event           (* newest first *)
}.

Definition UV_ECANCELED : Z := (-125)%Z.
Definition UV_EBUSY : Z := (-16)%Z.

Definition updf {A} (f : nat -> A) (i : nat) (v : A) : nat -> A :=
  fun j => if Nat.eqb j i then v else f j.

Definition set_wq s v := mkSt v (sp s) (running s) (idle s) (gmutex s) (nreq s) (reqs s) (wk s) (lp s) (trace s).
Definition set_sp s v := mkSt (wq s) v (running s) (idle s) (gmutex s) (nreq s) (reqs s) (wk s) (lp s) (trace s).
Definition set_running s v := mkSt (wq s) (sp s) v (idle s) (gmutex s) (nreq s) (reqs s) (wk s) (lp s) (trace s).
Definition set_idle s v := mkSt (wq s) (sp s) (running s) v (gmutex s) (nreq s) (reqs s) (wk s) (lp s) (trace s).
Definition set_gmutex s v := mkSt (wq s) (sp s) (running s) (idle s) v (nreq s) (reqs s) (wk s) (lp s) (trace s).
Definition set_nreq s v := mkSt (wq s) (sp s) (running s) (idle s) (gmutex s) v (reqs s) (wk s) (lp s) (trace s).
Definition set_reqs s v := mkSt (wq s) (sp s) (running s) (idle s) (gmutex s) (nreq s) v (wk s) (lp s) (trace s).
Definition set_wk s v := mkSt (wq s) (sp s) (running s) (idle s) (gmutex s) (nreq s) (reqs s) v (lp s) (trace s).
Definition set_lp s v := mkSt (wq s) (sp s) (running s) (idle s) (gmutex s) (nreq s) (reqs s) (wk s) v (trace s).
Definition emit s e := mkSt (wq s) (sp s) (running s) (idle s) (gmutex s) (nreq s) (reqs s) (wk s) (lp s) (e :: trace s).

Definition set_worker s w p := set_wk s (updf (wk s) w p).
Definition set_loop s l v := set_lp s (updf (lp s) l v).
Definition set_req s r v := set_reqs s (updf (reqs s) r v).
Definition set_rst s r st :=
  let q := reqs s r in set_req s r (mkReq (r_loop q) (r_kind q) (r_work q) st).
Definition set_rwork s r wf :=
  let q := reqs s r in set_req s r (mkReq (r_loop q) (r_kind q) wf (r_st q)).

Definition lset_wq (x : loopst) v := mkLoop v (l_local x) (l_pending x) (l_active x) (l_prog x) (l_cb x) (l_in_done x) (l_pc x) (l_stop x).
Definition lset_local (x : loopst) v := mkLoop (l_wq x) v (l_pending x) (l_active x) (l_prog x) (l_cb x) (l_in_done x) (l_pc x) (l_stop x).
Definition lset_pending (x : loopst) v := mkLoop (l_wq x) (l_local x) v (l_active x) (l_prog x) (l_cb x) (l_in_done x) (l_pc x) (l_stop x).
Definition lset_active (x : loopst) v := mkLoop (l_wq x) (l_local x) (l_pending x) v (l_prog x) (l_cb x) (l_in_done x) (l_pc x) (l_stop x).
Definition lset_prog (x : loopst) v := mkLoop (l_wq x) (l_local x) (l_pending x) (l_active x) v (l_cb x) (l_in_done x) (l_pc x) (l_stop x).
Definition lset_cb (x : loopst) v := mkLoop (l_wq x) (l_local x) (l_pending x) (l_active x) (l_prog x) v (l_in_done x) (l_pc x) (l_stop x).
Definition lset_in_done (x : loopst) v := mkLoop (l_wq x) (l_local x) (l_pending x) (l_active x) (l_prog x) (l_cb x) v (l_pc x) (l_stop x).
Definition lset_pc (x : loopst) v := mkLoop (l_wq x) (l_local x) (l_pending x) (l_active x) (l_prog x) (l_cb x) (l_in_done x) v (l_stop x).
Definition lset_stop (x : loopst) v := mkLoop (l_wq x) (l_local x) (l_pending x) (l_active x) (l_prog x) (l_cb x) (l_in_done x) (l_pc x) v.

Definition sync_ev s t o := emit s (ESync t o).

(* slow_work_thread_threshold(), line 45 *)
Definition threshold (n : nat) : nat := (n + 1) / 2.

(* ------------------------------------------------------------------ *)
(* uv_cond_signal(&cond): wake the (aux mod k)-th of the k threads that are inside
   uv_cond_wait and not yet signalled; nothing happens when there is none. *)
Definition unsignalled (p : wpc) : bool := match p with WWait false => true | _ => false end.
Definition waiters (n : nat) (f : nat -> wpc) : list nat :=
  filter (fun i => unsignalled (f i)) (seq 0 n).
Definition signal (c : config) (t aux : nat) (s : state) : state :=
  let s := sync_ev s t SSignal in
  match waiters (c_n c) (wk s) with
  | [] => s
  | ws => set_worker s (nth (Nat.modulo aux (length ws)) ws 0) (WWait true)
  end.
Definition signal_if_idle (c : config) (t aux : nat) (s : state) : state :=
  if Nat.ltb 0 (idle s) then signal c t aux s else s.

(* ------------------------------------------------------------------ *)
(* worker(), lines 67-120, entered with the mutex held by worker w (tid t). *)
Definition is_marker (i : item) : bool := match i with ISlowMsg => true | _ => false end.
Definition has_marker (q : list item) : bool := existsb is_marker q.

(* the while condition of lines 72-75 *)
Definition wait_pred (c : config) (s : state) : bool :=
  match wq s with
  | [] => true
  | [ISlowMsg] => Nat.leb (threshold (c_n c)) (running s)
  | _ => false
  end.

(* lines 120-123: unlock, run the work function; then park at line 125 *)
Definition start_work (t w r : nat) (slow : bool) (s : state) : state :=
  let s := sync_ev s t SUnlock in
  let s := set_rst s r (Running w) in
  let s := emit s (EWork r t) in
  set_worker s w (WRun r slow).

Fixpoint wloop (fuel : nat) (c : config) (t w aux : nat) (s : state) : state :=
  if wait_pred c s then
    (* idle_threads += 1; uv_cond_wait *)
    set_worker (sync_ev (set_idle s (S (idle s))) t SWait) w (WWait false)
  else
    match fuel with
    | O => set_worker (sync_ev s t SUnlock) w (WRelock false)   (* not reached, see wloop_fuel *)
    | S fuel' =>
      match wq s with
      | [] => s
      | IExit :: _ =>                                   (* lines 82-86 *)
          set_worker (sync_ev (signal c t aux s) t SUnlock) w WExited
      | IWork r :: rest => start_work t w r false (set_wq s rest)
      | ISlowMsg :: rest =>
          if Nat.leb (threshold (c_n c)) (running s) then          (* lines 95-98 *)
            wloop fuel' c t w aux (set_wq s (rest ++ [ISlowMsg]))
          else
            match sp s with
            | [] => wloop fuel' c t w aux (set_wq s rest)         (* lines 102-103 *)
            | r :: sp' =>
                let s := set_running (set_wq s rest) (S (running s)) in
                let s := set_sp s sp' in
                let s := match sp' with
                         | [] => s
                         | _ => signal_if_idle c t aux (set_wq s (wq s ++ [ISlowMsg]))  (* 113-117 *)
                         end in
                start_work t w r true s
            end
      end
    end.

Definition wloop_fuel : nat := 3.

(* lines 125-130 *)
Definition complete (t w r : nat) (slow : bool) (s : state) : state :=
  let l := r_loop (reqs s r) in
  let s := sync_ev s t (SLockQ l) in
  let s := set_rwork s r WNull in
  let x := lp s l in
  let s := set_loop s l (lset_pending (lset_wq x (l_wq x ++ [r])) true) in
  let s := set_rst s r Finished in
  let s := sync_ev s t (SUnlockQ l) in
  set_worker s w (WRelock slow).

Definition is_free (o : option nat) : bool := match o with None => true | Some _ => false end.

Definition wstep (c : config) (t w aux : nat) (s : state) : option state :=
  match wk s w with
  | WRelock slow =>
      if is_free (gmutex s) then
        let s := sync_ev s t SLock in
        let s := if slow then set_running s (pred (running s)) else s in    (* lines 134-138 *)
        Some (wloop wloop_fuel c t w aux (set_worker s w (WRelock false)))
      else None
  | WWait sg =>
      if (sg || Nat.eqb aux 1) && is_free (gmutex s) then
        let s := sync_ev s t SWake in
        let s := set_idle s (pred (idle s)) in                              (* line 78 *)
        Some (wloop wloop_fuel c t w aux (set_worker s w (WRelock false)))
      else None
  | WRun r slow => Some (complete t w r slow s)
  | WExited => None
  end.

(* ------------------------------------------------------------------ *)
(* loop threads *)
Definition cur_op (x : loopst) : option op :=
  match l_cb x with
  | o :: _ => Some o
  | [] => if l_in_done x then None else
          match l_prog x with o :: _ => Some o | [] => None end
  end.
Definition pop_op (x : loopst) : loopst :=
  match l_cb x with
  | _ :: r => lset_cb x r
  | [] => lset_prog x (tl (l_prog x))
  end.

(* nothing left to execute at top level: end, or block in the poll *)
Definition settle (l : nat) (s : state) : state :=
  let x := lp s l in
  match l_prog x with
  | _ :: _ => set_loop s l (lset_pc x LReady)
  | [] => set_loop s l (lset_pc x (if Nat.eqb (l_active x) 0 then LEnd else LDrain))
  end.

(* the while loop of uv__work_done, lines 324-332, up to the first callback that
   blocks; at the end uv_run returns and the ORun operation (if any) is finished *)
Fixpoint deliver (c : config) (l : nat) (loc : list nat) (s : state) : state :=
  match loc with
  | [] =>
      let x := lp s l in
      let s := emit s (EAlive l (negb (Nat.eqb (l_active x) 0))) in
      (* uv_run: stop_flag is cleared when the run ends (core.c) *)
      let x := lset_stop (lset_in_done (lset_local x []) false) false in
      settle l (set_loop s l (lset_prog x (tl (l_prog x))))
  | r :: rest =>
      let status := match r_work (reqs s r) with WCancelled => UV_ECANCELED | _ => 0%Z end in
      let s := set_rst s r (Done status) in
      let x := lp s l in
      let s := set_loop s l (lset_active (lset_local x rest) (pred (l_active x))) in
      let s := emit s (EDone r l status) in
      match c_beh c r with
      | [] => deliver c l rest s
      | ops => let x := lp s l in set_loop s l (lset_pc (lset_cb x ops) LReady)
      end
  end.

(* the current operation is finished *)
Definition advance (c : config) (l : nat) (s : state) : state :=
  let x := pop_op (lp s l) in
  let s := set_loop s l x in
  match l_cb x with
  | _ :: _ => set_loop s l (lset_pc x LReady)
  | [] => if l_in_done x then deliver c l (l_local x) s else settle l s
  end.

Definition mem (r : nat) (q : list nat) : bool := existsb (Nat.eqb r) q.
Definition rem (r : nat) (q : list nat) : list nat := filter (fun x => negb (Nat.eqb x r)) q.
Definition is_work (r : nat) (i : item) : bool := match i with IWork x => Nat.eqb x r | _ => false end.
Definition remw (r : nat) (q : list item) : list item := filter (fun i => negb (is_work r i)) q.

(* post(), lines 143-161, called by the loop thread (tid l) for the new request r *)
Definition post (c : config) (l aux r : nat) (k : kind) (s : state) : state :=
  let s := sync_ev s l SLock in
  match k with
  | KSlow =>
      let s := set_sp s (sp s ++ [r]) in
      if has_marker (wq s) then sync_ev s l SUnlock
      else sync_ev (signal_if_idle c l aux (set_wq s (wq s ++ [ISlowMsg]))) l SUnlock
  | _ => sync_ev (signal_if_idle c l aux (set_wq s (wq s ++ [IWork r]))) l SUnlock
  end.

Definition valid_cancel (s : state) (l r : nat) : bool :=
  Nat.ltb r (nreq s) && Nat.eqb (r_loop (reqs s r)) l &&
  match r_st (reqs s r) with Done _ => false | RFree => false | _ => true end.

Definition lstep (c : config) (l aux : nat) (s : state) : option state :=
  let x := lp s l in
  match l_pc x with
  | LReady =>
      match cur_op x with
      | None => None
      | Some (OSubmit k) =>
          (* uv_queue_work / uv_fs_stat / uv_getaddrinfo / uv_random: uv__req_init,
             uv__work_submit (lines 266-276) *)
          if is_free (gmutex s) then
            let r := nreq s in
            let s := emit s (ESubmit r l k) in
            let s := set_req (set_nreq s (S r)) r (mkReq l k WFn Queued) in
            let s := set_loop s l (lset_active x (S (l_active x))) in
            Some (advance c l (post c l aux r k s))
          else None
      | Some (OCancel r) =>
          if valid_cancel s l r then
            if is_free (gmutex s) then                         (* line 286 *)
              Some (set_loop (set_gmutex (sync_ev s l SLock) (Some l)) l (lset_pc x (LCancel2 r)))
            else None
          else Some (advance c l (sync_ev s l SNop))
      | Some OStop =>
          Some (advance c l (set_loop (sync_ev s l SStop) l (lset_stop x true)))
      | Some ORun =>
          match l_cb x with
          | _ :: _ => Some (advance c l (sync_ev s l SNop))     (* no uv_run inside a callback *)
          | [] =>
            let s := sync_ev s l SPoll in
            if Nat.eqb (l_active x) 0 || l_stop x then
              (* uv_run: not alive, or uv_stop pending: no iteration; stop_flag cleared *)
              Some (advance c l (emit (set_loop s l (lset_stop x false))
                                      (EAlive l (negb (Nat.eqb (l_active x) 0)))))
            else if l_pending x then
              Some (set_loop s l (lset_pc (lset_pending x false) LWorkDone))
            else Some (advance c l (emit s (EAlive l true)))
          end
      end
  | LCancel2 r =>
      (* lines 287-297 *)
      let s := sync_ev s l (SLockQ l) in
      let linked := existsb (is_work r) (wq s) || mem r (sp s) || mem r (l_wq x) || mem r (l_local x) in
      let cancelled := linked && match r_work (reqs s r) with WNull => false | _ => true end in
      let s := if cancelled then
                 set_loop (set_sp (set_wq s (remw r (wq s))) (rem r (sp s))) l
                          (lset_local (lset_wq x (rem r (l_wq x))) (rem r (l_local x)))
               else s in
      let s := set_gmutex (sync_ev (sync_ev s l (SUnlockQ l)) l SUnlock) None in
      if cancelled then
        let s := set_rst (set_rwork s r WCancelled) r Limbo in              (* line 299 *)
        Some (set_loop s l (lset_pc (lp s l) (LCancel3 r)))
      else
        Some (advance c l (set_loop (emit s (ECancel r l UV_EBUSY)) l (lset_pc (lp s l) LReady)))
  | LCancel3 r =>
      (* lines 300-305 *)
      let s := sync_ev s l (SLockQ l) in
      let s := set_loop s l (lset_pc (lset_pending (lset_wq x (l_wq x ++ [r])) true) LReady) in
      let s := set_rst s r Cancelled in
      let s := sync_ev s l (SUnlockQ l) in
      Some (advance c l (emit s (ECancel r l 0%Z)))
  | LWorkDone =>
      (* lines 318-320, then the callbacks *)
      let s := sync_ev (sync_ev s l (SLockQ l)) l (SUnlockQ l) in
      let x := lset_pc (lset_in_done (lset_local (lset_wq x []) (l_wq x)) true) LReady in
      Some (deliver c l (l_local x) (set_loop s l x))
  | LDrain =>
      if l_pending x then
        Some (set_loop (sync_ev s l SPoll) l (lset_pc (lset_pending x false) LWorkDone))
      else None
  | LEnd => None
  end.

Definition step (c : config) (s : state) (t aux : nat) : option state :=
  if Nat.ltb t (c_loops c) then lstep c t aux s
  else if Nat.ltb (t - c_loops c) (c_n c) then wstep c t (t - c_loops c) aux s
  else None.

Definition step_state c s (ch : nat * nat) : state :=
  match step c s (fst ch) (snd ch) with Some s' => s' | None => s end.
Definition run c s (sched : list (nat * nat)) : state := fold_left (step_state c) sched s.

Definition init_loop (p : list op) : loopst :=
  mkLoop [] [] false 0 p [] false (match p with [] => LEnd | _ => LReady end) false.
Definition init (c : config) (progs : list (list op)) : state :=
  mkSt [] [] 0 0 None 0 (fun _ => mkReq 0 KCpu WFn RFree)
       (fun _ => WRelock false)
       (fun l => init_loop (nth l progs []))
       [].

(* per-choice log for the driver: None = the chosen thread was not enabled; else the
   events of the step, oldest first *)
Fixpoint run_log c s (sched : list (nat * nat)) : list (nat * option (list event)) * state :=
  match sched with
  | [] => ([], s)
  | ch :: rest =>
      match step c s (fst ch) (snd ch) with
      | None => let (lg, f) := run_log c s rest in ((fst ch, None) :: lg, f)
      | Some s' =>
          let evs := rev (firstn (length (trace s') - length (trace s)) (trace s')) in
          let (lg, f) := run_log c s' rest in ((fst ch, Some evs) :: lg, f)
      end
  end.

(* verdict: 0 = every loop thread reached the end of uv_run (nothing outstanding), 1 = some
   thread is enabled (without a spurious wake-up), 2 = a loop waits and nobody can move *)
Definition any_enabled c s : bool :=
  existsb (fun t => match step c s t 0 with Some _ => true | None => false end)
          (seq 0 (c_loops c + c_n c)).
Definition unfinished (s : state) : bool :=
  existsb (fun r => match r_st (reqs s r) with Done _ => false | RFree => false | _ => true end)
          (seq 0 (nreq s)).
Definition loops_ended c s : bool :=
  forallb (fun l => match l_pc (lp s l) with LEnd => true | _ => false end) (seq 0 (c_loops c)).
Definition verdict c s : Z :=
  if loops_ended c s then 0%Z
  else if any_enabled c s then 1%Z else 2%Z.

(* ------------------------------------------------------------------ *)
(* Which kind each public API hands to uv__work_submit (threadpool.c l.380-384, unix/fs.c POST
   macro and uv_fs_copyfile..., unix/getaddrinfo.c l.206, unix/getnameinfo.c l.110,
   random.c l.116).  The arguments that could conceivably matter are kept (the flags of
   uv_getnameinfo, AI_NUMERICHOST for uv_getaddrinfo, the fs operation) - and do not matter:
   a name lookup is slow I/O whatever its flags. *)
Inductive api :=
| AQueueWork
| ARandom
| AFs (fsop : nat)
| AGetaddrinfo (numeric_host : bool)
| AGetnameinfo (flags : Z).

Definition api_kind (a : api) : kind :=
  match a with
  | AQueueWork => KCpu
  | ARandom => KCpu
  | AFs _ => KFast
  | AGetaddrinfo _ => KSlow
  | AGetnameinfo _ => KSlow
  end.

Definition is_lookup (a : api) : bool :=
  match a with AGetaddrinfo _ | AGetnameinfo _ => true | _ => false end.

(* a script written with API calls *)
Definition api_submit (a : api) : op := OSubmit (api_kind a).

(* ------------------------------------------------------------------ *)
(* The completion wrappers the pool calls as w->done(w, status) (threadpool.c uv__queue_done
   l.356-366, random.c uv__random_done, unix/fs.c uv__fs_done, unix/getaddrinfo.c
   uv__getaddrinfo_done, unix/getnameinfo.c uv__getnameinfo_done) and the one field of the
   request they read: req->status / req->result / req->retcode.  [garbage] is what the caller's
   request memory held before the call. *)
Inductive capi := CWork (has_cb : bool) | CRandom | CFs | CGetaddrinfo | CGetnameinfo.
Inductive fate := FRun | FCancelled | FBusy.
Definition UV_EAI_CANCELED : Z := (-3003)%Z.

(* the submitting function initialises the field (uv_random: req->status = 0; fs INIT:
   req->result = 0; uv_getaddrinfo / uv_getnameinfo: req->retcode = 0); uv_work_t has none *)
Definition submit_field (a : capi) (garbage : Z) : Z :=
  match a with CWork _ => garbage | _ => 0%Z end.
(* the work function stores its own result there *)
Definition work_field (a : capi) (wres field : Z) : Z :=
  match a with CWork _ => field | _ => wres end.

(* (number of uv__req_unregister calls, status the user callback sees - None: no callback) *)
Definition done_wrapper (a : capi) (pool_status field : Z) : nat * option Z :=
  match a with
  | CWork has_cb => (1, if has_cb then Some pool_status else None)     (* unregister, then the NULL test *)
  | CRandom => (1, Some (if Z.eqb pool_status 0 then field else pool_status))
  | CFs => (1, Some (if Z.eqb pool_status UV_ECANCELED then UV_ECANCELED else field))
  | CGetaddrinfo | CGetnameinfo =>
      (1, Some (if Z.eqb pool_status UV_ECANCELED then UV_EAI_CANCELED else field))
  end.

(* the pool hands UV_ECANCELED to a cancelled request, whose work function never ran, and 0
   otherwise (C08_done_exactly_once_on_loop_after_work) *)
Definition complete_api (a : capi) (garbage wres : Z) (f : fate) : nat * option Z :=
  let f0 := submit_field a garbage in
  match f with
  | FCancelled => done_wrapper a UV_ECANCELED f0
  | _ => done_wrapper a 0%Z (work_field a wres f0)
  end.

Definition cancel_code (a : capi) : Z :=
  match a with CGetaddrinfo | CGetnameinfo => UV_EAI_CANCELED | _ => UV_ECANCELED end.

(* ------------------------------------------------------------------ *)
(* fork(): the child re-runs init_threads (through pthread_atfork/reset_once and the next
   uv__work_submit): cond, mutex, the three queues and the threads are fresh, no request of the
   parent is inherited - but the static counters idle_threads and slow_io_work_running are not
   re-initialised (threadpool.c l.194-242): the child starts with the parent's values.
   [fork_child_fixed] is the state with the counters reset. *)
Definition fork_child (c : config) (parent : state) (progs : list (list op)) : state :=
  set_idle (set_running (init c progs) (running parent)) (idle parent).
Definition fork_child_fixed (c : config) (parent : state) (progs : list (list op)) : state :=
  init c progs.
