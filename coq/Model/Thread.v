(* Model of src/unix/thread.c and src/thread-common.c (C20).

   Part A  return-code maps of the try-/timed- wrappers          thread.c:370-445, 668-682, 841-876
           uv_cond_init error exits                              thread.c:738-765
           uv_barrier_wait (pthread flavour)                      thread-common.c:151-160
   Part B  stack size of uv_thread_create_ex                      thread.c:72-123, 155-168
   Part C  absolute deadline of uv_cond_timedwait                 thread.c:858-861, linux.c uv__hrtime
   Part E  interleaving models of the two algorithms libuv implements itself:
           the mutex/condvar barrier                              thread-common.c:38-148
           the custom semaphore                                   thread.c:560-635
   (Part D, the pthread contracts, are Section hypotheses in Proofs/ThreadProofs.v.)

   An aborting path is the result [None].  Every libc/pthread answer is an
   argument (oracle).  64-bit size_t / uint64_t arithmetic is Z with the wrap
   written out. *)
From UV Require Import Lib.Base.

Local Open Scope Z_scope.

(* ------------------------------------------------------------------ *)
(* errno values (Linux) and the uv codes derived by UV__ERR(x) = -x    *)
Definition EINTR : Z := 4.
Definition EAGAIN : Z := 11.
Definition ENOMEM : Z := 12.
Definition EBUSY : Z := 16.
Definition EINVAL : Z := 22.
Definition ETIMEDOUT : Z := 110.
Definition UV_EAGAIN : Z := -11.
Definition UV_EBUSY : Z := -16.
Definition UV_ETIMEDOUT : Z := -110.
Definition PTHREAD_BARRIER_SERIAL_THREAD : Z := -1.
Definition uv_err (x : Z) : Z := - x.          (* UV__ERR *)

(* ------------------------------------------------------------------ *)
(* Part A: return-code maps                                            *)

(* uv_mutex_trylock / uv_rwlock_tryrdlock / uv_rwlock_trywrlock:
     err = pthread_..._try...(); if (err) { if (err != EBUSY && err != EAGAIN) abort();
     return UV_EBUSY; } return 0; *)
Definition uv_trylock_code (err : Z) : option Z :=
  if err =? 0 then Some 0
  else if negb (err =? EBUSY) && negb (err =? EAGAIN) then None
  else Some UV_EBUSY.

(* uv__sem_trywait: do r = sem_trywait(sem); while (r == -1 && errno == EINTR);
   if (r) { if (errno == EAGAIN) return UV_EAGAIN; abort(); } return 0;
   The oracle is the list of (r, errno) answers of successive sem_trywait calls;
   the result carries the unconsumed answers.  An exhausted oracle is [None]. *)
Fixpoint uv_sem_trywait_code (os : list (Z * Z)) : option Z * list (Z * Z) :=
  match os with
  | [] => (None, [])
  | (r, e) :: rest =>
      if (r =? -1) && (e =? EINTR) then uv_sem_trywait_code rest
      else if r =? 0 then (Some 0, rest)
      else if e =? EAGAIN then (Some UV_EAGAIN, rest)
      else (None, rest)
  end.

(* uv__sem_wait: same loop; any other failure aborts; returns nothing (Some 0). *)
Fixpoint uv_sem_wait_code (os : list (Z * Z)) : option Z * list (Z * Z) :=
  match os with
  | [] => (None, [])
  | (r, e) :: rest =>
      if (r =? -1) && (e =? EINTR) then uv_sem_wait_code rest
      else if r =? 0 then (Some 0, rest)
      else (None, rest)
  end.

(* uv_barrier_wait (pthread flavour): rc = pthread_barrier_wait();
   if (rc != 0) if (rc != SERIAL) abort(); return rc == SERIAL; *)
Definition uv_barrier_wait_code (rc : Z) : option Z :=
  if rc =? 0 then Some 0
  else if rc =? PTHREAD_BARRIER_SERIAL_THREAD then Some 1
  else None.

(* uv_cond_timedwait: r == 0 -> 0; r == ETIMEDOUT -> UV_ETIMEDOUT; else abort *)
Definition uv_cond_timedwait_code (r : Z) : option Z :=
  if r =? 0 then Some 0
  else if r =? ETIMEDOUT then Some UV_ETIMEDOUT
  else None.

(* uv_cond_init: the four pthread calls answer e1..e4; result and the list of
   pthread calls made, in order (1 condattr_init, 2 condattr_setclock, 3 cond_init,
   4 condattr_destroy, 5 cond_destroy). *)
Definition uv_cond_init_model (e1 e2 e3 e4 : Z) : Z * list Z :=
  if negb (e1 =? 0) then (uv_err e1, [1])
  else if negb (e2 =? 0) then (uv_err e2, [1; 2; 4])
  else if negb (e3 =? 0) then (uv_err e3, [1; 2; 3; 4])
  else if negb (e4 =? 0) then (uv_err e4, [1; 2; 3; 4; 5; 4])
  else (0, [1; 2; 3; 4]).

(* ------------------------------------------------------------------ *)
(* Part B: stack size                                                  *)

(* uv__min_stack_size: min = 8192; if (min < PTHREAD_STACK_MIN) return PTHREAD_STACK_MIN *)
Definition min_stack_size (psm : Z) : Z := if 8192 <? psm then psm else 8192.

(* uv__default_stack_size on Linux, not PowerPC *)
Definition default_stack_size : Z := 2097152.

(* getrlimit(RLIMIT_STACK) answer *)
Inductive rlim := RlFail | RlCur (cur : Z).
Definition RLIM_INFINITY : Z := max64.

(* uv__thread_stack_size *)
Definition thread_stack_size (page psm : Z) (rl : rlim) : Z :=
  match rl with
  | RlFail => default_stack_size
  | RlCur cur =>
      if cur =? RLIM_INFINITY then default_stack_size
      else
        let c := cur - cur mod page in
        if c >=? min_stack_size psm then c else default_stack_size
  end.

(* (stack_size + pagesize - 1) & ~(pagesize - 1) in 64-bit size_t *)
Definition round_up_page (page s : Z) : Z :=
  Z.land (wrap64 (wrap64 (s + page) - 1)) (wrap64 (Z.lnot (page - 1))).

(* uv_thread_create_ex, lines 155-168: the size handed to
   pthread_attr_setstacksize (0 = no attribute is set up). *)
Definition stack_size_applied (page psm : Z) (rl : rlim) (has_flag : bool) (req : Z) : Z :=
  let s := if has_flag then req else 0 in
  if s =? 0 then thread_stack_size page psm rl
  else
    let r := round_up_page page s in
    if r <? min_stack_size psm then min_stack_size psm else r.

(* ------------------------------------------------------------------ *)
(* Part C: deadline of uv_cond_timedwait                               *)
Definition NANOSEC : Z := 1000000000.

(* uv__hrtime: t.tv_sec * (uint64_t) 1e9 + t.tv_nsec *)
Definition hrtime_of (sec nsec : Z) : Z := wrap64 (wrap64 (sec * NANOSEC) + nsec).

(* How timeout and hrtime are combined.  Current code: timeout += uv__hrtime() in uint64_t. *)
Definition add_wrap (timeout hr : Z) : Z := wrap64 (timeout + hr).
(* The repaired variant (notes/C20_fix_timedwait.diff): saturate at UINT64_MAX. *)
Definition add_sat (timeout hr : Z) : Z :=
  if timeout + hr >? max64 then max64 else timeout + hr.

(* ts.tv_sec = timeout / NANOSEC; ts.tv_nsec = timeout % NANOSEC; *)
Definition deadline_with (add : Z -> Z -> Z) (timeout hr : Z) : Z * Z :=
  let t := add timeout hr in (t / NANOSEC, t mod NANOSEC).

Definition timedwait_deadline := deadline_with add_wrap.
Definition timedwait_deadline_fixed := deadline_with add_sat.

(* the absolute time a timespec denotes, in ns *)
Definition ts_ns (ts : Z * Z) : Z := fst ts * NANOSEC + snd ts.

(* uv_cond_timedwait as a whole: [hr] is what uv__hrtime returned, [wait] is
   pthread_cond_timedwait as a function of the absolute timespec.  Result and
   the timespec passed down. *)
Definition uv_cond_timedwait_model (add : Z -> Z -> Z) (timeout hr : Z)
           (wait : Z * Z -> Z) : option Z * (Z * Z) :=
  let ts := deadline_with add timeout hr in
  (uv_cond_timedwait_code (wait ts), ts).
