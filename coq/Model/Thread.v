(* Model of src/unix/thread.c and src/thread-common.c (C20).

   Part A  return-code maps of the try-/timed- wrappers          thread.c:370-445, 668-682, 841-876
           uv_cond_init error exits                              thread.c:738-765
           uv_barrier_wait (pthread flavour)                      thread-common.c:151-160
   Part B  stack size of uv_thread_create_ex                      thread.c:72-123, 155-175
   Part C  absolute deadline of uv_cond_timedwait                 thread.c:858-861, linux.c uv__hrtime
   Part E  interleaving models of the two algorithms libuv implements itself:
           the mutex/condvar barrier                              thread-common.c:38-148
           the custom semaphore                                   thread.c:560-635
   (Part D, the pthread contracts, are Section hypotheses in Proofs/ThreadProofs.v.)

   An aborting path is the result [None].  Every libc/pthread answer is an
   argument (oracle).  64-bit size_t / uint64_t arithmetic is Z with the wrap
   written out. *)
From UV Require Import Lib.Base.

Local Open Scope Z_scope.

(* ------------------------------------------------------------------ *)
(* errno values (Linux) and the uv codes derived by UV__ERR(x) = -x    *)
Definition EINTR : Z := 4.
Definition EAGAIN : Z := 11.
Definition ENOMEM : Z := 12.
Definition EBUSY : Z := 16.
Definition EINVAL : Z := 22.
Definition ETIMEDOUT : Z := 110.
Definition UV_EAGAIN : Z := -11.
Definition UV_EBUSY : Z := -16.
Definition UV_ETIMEDOUT : Z := -110.
Definition PTHREAD_BARRIER_SERIAL_THREAD : Z := -1.
Definition uv_err (x : Z) : Z := - x.          (* UV__ERR *)

(* ------------------------------------------------------------------ *)
(* Part A: return-code maps                                            *)

(* uv_mutex_trylock / uv_rwlock_tryrdlock / uv_rwlock_trywrlock:
     err = pthread_..._try...(); if (err) { if (err != EBUSY && err != EAGAIN) abort();
     return UV_EBUSY; } return 0; *)
Definition uv_trylock_code (err : Z) : option Z :=
  if err =? 0 then Some 0
  else if negb (err =? EBUSY) && negb (err =? EAGAIN) then None
  else Some UV_EBUSY.

(* uv__sem_trywait: do r = sem_trywait(sem); while (r == -1 && errno == EINTR);
   if (r) { if (errno == EAGAIN) return UV_EAGAIN; abort(); } return 0;
   The oracle is the list of (r, errno) answers of successive sem_trywait calls;
   the result carries the unconsumed answers.  An exhausted oracle is [None]. *)
Fixpoint uv_sem_trywait_code (os : list (Z * Z)) : option Z * list (Z * Z) :=
  match os with
  | [] => (None, [])
  | (r, e) :: rest =>
      if (r =? -1) && (e =? EINTR) then uv_sem_trywait_code rest
      else if r =? 0 then (Some 0, rest)
      else if e =? EAGAIN then (Some UV_EAGAIN, rest)
      else (None, rest)
  end.

(* uv__sem_wait: same loop; any other failure aborts; returns nothing (Some 0). *)
Fixpoint uv_sem_wait_code (os : list (Z * Z)) : option Z * list (Z * Z) :=
  match os with
  | [] => (None, [])
  | (r, e) :: rest =>
      if (r =? -1) && (e =? EINTR) then uv_sem_wait_code rest
      else if r =? 0 then (Some 0, rest)
      else (None, rest)
  end.

(* uv_barrier_wait (pthread flavour): rc = pthread_barrier_wait();
   if (rc != 0) if (rc != SERIAL) abort(); return rc == SERIAL; *)
Definition uv_barrier_wait_code (rc : Z) : option Z :=
  if rc =? 0 then Some 0
  else if rc =? PTHREAD_BARRIER_SERIAL_THREAD then Some 1
  else None.

(* uv_cond_timedwait: r == 0 -> 0; r == ETIMEDOUT -> UV_ETIMEDOUT; else abort *)
Definition uv_cond_timedwait_code (r : Z) : option Z :=
  if r =? 0 then Some 0
  else if r =? ETIMEDOUT then Some UV_ETIMEDOUT
  else None.

(* uv_cond_init: the four pthread calls answer e1..e4; result and the list of
   pthread calls made, in order (1 condattr_init, 2 condattr_setclock, 3 cond_init,
   4 condattr_destroy, 5 cond_destroy). *)
Definition uv_cond_init_model (e1 e2 e3 e4 : Z) : Z * list Z :=
  if negb (e1 =? 0) then (uv_err e1, [1])
  else if negb (e2 =? 0) then (uv_err e2, [1; 2; 4])
  else if negb (e3 =? 0) then (uv_err e3, [1; 2; 3; 4])
  else if negb (e4 =? 0) then (uv_err e4, [1; 2; 3; 4; 5; 4])
  else (0, [1; 2; 3; 4]).

(* ------------------------------------------------------------------ *)
(* Part B: stack size                                                  *)

(* uv__min_stack_size: min = 8192; if (min < PTHREAD_STACK_MIN) return PTHREAD_STACK_MIN *)
Definition min_stack_size (psm : Z) : Z := if 8192 <? psm then psm else 8192.

(* uv__default_stack_size on Linux, not PowerPC *)
Definition default_stack_size : Z := 2097152.

(* getrlimit(RLIMIT_STACK) answer *)
Inductive rlim := RlFail | RlCur (cur : Z).
Definition RLIM_INFINITY : Z := max64.

(* uv__thread_stack_size *)
Definition thread_stack_size (page psm : Z) (rl : rlim) : Z :=
  match rl with
  | RlFail => default_stack_size
  | RlCur cur =>
      if cur =? RLIM_INFINITY then default_stack_size
      else
        let c := cur - cur mod page in
        if c >=? min_stack_size psm then c else default_stack_size
  end.

(* (stack_size + pagesize - 1) & ~(pagesize - 1) in 64-bit size_t *)
Definition round_up_page (page s : Z) : Z :=
  Z.land (wrap64 (wrap64 (s + page) - 1)) (wrap64 (Z.lnot (page - 1))).

(* uv_thread_create_ex, lines 155-175 (with the guard of commit 4452eb2): the size handed
   to pthread_attr_setstacksize.  None = the function returns UV_EINVAL before anything is
   set up: no attribute, no pthread_create, no thread
     if (stack_size > SIZE_MAX - (pagesize - 1)) return UV_EINVAL; *)
Definition stack_size_applied (page psm : Z) (rl : rlim) (has_flag : bool) (req : Z)
  : option Z :=
  let s := if has_flag then req else 0 in
  if s =? 0 then Some (thread_stack_size page psm rl)
  else if s >? max64 - (page - 1) then None
  else
    let r := round_up_page page s in
    Some (if r <? min_stack_size psm then min_stack_size psm else r).

(* the same code without the guard (the code before commit 4452eb2), kept so that the old
   failing input stays on record *)
Definition stack_size_applied_unguarded (page psm : Z) (req : Z) : Z :=
  let r := round_up_page page req in
  if r <? min_stack_size psm then min_stack_size psm else r.

(* ------------------------------------------------------------------ *)
(* Part C: deadline of uv_cond_timedwait                               *)
Definition NANOSEC : Z := 1000000000.

(* uv__hrtime: t.tv_sec * (uint64_t) 1e9 + t.tv_nsec *)
Definition hrtime_of (sec nsec : Z) : Z := wrap64 (wrap64 (sec * NANOSEC) + nsec).

(* How timeout and hrtime are combined.  Current code: timeout += uv__hrtime() in uint64_t. *)
Definition add_wrap (timeout hr : Z) : Z := wrap64 (timeout + hr).
(* The repaired variant (notes/C20_fix_timedwait.diff): saturate at UINT64_MAX. *)
Definition add_sat (timeout hr : Z) : Z :=
  if timeout + hr >? max64 then max64 else timeout + hr.

(* ts.tv_sec = timeout / NANOSEC; ts.tv_nsec = timeout % NANOSEC; *)
Definition deadline_with (add : Z -> Z -> Z) (timeout hr : Z) : Z * Z :=
  let t := add timeout hr in (t / NANOSEC, t mod NANOSEC).

Definition timedwait_deadline := deadline_with add_wrap.
Definition timedwait_deadline_fixed := deadline_with add_sat.

(* the absolute time a timespec denotes, in ns *)
Definition ts_ns (ts : Z * Z) : Z := fst ts * NANOSEC + snd ts.

(* uv_cond_timedwait as a whole: [hr] is what uv__hrtime returned, [wait] is
   pthread_cond_timedwait as a function of the absolute timespec.  Result and
   the timespec passed down. *)
Definition uv_cond_timedwait_model (add : Z -> Z -> Z) (timeout hr : Z)
           (wait : Z * Z -> Z) : option Z * (Z * Z) :=
  let ts := deadline_with add timeout hr in
  (uv_cond_timedwait_code (wait ts), ts).

(* ------------------------------------------------------------------ *)
(* Part E: interleaving models.

   Threads are numbered 0..n-1.  Every thread is always parked *at* a
   synchronisation operation (uv_mutex_lock/trylock/unlock, uv_cond_wait,
   uv_cond_signal/broadcast).  One atomic step of thread t = perform the
   operation it is parked at (if it is enabled) and run its local code up to,
   but not including, the next synchronisation operation.  uv_cond_wait is two
   steps: "enter" (release the mutex, start waiting) and "wake" (enabled when
   the thread has been signalled -- or the schedule asks for a spurious
   wake-up -- and the mutex is free: re-acquire it and go on).
   A schedule is a list of choices (thread, aux); aux = 1 on a waiting thread
   means "spurious wake-up"; on uv_cond_signal aux selects which waiter is
   released.  A choice whose thread is not enabled leaves the state unchanged
   (recorded as a skip), so the same schedule can be replayed on the real code
   under the serialising scheduler of harness/c20_sched.c. *)

Record choice := mkChoice { who : nat; aux : nat }.

(* the operation a step performed, as the serialising scheduler sees it *)
Inductive sop := OpLock | OpTry | OpUnlock | OpWait | OpWake | OpSignal | OpBcast.

(* --------------------------- barrier ------------------------------ *)
Inductive bpc :=
| BLock                (* about to uv_mutex_lock: start of a uv_barrier_wait call *)
| BW1e                 (* holds the mutex; about to uv_cond_wait in while (b->out != 0) *)
| BW1w (sg : bool)     (* in that uv_cond_wait; sg = has been signalled *)
| BBc1                 (* holds; flipped in/out; about to uv_cond_broadcast *)
| BW2e                 (* holds; about to uv_cond_wait in do .. while (b->in != 0) *)
| BW2w (sg : bool)
| BBc2                 (* holds; last leaver; about to uv_cond_broadcast *)
| BUnl (last : bool)   (* holds; about to uv_mutex_unlock and return last *)
| BDone.

Record bthread := mkBT { bt_pc : bpc; bt_rem : nat (* calls still to make *) }.

Inductive bevent :=
| BECall (t : nat)               (* thread t entered uv_barrier_wait (got the mutex) *)
| BEJoin (t : nat)               (* ++b->in executed by t *)
| BELeave (t : nat) (last : bool)(* --b->out executed by t *)
| BERet (t : nat) (last : bool). (* uv_barrier_wait returned last to t *)

Record bstate := mkB {
  b_in : Z; b_out : Z; b_thr : Z;          (* struct _uv_barrier *)
  b_owner : option nat;                    (* who holds b->mutex *)
  b_ths : list bthread;
  b_gen : Z;                               (* ghost: number of completed flips *)
  b_trace : list bevent                    (* ghost: newest first *)
}.

Definition binit (threshold : Z) (rems : list nat) : bstate :=
  mkB 0 0 threshold None
      (map (fun r => mkBT (match r with O => BDone | _ => BLock end) r) rems) 0 [].

Definition bget (s : bstate) (t : nat) : option bthread := nth_error (b_ths s) t.

Definition bset_pc (s : bstate) (t : nat) (p : bpc) : bstate :=
  mkB (b_in s) (b_out s) (b_thr s) (b_owner s)
      (upd t (fun th => mkBT p (bt_rem th)) (b_ths s)) (b_gen s) (b_trace s).
Definition bset_owner (s : bstate) (o : option nat) : bstate :=
  mkB (b_in s) (b_out s) (b_thr s) o (b_ths s) (b_gen s) (b_trace s).
Definition bemit (s : bstate) (e : bevent) : bstate :=
  mkB (b_in s) (b_out s) (b_thr s) (b_owner s) (b_ths s) (b_gen s) (e :: b_trace s).

(* uv_cond_broadcast: every waiter becomes signalled *)
Definition bwake (th : bthread) : bthread :=
  match bt_pc th with
  | BW1w _ => mkBT (BW1w true) (bt_rem th)
  | BW2w _ => mkBT (BW2w true) (bt_rem th)
  | _ => th
  end.
Definition bbroadcast (s : bstate) : bstate :=
  mkB (b_in s) (b_out s) (b_thr s) (b_owner s) (map bwake (b_ths s)) (b_gen s) (b_trace s).

(* last = (--b->out == 0); if (last) broadcast ... ; unlock *)
Definition bleave (s : bstate) (t : nat) : bstate :=
  let o := wrap32 (b_out s - 1) in
  let last := o =? 0 in
  let s1 := mkB (b_in s) o (b_thr s) (b_owner s) (b_ths s) (b_gen s)
                (BELeave t last :: b_trace s) in
  bset_pc s1 t (if last then BBc2 else BUnl false).

(* with the mutex held: while (b->out != 0) wait; if (++b->in == threshold) {...} else do wait .. *)
Definition bgate (s : bstate) (t : nat) : bstate :=
  if negb (b_out s =? 0) then bset_pc s t BW1e
  else
    let i := wrap32 (b_in s + 1) in
    if i =? b_thr s then
      bset_pc (mkB 0 (b_thr s) (b_thr s) (b_owner s) (b_ths s) (b_gen s + 1)
                   (BEJoin t :: b_trace s)) t BBc1
    else
      bset_pc (mkB i (b_out s) (b_thr s) (b_owner s) (b_ths s) (b_gen s)
                   (BEJoin t :: b_trace s)) t BW2e.

Definition is_free (o : option nat) : bool := match o with None => true | Some _ => false end.

(* one step of thread [who c]; None = not enabled *)
Definition bstep (s : bstate) (c : choice) : option (bstate * sop) :=
  let t := who c in
  match bget s t with
  | None => None
  | Some th =>
    match bt_pc th with
    | BLock =>
        if is_free (b_owner s)
        then Some (bgate (bemit (bset_owner s (Some t)) (BECall t)) t, OpLock) else None
    | BW1e => Some (bset_pc (bset_owner s None) t (BW1w false), OpWait)
    | BW1w sg =>
        if (sg || (aux c =? 1)%nat) && is_free (b_owner s)
        then Some (bgate (bset_owner s (Some t)) t, OpWake) else None
    | BBc1 => Some (bleave (bbroadcast s) t, OpBcast)
    | BW2e => Some (bset_pc (bset_owner s None) t (BW2w false), OpWait)
    | BW2w sg =>
        if (sg || (aux c =? 1)%nat) && is_free (b_owner s)
        then let s1 := bset_owner s (Some t) in
             Some (if negb (b_in s1 =? 0) then bset_pc s1 t BW2e else bleave s1 t, OpWake)
        else None
    | BBc2 => Some (bset_pc (bbroadcast s) t (BUnl true), OpBcast)
    | BUnl last =>
        let r := pred (bt_rem th) in
        let s1 := bemit (bset_owner s None) (BERet t last) in
        Some (mkB (b_in s1) (b_out s1) (b_thr s1) (b_owner s1)
                  (upd t (fun _ => mkBT (match r with O => BDone | _ => BLock end) r) (b_ths s1))
                  (b_gen s1) (b_trace s1), OpUnlock)
    | BDone => None
    end
  end.

Definition bstep_state (s : bstate) (c : choice) : bstate :=
  match bstep s c with Some (s', _) => s' | None => s end.

Definition brun (s : bstate) (sched : list choice) : bstate := fold_left bstep_state sched s.

(* what the driver prints per choice: the operation (None = skipped), b->in, b->out
   and the value returned to the caller in this step, if any *)
Definition bret_of (s s' : bstate) : option bool :=
  match b_trace s' with
  | BERet _ l :: _ => if (length (b_trace s') =? length (b_trace s))%nat then None else Some l
  | _ => None
  end.
Fixpoint brun_log (s : bstate) (sched : list choice)
  : list (nat * option sop * Z * Z * option bool) * bstate :=
  match sched with
  | [] => ([], s)
  | c :: rest =>
      match bstep s c with
      | None => let (l, f) := brun_log s rest in ((who c, None, b_in s, b_out s, None) :: l, f)
      | Some (s', op) =>
          let (l, f) := brun_log s' rest in
          ((who c, Some op, b_in s', b_out s', bret_of s s') :: l, f)
      end
  end.

(* final verdict: 0 all threads done, 1 somebody can still move (without a
   spurious wake-up), 2 nobody can: deadlock *)
Definition ball_done (s : bstate) : bool :=
  forallb (fun th => match bt_pc th with BDone => true | _ => false end) (b_ths s).
Definition bany_enabled (s : bstate) : bool :=
  existsb (fun t => match bstep s (mkChoice t 0) with Some _ => true | None => false end)
          (seq 0 (length (b_ths s))).
Definition bverdict (s : bstate) : Z :=
  if ball_done s then 0 else if bany_enabled s then 1 else 2.

(* ----------------------- custom semaphore ------------------------- *)
Inductive semop := SPost | SWait | STry.

Inductive spc :=
| SIdle                (* parked at the uv_mutex_lock / uv_mutex_trylock of the next operation *)
| SPSig                (* post: holds; value became 1; about to uv_cond_signal *)
| SPUnl                (* post: holds; about to uv_mutex_unlock *)
| SWe                  (* wait: holds; value == 0; about to uv_cond_wait *)
| SWw (sg : bool)      (* wait: inside uv_cond_wait *)
| SWUnl                (* wait: holds; decremented; about to unlock *)
| STUnl (ok : bool)    (* trywait: holds; about to unlock; ok = decremented *)
| SDone.

Record sthread := mkST { st_pc : spc; st_prog : list semop }.

Inductive sevent :=
| SEInc (t : nat)              (* sem->value++ *)
| SEDec (t : nat)              (* sem->value-- (a pass) *)
| SERet (t : nat) (op : semop) (code : Z).  (* op returned code (0, or UV_EAGAIN from trywait) *)

Record sstate := mkS {
  s_value : Z;
  s_owner : option nat;
  s_ths : list sthread;
  s_trace : list sevent
}.

Definition sinit (value : Z) (progs : list (list semop)) : sstate :=
  mkS value None
      (map (fun p => mkST (match p with [] => SDone | _ => SIdle end) p) progs) [].

Definition sget (s : sstate) (t : nat) : option sthread := nth_error (s_ths s) t.
Definition sset_pc (s : sstate) (t : nat) (p : spc) : sstate :=
  mkS (s_value s) (s_owner s) (upd t (fun th => mkST p (st_prog th)) (s_ths s)) (s_trace s).
Definition sset_owner (s : sstate) (o : option nat) : sstate :=
  mkS (s_value s) o (s_ths s) (s_trace s).
Definition semit (s : sstate) (e : sevent) : sstate :=
  mkS (s_value s) (s_owner s) (s_ths s) (e :: s_trace s).
Definition sset_value (s : sstate) (v : Z) : sstate :=
  mkS v (s_owner s) (s_ths s) (s_trace s).

(* the operation at the head of the program finished with [code] *)
Definition sfinish (s : sstate) (t : nat) (op : semop) (code : Z) : sstate :=
  let s1 := semit s (SERet t op code) in
  mkS (s_value s1) (s_owner s1)
      (upd t (fun th => let p := tl (st_prog th) in
                        mkST (match p with [] => SDone | _ => SIdle end) p) (s_ths s1))
      (s_trace s1).

(* uv_cond_signal: release the k-th (mod their number) un-signalled waiter, in thread order *)
Definition swaiting (th : sthread) : bool :=
  match st_pc th with SWw false => true | _ => false end.
Fixpoint ssignal_nth (k : nat) (l : list sthread) : list sthread :=
  match l with
  | [] => []
  | th :: rest =>
      if swaiting th then
        match k with
        | O => mkST (SWw true) (st_prog th) :: rest
        | S k' => th :: ssignal_nth k' rest
        end
      else th :: ssignal_nth k rest
  end.
Definition scount_waiting (l : list sthread) : nat := length (filter swaiting l).
Definition ssignal (s : sstate) (k : nat) : sstate :=
  let n := scount_waiting (s_ths s) in
  match n with
  | O => s
  | _ => mkS (s_value s) (s_owner s) (ssignal_nth (Nat.modulo k n) (s_ths s)) (s_trace s)
  end.

(* uv__custom_sem_wait with the mutex held: while (value == 0) wait; value--; *)
Definition sgate (s : sstate) (t : nat) : sstate :=
  if s_value s =? 0 then sset_pc s t SWe
  else sset_pc (semit (sset_value s (wrap32 (s_value s - 1))) (SEDec t)) t SWUnl.

Definition sstep (s : sstate) (c : choice) : option (sstate * sop) :=
  let t := who c in
  match sget s t with
  | None => None
  | Some th =>
    match st_pc th with
    | SIdle =>
        match st_prog th with
        | [] => None
        | SPost :: _ =>
            if is_free (s_owner s) then
              let v := wrap32 (s_value s + 1) in
              let s1 := semit (sset_value (sset_owner s (Some t)) v) (SEInc t) in
              Some (sset_pc s1 t (if v =? 1 then SPSig else SPUnl), OpLock)
            else None
        | SWait :: _ =>
            if is_free (s_owner s) then Some (sgate (sset_owner s (Some t)) t, OpLock) else None
        | STry :: _ =>
            if is_free (s_owner s) then
              let s1 := sset_owner s (Some t) in
              if s_value s1 =? 0 then Some (sset_pc s1 t (STUnl false), OpTry)
              else Some (sset_pc (semit (sset_value s1 (wrap32 (s_value s1 - 1))) (SEDec t))
                                 t (STUnl true), OpTry)
            else Some (sfinish s t STry UV_EAGAIN, OpTry)
        end
    | SPSig => Some (sset_pc (ssignal s (aux c)) t SPUnl, OpSignal)
    | SPUnl => Some (sfinish (sset_owner s None) t SPost 0, OpUnlock)
    | SWe => Some (sset_pc (sset_owner s None) t (SWw false), OpWait)
    | SWw sg =>
        if (sg || (aux c =? 1)%nat) && is_free (s_owner s)
        then Some (sgate (sset_owner s (Some t)) t, OpWake) else None
    | SWUnl => Some (sfinish (sset_owner s None) t SWait 0, OpUnlock)
    | STUnl ok => Some (sfinish (sset_owner s None) t STry (if ok then 0 else UV_EAGAIN), OpUnlock)
    | SDone => None
    end
  end.

Definition sstep_state (s : sstate) (c : choice) : sstate :=
  match sstep s c with Some (s', _) => s' | None => s end.
Definition srun (s : sstate) (sched : list choice) : sstate := fold_left sstep_state sched s.

Definition sret_of (s s' : sstate) : option Z :=
  match s_trace s' with
  | SERet _ _ code :: _ => if (length (s_trace s') =? length (s_trace s))%nat then None else Some code
  | _ => None
  end.
Fixpoint srun_log (s : sstate) (sched : list choice)
  : list (nat * option sop * option Z) * sstate :=
  match sched with
  | [] => ([], s)
  | c :: rest =>
      match sstep s c with
      | None => let (l, f) := srun_log s rest in ((who c, None, None) :: l, f)
      | Some (s', op) =>
          let (l, f) := srun_log s' rest in ((who c, Some op, sret_of s s') :: l, f)
      end
  end.

Definition sall_done (s : sstate) : bool :=
  forallb (fun th => match st_pc th with SDone => true | _ => false end) (s_ths s).
Definition sany_enabled (s : sstate) : bool :=
  existsb (fun t => match sstep s (mkChoice t 0) with Some _ => true | None => false end)
          (seq 0 (length (s_ths s))).
Definition sverdict (s : sstate) : Z :=
  if sall_done s then 0 else if sany_enabled s then 1 else 2.

(* ------------------------------------------------------------------ *)
(* Part F: the pass-through table "uv wrapper -> pthread function it calls on the same
   object" (thread.c:126-135, 290-456, 637-725, 769-898; thread-common.c:146-160).
   Native (non-custom) semaphore, pthread barrier, NDEBUG uv_mutex_init. *)
Inductive uvfn :=
| UvMutexInit | UvMutexInitRecursive | UvMutexDestroy | UvMutexLock | UvMutexTrylock | UvMutexUnlock
| UvRwlockInit | UvRwlockDestroy | UvRwlockRdlock | UvRwlockTryrdlock | UvRwlockRdunlock
| UvRwlockWrlock | UvRwlockTrywrlock | UvRwlockWrunlock
| UvSemInit | UvSemDestroy | UvSemPost | UvSemWait | UvSemTrywait
| UvCondInit | UvCondDestroy | UvCondSignal | UvCondBroadcast | UvCondWait | UvCondTimedwait
| UvOnce | UvKeyCreate | UvKeyDelete | UvKeyGet | UvKeySet
| UvThreadJoin | UvBarrierInit | UvBarrierWait | UvBarrierDestroy.

Inductive pfn :=
| PMutexInit | PMutexDestroy | PMutexLock | PMutexTrylock | PMutexUnlock
| PRwInit | PRwDestroy | PRwRdlock | PRwTryrdlock | PRwWrlock | PRwTrywrlock | PRwUnlock
| PSemInit | PSemDestroy | PSemPost | PSemWait | PSemTrywait
| PCondInit | PCondDestroy | PCondSignal | PCondBroadcast | PCondWait | PCondTimedwait
| POnce | PKeyCreate | PKeyDelete | PGetspecific | PSetspecific
| PJoin | PBarrierInit | PBarrierWait | PBarrierDestroy.

Definition passthrough (f : uvfn) : pfn :=
  match f with
  | UvMutexInit => PMutexInit | UvMutexInitRecursive => PMutexInit
  | UvMutexDestroy => PMutexDestroy | UvMutexLock => PMutexLock
  | UvMutexTrylock => PMutexTrylock | UvMutexUnlock => PMutexUnlock
  | UvRwlockInit => PRwInit | UvRwlockDestroy => PRwDestroy
  | UvRwlockRdlock => PRwRdlock | UvRwlockTryrdlock => PRwTryrdlock | UvRwlockRdunlock => PRwUnlock
  | UvRwlockWrlock => PRwWrlock | UvRwlockTrywrlock => PRwTrywrlock | UvRwlockWrunlock => PRwUnlock
  | UvSemInit => PSemInit | UvSemDestroy => PSemDestroy | UvSemPost => PSemPost
  | UvSemWait => PSemWait | UvSemTrywait => PSemTrywait
  | UvCondInit => PCondInit
  | UvCondDestroy => PCondDestroy | UvCondSignal => PCondSignal | UvCondBroadcast => PCondBroadcast
  | UvCondWait => PCondWait | UvCondTimedwait => PCondTimedwait
  | UvOnce => POnce | UvKeyCreate => PKeyCreate | UvKeyDelete => PKeyDelete
  | UvKeyGet => PGetspecific | UvKeySet => PSetspecific
  | UvThreadJoin => PJoin
  | UvBarrierInit => PBarrierInit | UvBarrierWait => PBarrierWait | UvBarrierDestroy => PBarrierDestroy
  end.

Definition all_uvfn : list uvfn :=
  [UvMutexInit; UvMutexInitRecursive; UvMutexDestroy; UvMutexLock; UvMutexTrylock; UvMutexUnlock;
   UvRwlockInit; UvRwlockDestroy; UvRwlockRdlock; UvRwlockTryrdlock; UvRwlockRdunlock;
   UvRwlockWrlock; UvRwlockTrywrlock; UvRwlockWrunlock;
   UvSemInit; UvSemDestroy; UvSemPost; UvSemWait; UvSemTrywait;
   UvCondInit; UvCondDestroy; UvCondSignal; UvCondBroadcast; UvCondWait; UvCondTimedwait;
   UvOnce; UvKeyCreate; UvKeyDelete; UvKeyGet; UvKeySet;
   UvThreadJoin; UvBarrierInit; UvBarrierWait; UvBarrierDestroy].

(* pthread calls a wrapper makes on libuv-internal objects before the mapped call:
   uv_sem_init runs uv_once(&glibc_version_check_once, ...) first (thread.c:685-687) *)
Definition passthrough_pre (f : uvfn) : list pfn :=
  match f with UvSemInit => [POnce] | _ => [] end.

(* What the init wrappers ask pthread for (thread.c:316-355, 390-392, 637-641, 738-765;
   thread-common.c:146-148): the observable settings of the attribute object handed to the
   pthread init function, NULL counting as an object with the default settings, plus the
   by-value arguments.  [debug] = built without NDEBUG and PTHREAD_MUTEX_ERRORCHECK is a
   preprocessor macro: only then does uv_mutex_init ask for an error-checking mutex
   (#if defined(NDEBUG) || !defined(PTHREAD_MUTEX_ERRORCHECK)).  On glibc the constant is an
   enumerator, not a macro, so the plain branch is compiled in every build there.
   [arg] = the value/count the caller passed. *)
Definition PTHREAD_MUTEX_NORMAL : Z := 0.
Definition PTHREAD_MUTEX_RECURSIVE : Z := 1.
Definition PTHREAD_MUTEX_ERRORCHECK : Z := 2.
Definition PTHREAD_RWLOCK_PREFER_READER : Z := 0.      (* the default kind: readers are admitted
                                                          whenever no writer HOLDS the lock *)
Definition CLOCK_REALTIME : Z := 0.
Definition CLOCK_MONOTONIC : Z := 1.

Inductive init_req :=
| IMutex (type : Z)                 (* pthread_mutexattr_gettype *)
| IRwlock (kind : Z)                (* pthread_rwlockattr_getkind_np *)
| ICond (clock : Z)                 (* pthread_condattr_getclock *)
| ISem (pshared value : Z)          (* sem_init(sem, pshared, value) *)
| IBarrier (count : Z)              (* pthread_barrier_init(b, attr, count) *)
| INotInit.

Definition init_request (debug : bool) (f : uvfn) (arg : Z) : init_req :=
  match f with
  | UvMutexInit => IMutex (if debug then PTHREAD_MUTEX_ERRORCHECK else PTHREAD_MUTEX_NORMAL)
  | UvMutexInitRecursive => IMutex PTHREAD_MUTEX_RECURSIVE
  | UvRwlockInit => IRwlock PTHREAD_RWLOCK_PREFER_READER
  | UvCondInit => ICond CLOCK_MONOTONIC
  | UvSemInit => ISem 0 arg
  | UvBarrierInit => IBarrier arg
  | _ => INotInit
  end.
