(* Model of the address codecs of libuv (property C18, address part):
     src/inet.c       uv_inet_ntop, inet_ntop4, inet_ntop6, uv_inet_pton,
                      inet_pton4, inet_pton6                       (lines 35-298)
     src/uv-common.c  uv_ip4_addr, uv_ip6_addr, uv_ip4_name, uv_ip6_name,
                      uv_ip_name                                   (lines 254-321)
     src/strscpy.c    uv__strscpy                                  (lines 25-38)

   Conventions.
   * A byte is an [N] (< 256 for real inputs), a buffer is a [list N].
   * A C string argument is given as the bytes found in memory; the public
     entry points cut it at the first NUL ([cstr]); inside, the end of the list
     *is* the terminating NUL (so [[]] in a loop is "ch == '\0'").
   * A destination buffer is not an argument: a function returns
     [(return code, bytes written to dst[0], dst[1], ...)]; its size is a
     parameter.  [[]] = dst untouched.
   * Scratch buffers (tmp[16], tmp[46], tmp[4], tmp[16 bytes of address]) that
     are filled strictly left to right are lists that grow at the end; the
     write pointer [tp] is their length.  The one non-sequential access, the
     hand-written shift at the end of inet_pton6, is done on the 16-element
     array literally.
   * Where C would run off a scratch buffer (undefined behaviour) the model
     returns the code [UB_TMP_OVERFLOW]; Proofs show it is never returned.
   No proofs in this file. *)
From UV Require Import Lib.Base.
Local Open Scope N_scope.

Definition UV_EINVAL : Z := (-22)%Z.
Definition UV_ENOSPC : Z := (-28)%Z.
Definition UV_E2BIG : Z := (-7)%Z.
Definition UV_EAFNOSUPPORT : Z := (-97)%Z.
Definition UB_TMP_OVERFLOW : Z := 1%Z.     (* not a libuv code: "C behaviour undefined" *)
Definition AF_INET : Z := 2%Z.
Definition AF_INET6 : Z := 10%Z.
Definition SSIZE_MAX : N := 9223372036854775807.

(* ------------------------------------------------------------------ *)
(* C strings                                                           *)
(* ------------------------------------------------------------------ *)
Fixpoint cstr (s : list N) : list N :=
  match s with
  | [] => []
  | c :: t => if c =? 0 then [] else c :: cstr t
  end.

(* strchr(s, c) for c <> 0 on a NUL-free list: offset of the first c *)
Fixpoint strchr (s : list N) (c : N) : option nat :=
  match s with
  | [] => None
  | x :: t => if x =? c then Some O
              else match strchr t c with Some k => Some (S k) | None => None end
  end.

Definition nlen (l : list N) : N := N.of_nat (length l).

(* ------------------------------------------------------------------ *)
(* src/strscpy.c                                                       *)
(*   for (i = 0; i < n; i++)                                           *)
(*     if ('\0' == (d[i] = s[i])) return i > SSIZE_MAX ? UV_E2BIG : i; *)
(*   if (i == 0) return 0;                                             *)
(*   d[--i] = '\0';  return UV_E2BIG;                                  *)
(* [s] NUL-free, its end is the NUL; [acc] = d[0..i).                  *)
(* ------------------------------------------------------------------ *)
Fixpoint strscpy_loop (s : list N) (i n : N) (acc : list N) : Z * list N :=
  if n <=? i then
    (if i =? 0 then (0%Z, []) else (UV_E2BIG, removelast acc ++ [0]))
  else match s with
       | [] => ((if SSIZE_MAX <? i then UV_E2BIG else Z.of_N i), acc ++ [0])
       | c :: s' => strscpy_loop s' (i + 1) n (acc ++ [c])
       end.

Definition uv_strscpy (s : list N) (n : N) : Z * list N :=
  strscpy_loop (cstr s) 0 n [].

(* ------------------------------------------------------------------ *)
(* snprintf conversions                                                *)
(* ------------------------------------------------------------------ *)
(* "%u" of an unsigned char promoted to int (value < 256) *)
Definition dec_u8 (v : N) : list N :=
  if v <? 10 then [48 + v]
  else if v <? 100 then [48 + v / 10; 48 + v mod 10]
  else [48 + v / 100; 48 + (v / 10) mod 10; 48 + v mod 10].

Definition hexdig (d : N) : N := if d <? 10 then 48 + d else 87 + d.

(* "%x" of words[i] (value < 65536) *)
Definition hex_u16 (w : N) : list N :=
  if w <? 16 then [hexdig w]
  else if w <? 256 then [hexdig (w / 16); hexdig (w mod 16)]
  else if w <? 4096 then [hexdig (w / 256); hexdig ((w / 16) mod 16); hexdig (w mod 16)]
  else [hexdig (w / 4096); hexdig ((w / 256) mod 16); hexdig ((w / 16) mod 16);
        hexdig (w mod 16)].

Definition byte_at (src : list N) (i : nat) : N := nth i src 0.

(* ------------------------------------------------------------------ *)
(* inet_ntop4 (inet.c:48-59)                                           *)
(* ------------------------------------------------------------------ *)
Definition fmt4 (src : list N) : list N :=
  dec_u8 (byte_at src 0) ++ [46] ++ dec_u8 (byte_at src 1) ++ [46] ++
  dec_u8 (byte_at src 2) ++ [46] ++ dec_u8 (byte_at src 3).

Definition inet_ntop4 (src : list N) (size : N) : Z * list N :=
  let text := fmt4 src in
  let l := nlen text in                       (* l = snprintf(tmp, 16, fmt, ...) *)
  let tmp := firstn 15 text in                (* what snprintf leaves in tmp[16] *)
  if (l <=? 0) || (size <=? l) then (UV_ENOSPC, [])
  else (0%Z, snd (strscpy_loop tmp 0 size [])).     (* uv__strscpy(dst, tmp, size) *)

(* ------------------------------------------------------------------ *)
(* inet_ntop6 (inet.c:62-143)                                          *)
(* ------------------------------------------------------------------ *)
(* words[i / 2] |= src[i] << ((1 - (i % 2)) << 3) *)
Fixpoint words_of (src : list N) : list N :=
  match src with
  | hi :: lo :: t => (hi * 256 + lo) :: words_of t
  | _ => []
  end.

(* The search for the longest run of zero words; a run is (base, len), base = -1
   when unset.  [zs] = for the remaining words, whether words[i] == 0. *)
Definition run : Type := (Z * Z)%type.

Definition better (best cur : run) : run :=
  if (fst best =? -1)%Z || (snd best <? snd cur)%Z then cur else best.

Fixpoint scan_runs (zs : list bool) (i : Z) (best cur : run) : run * run :=
  match zs with
  | [] => (best, cur)
  | z :: zs' =>
      if z then
        (if (fst cur =? -1)%Z then scan_runs zs' (i + 1)%Z best (i, 1%Z)
         else scan_runs zs' (i + 1)%Z best (fst cur, (snd cur + 1)%Z))
      else
        (if negb (fst cur =? -1)%Z
         then scan_runs zs' (i + 1)%Z (better best cur) ((-1)%Z, snd cur)
         else scan_runs zs' (i + 1)%Z best cur)
  end.

Definition best_run (zs : list bool) : run :=
  let '(best, cur) := scan_runs zs 0%Z ((-1)%Z, 0%Z) ((-1)%Z, 0%Z) in
  let best := if negb (fst cur =? -1)%Z then better best cur else best in
  if negb (fst best =? -1)%Z && (snd best <? 2)%Z then ((-1)%Z, snd best) else best.

(* The formatting loop.  [ws] = words[i..8), [tmp] = tmp[0..tp).  Result:
   (0, tmp) after the loop (or after the break), or (err, []) on the early
   return.  snprintf(tp, sizeof tmp - (tp - tmp), "%x", words[i]) truncates when
   the text does not fit but returns the full length; tp would then point past
   what was written: UB_TMP_OVERFLOW. *)
Fixpoint fmt6_loop (ws : list N) (i : Z) (best : run) (w5 w7 : N) (src12 : list N)
                   (tmp : list N) : Z * list N :=
  match ws with
  | [] => (0%Z, tmp)
  | w :: ws' =>
      let bb := fst best in
      let bl := snd best in
      if negb (bb =? -1)%Z && (bb <=? i)%Z && (i <? bb + bl)%Z then
        fmt6_loop ws' (i + 1)%Z best w5 w7 src12 (if (i =? bb)%Z then tmp ++ [58] else tmp)
      else
        let tmp1 := if (i =? 0)%Z then tmp else tmp ++ [58] in
        if (i =? 6)%Z && (bb =? 0)%Z &&
           ((bl =? 6)%Z || ((bl =? 7)%Z && negb (w7 =? 1)) || ((bl =? 5)%Z && (w5 =? 65535)))
        then
          match inet_ntop4 src12 (46 - nlen tmp1) with
          | (Z0, b) => (0%Z, tmp1 ++ cstr b)             (* tp += strlen(tp); break *)
          | (e, _) => (e, [])
          end
        else
          let ds := hex_u16 w in
          if 46 - nlen tmp1 <=? nlen ds then (UB_TMP_OVERFLOW, [])
          else fmt6_loop ws' (i + 1)%Z best w5 w7 src12 (tmp1 ++ ds)
  end.

Definition is_zero (w : N) : bool := w =? 0.

(* everything up to and including "*tp++ = '\0'": (0, text without the NUL) *)
Definition ntop6_text (src : list N) : Z * list N :=
  let ws := words_of (firstn 16 src) in
  let best := best_run (map is_zero ws) in
  match fmt6_loop ws 0%Z best (nth 5 ws 0) (nth 7 ws 0) (skipn 12 src) [] with
  | (Z0, tmp) =>
      let tmp := if negb (fst best =? -1)%Z && (fst best + snd best =? 8)%Z
                 then tmp ++ [58] else tmp in
      if 46 <? nlen tmp + 1 then (UB_TMP_OVERFLOW, []) else (0%Z, tmp)
  | (e, _) => (e, [])
  end.

Definition inet_ntop6 (src : list N) (size : N) : Z * list N :=
  match ntop6_text src with
  | (Z0, tmp) =>
      if size <? nlen tmp + 1 then (UV_ENOSPC, [])     (* (size_t)(tp - tmp) > size *)
      else (0%Z, snd (strscpy_loop tmp 0 size []))
  | (e, _) => (e, [])
  end.

Definition uv_inet_ntop (af : Z) (src : list N) (size : N) : Z * list N :=
  if (af =? AF_INET)%Z then inet_ntop4 src size
  else if (af =? AF_INET6)%Z then inet_ntop6 src size
  else (UV_EAFNOSUPPORT, []).

(* ------------------------------------------------------------------ *)
(* inet_pton4 (inet.c:175-211)                                         *)
(* [done] = tmp[0..tp), [cur] = *tp                                    *)
(* ------------------------------------------------------------------ *)
Definition is_digit (c : N) : bool := (48 <=? c) && (c <=? 57).

Fixpoint pton4_loop (s : list N) (done : list N) (cur : N) (saw : bool) (octets : N)
  : Z * list N :=
  match s with
  | [] => if octets <? 4 then (UV_EINVAL, []) else (0%Z, done ++ [cur])
  | ch :: s' =>
      if is_digit ch then
        let nw := cur * 10 + (ch - 48) in
        if saw && (cur =? 0) then (UV_EINVAL, [])
        else if 255 <? nw then (UV_EINVAL, [])
        else if saw then pton4_loop s' done nw true octets
        else if 4 <? octets + 1 then (UV_EINVAL, [])
        else pton4_loop s' done nw true (octets + 1)
      else if (ch =? 46) && saw then
        (if octets =? 4 then (UV_EINVAL, [])
         else pton4_loop s' (done ++ [cur]) 0 false octets)
      else (UV_EINVAL, [])
  end.

Definition inet_pton4 (s : list N) : Z * list N := pton4_loop s [] 0 false 0.

(* ------------------------------------------------------------------ *)
(* inet_pton6 (inet.c:214-298)                                         *)
(* ------------------------------------------------------------------ *)
(* strchr in "0123456789abcdef", then in "0123456789ABCDEF": pch - xdigits *)
Definition hexval (c : N) : option N :=
  if (48 <=? c) && (c <=? 57) then Some (c - 48)
  else if (97 <=? c) && (c <=? 102) then Some (c - 87)
  else if (65 <=? c) && (c <=? 70) then Some (c - 55)
  else None.

Definition set_nth (i : nat) (v : N) (l : list N) : list N := upd i (fun _ => v) l.

(* for (i = 1; i <= n; i++) { endp[-i] = colonp[n - i]; colonp[n - i] = 0; } *)
Fixpoint shift_loop (todo : nat) (i n c : nat) (tmp : list N) : list N :=
  match todo with
  | O => tmp
  | S todo' =>
      let tmp1 := set_nth (16 - i) (nth (c + n - i) tmp 0) tmp in
      let tmp2 := set_nth (c + n - i) 0 tmp1 in
      shift_loop todo' (S i) n c tmp2
  end.

(* the code after the loop (inet.c:272-297); [out] = tmp[0..tp) *)
Definition pton6_finish (out : list N) (colonp : option nat) (seen val : N) : Z * list N :=
  let stored :=
    if seen =? 0 then Some out
    else if 16 <? nlen out + 2 then None
    else Some (out ++ [(val / 256) mod 256; val mod 256]) in
  match stored with
  | None => (UV_EINVAL, [])
  | Some out =>
      match colonp with
      | Some c =>
          if nlen out =? 16 then (UV_EINVAL, [])
          else let n := (length out - c)%nat in
               (0%Z, shift_loop n 1 n c (out ++ repeat 0 (16 - length out)))
      | None => if nlen out =? 16 then (0%Z, out) else (UV_EINVAL, [])
      end
  end.

(* [s] = src, [curtok] = the suffix curtok points to.  val <<= 4; val |= digit:
   the low four bits are zero after the shift, so "|=" is "+"; seen <= 4 keeps
   val below 2^16 (no unsigned wrap). *)
Fixpoint pton6_loop (s curtok : list N) (out : list N) (colonp : option nat)
                    (seen val : N) : Z * list N :=
  match s with
  | [] => pton6_finish out colonp seen val
  | ch :: s' =>
      match hexval ch with
      | Some d =>
          if 4 <? seen + 1 then (UV_EINVAL, [])
          else pton6_loop s' curtok out colonp (seen + 1) (val * 16 + d)
      | None =>
          if ch =? 58 then
            (if seen =? 0 then
               match colonp with
               | Some _ => (UV_EINVAL, [])
               | None => pton6_loop s' s' out (Some (length out)) seen val
               end
             else
               match s' with
               | [] => (UV_EINVAL, [])
               | _ :: _ =>
                   if 16 <? nlen out + 2 then (UV_EINVAL, [])
                   else pton6_loop s' s' (out ++ [(val / 256) mod 256; val mod 256])
                                   colonp 0 0
               end)
          else if (ch =? 46) && (nlen out + 4 <=? 16) then
            match inet_pton4 curtok with
            | (Z0, b) => pton6_finish (out ++ b) colonp 0 val
            | _ => (UV_EINVAL, [])
            end
          else (UV_EINVAL, [])
      end
  end.

Definition inet_pton6 (s : list N) : Z * list N :=
  match s with
  | c :: s1 =>
      if c =? 58 then
        match s1 with
        | c1 :: _ => if c1 =? 58 then pton6_loop s1 s1 [] None 0 0 else (UV_EINVAL, [])
        | [] => (UV_EINVAL, [])
        end
      else pton6_loop s s [] None 0 0
  | [] => pton6_loop s s [] None 0 0
  end.

(* uv_inet_pton (inet.c:146-172); src/dst non-NULL *)
Definition uv_inet_pton (af : Z) (src : list N) : Z * list N :=
  let s := cstr src in
  if (af =? AF_INET)%Z then inet_pton4 s
  else if (af =? AF_INET6)%Z then
    match strchr s 37 with
    | Some len =>
        if (45 <? len)%nat then (UV_EINVAL, [])
        else inet_pton6 (firstn len s)
    | None => inet_pton6 s
    end
  else (UV_EAFNOSUPPORT, []).

(* ------------------------------------------------------------------ *)
(* src/uv-common.c                                                     *)
(* Result: (rc, sin_port bytes, sin_addr bytes); the structure is      *)
(* zero-filled first, a failing uv_inet_pton leaves the address zero.  *)
(* sin6_scope_id = if_nametoindex(zone) is not modelled.               *)
(* ------------------------------------------------------------------ *)
Definition htons (port : Z) : list N :=
  let p := Z.to_N (port mod 65536)%Z in [p / 256; p mod 256].

Definition addr_result (r : Z * list N) (port : Z) (alen : nat) : Z * (list N * list N) :=
  match r with
  | (Z0, b) => (0%Z, (htons port, b))
  | (e, _) => (e, (htons port, repeat 0 alen))
  end.

Definition uv_ip4_addr (ip : list N) (port : Z) : Z * (list N * list N) :=
  addr_result (uv_inet_pton AF_INET ip) port 4.

Definition uv_ip6_addr (ip : list N) (port : Z) : Z * (list N * list N) :=
  let s := cstr ip in
  match strchr s 37 with
  | Some z =>
      (* address_part[46]; if (address_part_size >= sizeof(address_part)) return UV_EINVAL;
         the structure is already zero-filled with family and port set *)
      if (46 <=? z)%nat then (UV_EINVAL, (htons port, repeat 0 16))
      else addr_result (uv_inet_pton AF_INET6 (firstn z s)) port 16
  | None => addr_result (uv_inet_pton AF_INET6 s) port 16
  end.

Definition uv_ip4_name (addr : list N) (size : N) := uv_inet_ntop AF_INET addr size.
Definition uv_ip6_name (addr : list N) (size : N) := uv_inet_ntop AF_INET6 addr size.

Definition uv_ip_name (family : Z) (addr : list N) (size : N) : Z * list N :=
  if (family =? AF_INET)%Z then uv_inet_ntop AF_INET addr size
  else if (family =? AF_INET6)%Z then uv_inet_ntop AF_INET6 addr size
  else (UV_EAFNOSUPPORT, []).
