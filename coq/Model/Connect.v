(* C07 (connect side and send-handle checks): executable model of

     uv__tcp_connect        tcp.c:276-340      -> tcp_connect
     uv__tcp_bind (EADDRINUSE -> delayed_error)  tcp.c:163-226 -> the op CBindBusy
     uv_pipe_connect        pipe.c:229-249     -> pipe_connect
     uv_pipe_connect2       pipe.c:252-344     -> pipe_connect2
     uv__stream_connect     stream.c:1246-1292 -> stream_connect
     uv__stream_io (connect branch / POLLOUT with an empty queue)  stream.c:1190-1238
     uv__stream_close + uv__stream_destroy (connect_req part)  stream.c:1571-1620, 455-470
     uv_run(UV_RUN_NOWAIT): pending, poll, pending x8, closing  core.c:427-497
     uv__check_before_write stream.c:1295-1331 -> check_before_write
     uv_write2 (entry check) stream.c:1333-1400, uv_try_write2 stream.c:1421-1436,
     uv__try_write (send_handle branch) stream.c:752-830

   Variants: [cpfix] (repaired uv_pipe_connect, see cst), [try_write2 fixed].  [creg] mirrors
   uv__req_init / uv__req_unregister.

   One stream handle per script.  Oracles (answer lists consumed in order):
   socket(2) results, connect(2) results (0 or -errno), SO_ERROR answers
   (0 or -errno), and for every loop iteration whether the kernel reported an
   event for the handle's descriptor.  Connect callbacks run the script
   [beh : nat -> list cop].  No proofs in this file. *)
From UV Require Import Lib.Base.
Local Open Scope Z_scope.

Definition UV_EINTR : Z := -4.
Definition UV_EBADF : Z := -9.
Definition UV_EAGAIN_ : Z := -11.
Definition UV_EINVAL_ : Z := -22.
Definition UV_EPIPE : Z := -32.
Definition UV_EADDRINUSE : Z := -98.
Definition UV_ENOBUFS : Z := -105.
Definition UV_ECONNREFUSED : Z := -111.
Definition UV_EALREADY : Z := -114.
Definition UV_EINPROGRESS : Z := -115.
Definition UV_ECANCELED : Z := -125.

Record cstream := mkC {
  c_tcp : bool;             (* uv_tcp_t (true) or uv_pipe_t (false) *)
  c_fd : bool;              (* io_watcher.fd != -1 *)
  c_req : option nat;       (* connect_req *)
  c_delayed : Z;            (* delayed_error *)
  c_pollout : bool;         (* POLLOUT requested *)
  c_fed : bool;             (* io_watcher is in loop->pending_queue *)
  c_closing : bool;
  c_closed : bool           (* uv__stream_destroy has run *)
}.

Inductive csrc := SrcSo | SrcDelayed | SrcCancel | SrcRejected.

Inductive cev :=
| CRet (r : nat) (c : Z)                  (* the submitting call for request r returned c *)
| CCb (r : nat) (status : Z) (src : csrc) (* connect_cb(r, status); where the status came from *)
| CLost (r : nat)                         (* connect_req overwritten while r was pending *)
| CClosed                                 (* close_cb *)
| CReg (n : nat)
| CUsable (b : bool)
| CWcb                                    (* a write callback of the script (it runs the behaviour script, too) *)
| CScb                                    (* the shutdown callback of the script *)
| CTry (c : Z).                           (* return value of uv_try_write / uv_try_write2 *)                     (* at a connect callback with status 0: the stream has been opened
                                             (uv_is_readable / uv_is_writable), unless the script shut it down *)                         (* loop->active_reqs.count observed after an operation *)

Inductive cop :=
| CTcp                                        (* uv_tcp_connect, valid AF_INET address *)
| CBindBusy                                   (* uv_tcp_bind to an address in use: returns 0,
                                                 leaves delayed_error = UV_EADDRINUSE *)
| CBind                                       (* uv_tcp_bind to 127.0.0.1:0: creates the socket *)
| CPipe (namelen : nat)                       (* uv_pipe_connect(name), namelen = strlen(name) *)
| CPipe2 (flags : Z) (namelen : nat) (nul : bool)   (* uv_pipe_connect2 *)
| CWrite                                      (* uv_write of one byte (its callback does nothing) *)
| CShut                                       (* uv_shutdown (its callback does nothing) *)
| CRead                                       (* uv_read_start (alloc/read callbacks do nothing) *)
| CTryWrite                                   (* uv_try_write (uv_try_write2 on pipes) of one byte, issued by the
                                                 scripts only while a connect is pending *)
| CClose
| CRun.

Record corc := mkO {
  o_sock : list Z;          (* uv__socket results: 0 or -errno *)
  o_conn : list Z;          (* connect(2) results: 0 or -errno *)
  o_so : list Z;            (* getsockopt(SO_ERROR) answers as 0 or -errno *)
  o_ready : list bool       (* per loop iteration: event reported for the descriptor *)
}.

Record aux := mkA {
  a_wr : option bool;     (* UV_HANDLE_READABLE | UV_HANDLE_WRITABLE as far as the scripts rely on them:
                             Some false = not opened yet, Some true = set by uv__stream_open / maybe_new_socket,
                             None = the script called uv_shutdown or uv_read_start (WRITABLE is cleared by
                             the former, both by a read error): no further uv_write / uv_shutdown *)
  a_wq : nat;             (* one-byte write requests in write_queue (waiting for the connect / for POLLOUT) *)
  a_wc : nat;             (* write requests in write_completed_queue: their callback is owed *)
  a_sh : bool;            (* uv__is_stream_shutting: shutdown_req != NULL *)
  a_cn : bool             (* a connect callback has reported status 0: the scripts issue uv_write only
                             while a connect is pending (the request is queued) or on such a stream (the
                             one-byte write succeeds), so no request lingers in error state *)
}.

Record cst := mkCs {
  cs : cstream; co : corc; nreq : nat; ccbn : nat;
  cchain : list nat;      (* variant [cpfix] only: requests of uv_pipe_connect calls made while a
                             connect was pending, linked on connect_req->queue, in call order *)
  cpfix : bool;           (* false: the current code.  true: the code with
                             notes/C07_fix_pipe_connect_ealready.diff *)
  creg : nat;             (* loop->active_reqs.count as far as this handle's connect requests go:
                             +1 at every uv__req_init, -1 at every uv__req_unregister *)
  cax : aux               (* write / shutdown side as far as the connect machinery depends on it *)
}.

Definition next_z (l : list Z) : Z * list Z := match l with [] => (0, []) | a :: r => (a, r) end.
Definition next_b (l : list bool) : bool * list bool := match l with [] => (false, []) | a :: r => (a, r) end.

(* do r = connect(...) while (r == -1 && errno == EINTR) *)
Fixpoint connect_loop (l : list Z) : Z * list Z :=
  match l with
  | [] => (0, [])
  | a :: r => if a =? UV_EINTR then connect_loop r else (a, r)
  end.

Definition pending (s : cstream) : bool := match c_req s with Some _ => true | None => false end.

(* uv__stream_open(READABLE | WRITABLE) / maybe_new_socket's flags *)
Definition ax_on (a : aux) : aux :=
  mkA (match a_wr a with Some _ => Some true | None => None end) (a_wq a) (a_wc a) (a_sh a) (a_cn a).
Definition ax_cn (a : aux) : aux := mkA (a_wr a) (a_wq a) (a_wc a) (a_sh a) true.
Definition wr_on (w : option bool) : option bool := match w with Some _ => Some true | None => None end.
Definition wr_is (w : option bool) : bool := match w with Some true => true | _ => false end.

Definition upd_s (x : cst) (s : cstream) : cst := mkCs s (co x) (nreq x) (ccbn x) (cchain x) (cpfix x) (creg x) (cax x).

Definition tcp_connect (x : cst) : cst * list cev :=
  let s := cs x in let r := nreq x in
  let out (s : cstream) (o : corc) (wr : aux) :=
      (mkCs (mkC (c_tcp s) (c_fd s) (Some r) (c_delayed s) true
                 (if c_delayed s =? 0 then c_fed s else true) (c_closing s) (c_closed s))
            o (S r) (ccbn x) (cchain x) (cpfix x) (S (creg x)) wr, [CRet r 0]) in
  match c_req s with
  | Some _ => (mkCs s (co x) (S r) (ccbn x) (cchain x) (cpfix x) (creg x) (cax x), [CRet r UV_EALREADY])
  | None =>
    if negb (c_delayed s =? 0) then out s (co x) (cax x) else
    let '(serr, so') := if c_fd s then (0, o_sock (co x)) else next_z (o_sock (co x)) in
    if negb (serr =? 0) then
      (mkCs s (mkO so' (o_conn (co x)) (o_so (co x)) (o_ready (co x))) (S r) (ccbn x) (cchain x) (cpfix x) (creg x) (cax x), [CRet r serr])
    else
      let s1 := mkC (c_tcp s) true (c_req s) (c_delayed s) (c_pollout s) (c_fed s) (c_closing s) (c_closed s) in
      let (a, cn') := connect_loop (o_conn (co x)) in
      let o' := mkO so' cn' (o_so (co x)) (o_ready (co x)) in
      if (a =? 0) || (a =? UV_EINPROGRESS) then out s1 o' (ax_on (cax x))
      else if a =? UV_ECONNREFUSED then
        out (mkC (c_tcp s1) true (c_req s1) UV_ECONNREFUSED (c_pollout s1) (c_fed s1) (c_closing s1) (c_closed s1)) o' (ax_on (cax x))
      else (mkCs s1 o' (S r) (ccbn x) (cchain x) (cpfix x) (creg x) (ax_on (cax x)), [CRet r a])
  end.

Definition bind_busy (busy : bool) (x : cst) : cst * list cev :=
  let s := cs x in
  let '(serr, so') := if c_fd s then (0, o_sock (co x)) else next_z (o_sock (co x)) in
  let o' := mkO so' (o_conn (co x)) (o_so (co x)) (o_ready (co x)) in
  if negb (serr =? 0) then (mkCs s o' (nreq x) (ccbn x) (cchain x) (cpfix x) (creg x) (cax x), [])
  else (mkCs (mkC (c_tcp s) true (c_req s) (if busy then UV_EADDRINUSE else 0) (c_pollout s) (c_fed s) (c_closing s) (c_closed s))
             o' (nreq x) (ccbn x) (cchain x) (cpfix x) (creg x) (cax x), []).

(* the part of uv_pipe_connect2 after "out:" and the error branch of uv_pipe_connect:
   delayed_error = err; connect_req = req; feed when err != 0 *)
Definition pipe_out (s : cstream) (r : nat) (err : Z) : cstream * list cev :=
  (mkC (c_tcp s) (c_fd s) (Some r) err (c_pollout s)
       (if err =? 0 then c_fed s else true) (c_closing s) (c_closed s),
   match c_req s with Some r0 => [CLost r0] | None => [] end).

(* result: Some err = returned before "out:" with that error (argument validation) *)
Definition pipe_connect2_body (x : cst) (flags : Z) (namelen : nat) (nul : bool)
  : cst * list cev * option Z :=
  let s := cs x in let r := nreq x in
  if negb (Z.land flags (Z.lnot 1) =? 0) then (x, [], Some UV_EINVAL_) else
  if Nat.eqb namelen 0 then (x, [], Some UV_EINVAL_) else
  if nul then (x, [], Some UV_EINVAL_) else
  if negb (Z.land flags 1 =? 0) && Nat.ltb 108 namelen then (x, [], Some UV_EINVAL_) else
  let new_sock := negb (c_fd s) in
  let '(serr, so') := if new_sock then next_z (o_sock (co x)) else (0, o_sock (co x)) in
  if serr <? 0 then
    let (s', e) := pipe_out s r serr in
    (mkCs s' (mkO so' (o_conn (co x)) (o_so (co x)) (o_ready (co x))) (nreq x) (ccbn x) (cchain x) (cpfix x) (S (creg x)) (cax x), e, None)
  else
    let s1 := mkC (c_tcp s) true (c_req s) (c_delayed s) (c_pollout s) (c_fed s) (c_closing s) (c_closed s) in
    let (a, cn') := connect_loop (o_conn (co x)) in
    let o' := mkO so' cn' (o_so (co x)) (o_ready (co x)) in
    if (a =? 0) || (a =? UV_EINPROGRESS) then
      let s2 := mkC (c_tcp s1) true (c_req s1) (c_delayed s1) true (c_fed s1) (c_closing s1) (c_closed s1) in
      (* since /repo ff67af1: uv__stream_open (READABLE | WRITABLE) if (new_sock || neither flag is set yet);
         before it only if (new_sock), so a retry after a failed attempt stayed unreadable and unwritable *)
      let (s', e) := pipe_out s2 r 0 in
      (mkCs s' o' (nreq x) (ccbn x) (cchain x) (cpfix x) (S (creg x)) (ax_on (cax x)), e, None)
    else
      let (s', e) := pipe_out s1 r a in (mkCs s' o' (nreq x) (ccbn x) (cchain x) (cpfix x) (S (creg x)) (cax x), e, None).

Definition pipe_connect2 (x : cst) (flags : Z) (namelen : nat) (nul : bool) : cst * list cev :=
  let r := nreq x in
  if cpfix x && pending (cs x) then      (* fix: if (handle->connect_req != NULL) return UV_EALREADY; *)
    (mkCs (cs x) (co x) (S r) (ccbn x) (cchain x) (cpfix x) (creg x) (cax x), [CRet r UV_EALREADY])
  else
  let '(x', e, res) := pipe_connect2_body x flags namelen nul in
  match res with
  | Some err => (mkCs (cs x') (co x') (S r) (ccbn x') (cchain x') (cpfix x') (creg x') (cax x'), e ++ [CRet r err])
  | None => (mkCs (cs x') (co x') (S r) (ccbn x') (cchain x') (cpfix x') (creg x') (cax x'), e ++ [CRet r 0])
  end.

(* void uv_pipe_connect: an error return of uv_pipe_connect2 becomes a delayed error *)
Definition pipe_connect (x : cst) (namelen : nat) : cst * list cev :=
  let r := nreq x in
  if cpfix x && pending (cs x) then      (* fix: UV_EALREADY from uv_pipe_connect2; the request is linked
                                            behind the pending one and told later *)
    (mkCs (cs x) (co x) (S r) (ccbn x) (cchain x ++ [r]) (cpfix x) (S (creg x)) (cax x), [CRet r 0])
  else
  let '(x', e, res) := pipe_connect2_body x 0 namelen false in
  match res with
  | Some err => let (s', e') := pipe_out (cs x') r err in
                (mkCs s' (co x') (S r) (ccbn x') (cchain x') (cpfix x') (S (creg x')) (cax x'), e ++ e' ++ [CRet r 0])
  | None => (mkCs (cs x') (co x') (S r) (ccbn x') (cchain x') (cpfix x') (creg x') (cax x'), e ++ [CRet r 0])
  end.

(* uv_close on the stream: uv__io_close (stop, leave the pending queue), descriptor closed *)
Definition cclose (x : cst) : cst * list cev :=
  let s := cs x in
  if c_closing s then (x, [])
  else (upd_s x (mkC (c_tcp s) false (c_req s) (c_delayed s) false false true (c_closed s)), []).

(* what a callback (or the program between iterations) may do; connect calls on a
   closing handle are outside the API contract and skipped (the harness does the same) *)
(* uv_write / uv_shutdown / uv_read_start as far as the connect machinery can see them: with
   a descriptor, nothing queued and the stream still writable, uv_write completes (or fails) in
   the call and uv__write_req_finish feeds the watcher; uv_shutdown with an empty queue feeds
   it too.  The write and shutdown requests themselves are C05's; the harness keeps them out
   of the request count it reports. *)
Definition aux_op (x : cst) (o : cop) : cst * list cev :=
  let s := cs x in let a := cax x in
  if c_closing s || negb (c_fd s) then (x, []) else
  let with_cs (s' : cstream) (a' : aux) := mkCs s' (co x) (nreq x) (ccbn x) (cchain x) (cpfix x) (creg x) a' in
  let fed := mkC (c_tcp s) (c_fd s) (c_req s) (c_delayed s) (c_pollout s) true (c_closing s) (c_closed s) in
  let armed := mkC (c_tcp s) (c_fd s) (c_req s) (c_delayed s) true (c_fed s) (c_closing s) (c_closed s) in
  match o with
  | CWrite =>
      if negb (wr_is (a_wr a)) || negb (pending s || a_cn a) then (x, [])   (* UV_EPIPE / not issued by the scripts *)
      else if pending s then (with_cs s (mkA (a_wr a) (S (a_wq a)) (a_wc a) (a_sh a) (a_cn a)), [])   (* "still connecting, do nothing" *)
      else if Nat.eqb (a_wq a) 0 then (with_cs fed (mkA (a_wr a) 0 (S (a_wc a)) (a_sh a) (a_cn a)), [])   (* written (or failed) at once *)
      else (with_cs armed (mkA (a_wr a) (S (a_wq a)) (a_wc a) (a_sh a) (a_cn a)), [])      (* queued, POLLOUT *)
  | CShut =>
      if negb (wr_is (a_wr a)) || a_sh a then (x, [])                     (* UV_ENOTCONN *)
      else
        (* since /repo 83eb44c the watcher is fed only if (connect_req == NULL && write_queue empty) *)
        (with_cs (if negb (pending s) && Nat.eqb (a_wq a) 0 then fed else s) (mkA None (a_wq a) (a_wc a) true (a_cn a)), [])
  | CRead => if pending s then (x, []) else (with_cs s (mkA None (a_wq a) (a_wc a) (a_sh a) (a_cn a)), [])
  | _ => (x, [])
  end.

Definition cexec_simple (x : cst) (o : cop) : cst * list cev :=
  match o with
  | CClose => cclose x
  | CRun => (x, [])
  | CWrite | CShut | CRead => aux_op x o
  | CTryWrite =>
      (* if (stream->connect_req != NULL || stream->write_queue_size != 0) return UV_EAGAIN; - nothing is
         written, nothing changes *)
      if c_closing (cs x) || negb (c_fd (cs x)) || negb (pending (cs x)) then (x, []) else (x, [CTry UV_EAGAIN_])
  | _ =>
    if c_closing (cs x) then (x, []) else
    match o with
    | CTcp => if c_tcp (cs x) then tcp_connect x else (x, [])
    | CBindBusy => if c_tcp (cs x) && negb (pending (cs x)) then bind_busy true x else (x, [])
    | CBind => if c_tcp (cs x) && negb (pending (cs x)) then bind_busy false x else (x, [])
    | CPipe n => if c_tcp (cs x) then (x, []) else pipe_connect x n
    | CPipe2 f n z => if c_tcp (cs x) then (x, []) else pipe_connect2 x f n z
    | _ => (x, [])
    end
  end.

Fixpoint cexec_cb (x : cst) (os : list cop) : cst * list cev :=
  match os with
  | [] => (x, [])
  | o :: r => let (x1, e1) := cexec_simple x o in
              let (x2, e2) := cexec_cb x1 r in (x2, e1 ++ CReg (creg x1) :: e2)
  end.

Definition run_cb (x : cst) (beh : nat -> list cop) : cst * list cev :=
  cexec_cb (mkCs (cs x) (co x) (nreq x) (S (ccbn x)) (cchain x) (cpfix x) (creg x) (cax x)) (beh (ccbn x)).

(* variant [cpfix]: the requests that were linked behind the completed one get their
   callback (UV_EALREADY, or UV_ECANCELED when the handle is destroyed), in call order *)
Fixpoint reject (ch : list nat) (st : Z) (src : csrc) (x : cst) (beh : nat -> list cop) : cst * list cev :=
  match ch with
  | [] => (x, [])
  | q :: t => let (x1, e1) := run_cb (mkCs (cs x) (co x) (nreq x) (ccbn x) (cchain x) (cpfix x) (pred (creg x)) (cax x)) beh in
              let (x2, e2) := reject t st src x1 beh in (x2, CCb q st src :: e1 ++ e2)
  end.

(* a write callback runs the behaviour script, except that it issues no uv_write itself: while
   uv__write_callbacks is at work cancelled requests may still count in write_queue_size, and
   what a new write does then is the write path's (C05's) business *)
Definition run_cb_w (x : cst) (beh : nat -> list cop) : cst * list cev :=
  cexec_cb (mkCs (cs x) (co x) (nreq x) (S (ccbn x)) (cchain x) (cpfix x) (creg x) (cax x))
           (map (fun o => match o with CWrite => CRun | _ => o end) (beh (ccbn x))).

(* uv__write_callbacks over [n] completed requests *)
Fixpoint write_cbs (n : nat) (x : cst) (beh : nat -> list cop) : cst * list cev :=
  match n with
  | O => (x, [])
  | S k => let (x1, e1) := run_cb_w x beh in
           let (x2, e2) := write_cbs k x1 beh in (x2, CWcb :: e1 ++ e2)
  end.

(* uv__drain under the condition both callers now use: no connect pending and both write
   queues empty.  POLLOUT is stopped and a pending shutdown is carried out (its callback runs). *)
Definition drain_if_idle (x : cst) : cst * list cev :=
  let s := cs x in let a := cax x in
  if negb (pending s) && Nat.eqb (a_wq a) 0 && Nat.eqb (a_wc a) 0 then
    (mkCs (mkC (c_tcp s) (c_fd s) (c_req s) (c_delayed s) false (c_fed s) (c_closing s) (c_closed s))
          (co x) (nreq x) (ccbn x) (cchain x) (cpfix x) (creg x) (mkA (a_wr a) 0 0 false (a_cn a)),
     if a_sh a then [CScb] else [])
  else (x, []).

(* all requests of both write queues get their callback (flush + uv__write_callbacks) *)
Definition flush_cbs (x : cst) (beh : nat -> list cop) : cst * list cev :=
  let a := cax x in
  write_cbs (a_wq a + a_wc a)
            (mkCs (cs x) (co x) (nreq x) (ccbn x) (cchain x) (cpfix x) (creg x) (mkA (a_wr a) 0 0 (a_sh a) (a_cn a))) beh.

(* the tail of uv__stream_connect after the callback, if the descriptor is still there.  The
   connect failed: the queued writes are cancelled and have their callbacks; a pending shutdown
   is carried out unless a callback started another connect (or closed the handle) *)
Definition after_failed_connect (failed : bool) (x : cst) (beh : nat -> list cop) : cst * list cev :=
  if failed && c_fd (cs x) then
    let (x1, e1) := flush_cbs x beh in
    if a_sh (cax x1) && c_fd (cs x1) then let (x2, e2) := drain_if_idle x1 in (x2, e1 ++ e2) else (x1, e1)
  else if negb failed && c_fd (cs x) && negb (Nat.eqb (a_wc (cax x)) 0) then
    (* the connect succeeded and requests that had finished before it are still waiting for their
       callbacks (write_completed_queue not empty): the wake-up that was meant for them ended up in
       uv__stream_connect, so the watcher is fed again and the next run of the pending queue gets
       to uv__write_callbacks (repair of C05's write_callback_lost_when_connect_started_before_delivery) *)
    let s := cs x in
    (mkCs (mkC (c_tcp s) (c_fd s) (c_req s) (c_delayed s) (c_pollout s) true (c_closing s) (c_closed s))
          (co x) (nreq x) (ccbn x) (cchain x) (cpfix x) (creg x) (cax x), [])
  else (x, []).

(* uv__stream_connect *)
Definition stream_connect (x : cst) (beh : nat -> list cop) : cst * list cev :=
  let s := cs x in
  match c_req s with
  | None => (x, [])
  | Some r =>
    let '(error, src, s1, o') :=
      if negb (c_delayed s =? 0) then
        (c_delayed s, SrcDelayed,
         mkC (c_tcp s) (c_fd s) (c_req s) 0 (c_pollout s) (c_fed s) (c_closing s) (c_closed s), co x)
      else
        let (e, so') := next_z (o_so (co x)) in
        (e, SrcSo, s, mkO (o_sock (co x)) (o_conn (co x)) so' (o_ready (co x))) in
    if error =? UV_EINPROGRESS then (mkCs s1 o' (nreq x) (ccbn x) (cchain x) (cpfix x) (creg x) (cax x), [])
    else
      (* POLLOUT is stopped before the callback if (error < 0 || (write_queue empty && !shutting)) *)
      let keep := negb (error <? 0) && (negb (Nat.eqb (a_wq (cax x)) 0) || a_sh (cax x)) in
      let s2 := mkC (c_tcp s1) (c_fd s1) None (c_delayed s1) (if keep then c_pollout s1 else false)
                    (c_fed s1) (c_closing s1) (c_closed s1) in
      let (x1, e1) := run_cb (mkCs s2 o' (nreq x) (ccbn x) [] (cpfix x) (pred (creg x))
                                   (if error =? 0 then ax_cn (cax x) else cax x)) beh in
      let (x2, e2) := reject (cchain x) UV_EALREADY SrcRejected x1 beh in
      let (x3, e3) := after_failed_connect (error <? 0) x2 beh in
      (x3, CCb r error src ::
           (if error =? 0 then [CUsable (match a_wr (cax x) with Some false => false | _ => true end)] else [])
           ++ e1 ++ e2 ++ e3)
  end.

(* uv__stream_io: a pending connect takes the event; otherwise uv__write sends the queued
   one-byte writes (each finished request feeds the watcher), the write callbacks run, and
   (since /repo 5ec9be1 only if no callback started a connect) with both queues empty uv__drain
   stops POLLOUT and performs a pending shutdown *)
Definition stream_io (x : cst) (beh : nat -> list cop) : cst * list cev :=
  match c_req (cs x) with
  | Some _ => stream_connect x beh
  | None => let s := cs x in let a := cax x in
            let x0 := mkCs (mkC (c_tcp s) (c_fd s) None (c_delayed s) (c_pollout s)
                                (c_fed s || negb (Nat.eqb (a_wq a) 0)) (c_closing s) (c_closed s))
                           (co x) (nreq x) (ccbn x) (cchain x) (cpfix x) (creg x) (mkA (a_wr a) 0 (a_wq a + a_wc a) (a_sh a) (a_cn a)) in
            let (x1, e1) := flush_cbs x0 beh in
            let (x2, e2) := drain_if_idle x1 in (x2, e1 ++ e2)
  end.

Definition unfeed (x : cst) : cst :=
  let s := cs x in
  upd_s x (mkC (c_tcp s) (c_fd s) (c_req s) (c_delayed s) (c_pollout s) false (c_closing s) (c_closed s)).

Definition run_pending (x : cst) (beh : nat -> list cop) : cst * list cev :=
  if c_fed (cs x) then stream_io (unfeed x) beh else (x, []).

Fixpoint drain (n : nat) (x : cst) (beh : nat -> list cop) : cst * list cev :=
  match n with
  | O => (x, [])
  | S n' => if c_fed (cs x) then
              let (x1, e1) := stream_io (unfeed x) beh in
              let (x2, e2) := drain n' x1 beh in (x2, e1 ++ e2)
            else (x, [])
  end.

(* uv__finish_close -> uv__stream_destroy, then close_cb *)
Definition destroy (x : cst) (beh : nat -> list cop) : cst * list cev :=
  let s := cs x in
  let s1 := mkC (c_tcp s) (c_fd s) None (c_delayed s) (c_pollout s) (c_fed s) true true in
  let '(x2, ec) :=
    match c_req s with
    | Some r => let (x1, e1) := run_cb (mkCs s1 (co x) (nreq x) (ccbn x) [] (cpfix x) (pred (creg x)) (cax x)) beh in
                let (x2, e2) := reject (cchain x) UV_ECANCELED SrcCancel x1 beh in
                (x2, CCb r UV_ECANCELED SrcCancel :: e1 ++ e2)
    | None => (mkCs s1 (co x) (nreq x) (ccbn x) (cchain x) (cpfix x) (creg x) (cax x), [])
    end in
  (* uv__stream_flush_write_queue(UV_ECANCELED); uv__write_callbacks; uv__drain *)
  let (x3, e3) := flush_cbs x2 beh in
  let a := cax x3 in
  (mkCs (cs x3) (co x3) (nreq x3) (ccbn x3) (cchain x3) (cpfix x3) (creg x3) (mkA (a_wr a) (a_wq a) (a_wc a) false (a_cn a)),
   ec ++ e3 ++ (if a_sh a then [CScb] else []) ++ [CClosed]).

Definition run_iter (x : cst) (beh : nat -> list cop) : cst * list cev :=
  let (rdy, rd') := next_b (o_ready (co x)) in
  let x0 := mkCs (cs x) (mkO (o_sock (co x)) (o_conn (co x)) (o_so (co x)) rd') (nreq x) (ccbn x) (cchain x) (cpfix x) (creg x) (cax x) in
  let (x1, e1) := run_pending x0 beh in
  let (x2, e2) := if c_pollout (cs x1) && rdy && negb (c_closing (cs x1))
                  then stream_io x1 beh else (x1, []) in
  let (x3, e3) := drain 8 x2 beh in
  let (x4, e4) := if c_closing (cs x3) && negb (c_closed (cs x3)) then destroy x3 beh else (x3, []) in
  (x4, e1 ++ e2 ++ e3 ++ e4).

Definition cstep (x : cst) (o : cop) (beh : nat -> list cop) : cst * list cev :=
  match o with
  | CRun => run_iter x beh
  | _ => cexec_simple x o
  end.

Fixpoint crun (x : cst) (os : list cop) (beh : nat -> list cop) : cst * list cev :=
  match os with
  | [] => (x, [])
  | o :: r => let (x1, e1) := cstep x o beh in
              let (x2, e2) := crun x1 r beh in (x2, e1 ++ CReg (creg x1) :: e2)
  end.

Definition cinit (pfix : bool) (tcp : bool) (o : corc) : cst :=
  mkCs (mkC tcp false None 0 false false false false) o 0 0 [] pfix 0 (mkA (Some false) 0 0 false false).

(* ------------------------------------------------------------------ *)
(* uv__check_before_write and its two callers *)
Record wstream := mkW {
  w_fd : Z;                 (* uv__stream_fd(stream) *)
  w_writable : bool;        (* UV_HANDLE_WRITABLE *)
  w_pipe : bool;            (* stream->type == UV_NAMED_PIPE *)
  w_ipc : bool;             (* ((uv_pipe_t* ) stream)->ipc *)
  w_connecting : bool;      (* connect_req != NULL *)
  w_wqs : Z                 (* write_queue_size *)
}.

(* the handle to send: uv__handle_fd (-1 for a type without descriptor) and closing flag *)
Record shandle := mkH { h_fd : Z; h_closing : bool }.

Definition check_before_write (s : wstream) (sh : option shandle) : Z :=
  if w_fd s <? 0 then UV_EBADF else
  if negb (w_writable s) then UV_EPIPE else
  match sh with
  | None => 0
  | Some h => if negb (w_pipe s && w_ipc s) then UV_EINVAL_
              else if h_fd h <? 0 then UV_EBADF else 0
  end.

(* uv_write2: 0 = request queued *)
Definition write2 (s : wstream) (sh : option shandle) : Z := check_before_write s sh.

(* uv__try_write; [sys] = result of sendmsg/writev: n >= 0 or -errno *)
Definition try_write (sh : option shandle) (sys : Z) : Z :=
  match sh with
  | Some h => if h_closing h then UV_EBADF else
              if sys >=? 0 then sys else
              if (sys =? UV_EAGAIN_) || (sys =? UV_ENOBUFS) then UV_EAGAIN_ else sys
  | None => if sys >=? 0 then sys else
            if (sys =? UV_EAGAIN_) || (sys =? UV_ENOBUFS) then UV_EAGAIN_ else sys
  end.

(* uv_try_write2.  [fixed = true] is the current code (since /repo commit c5357ca
   "fix: uv_try_write2 did not validate send_handle"): send_handle is passed to
   uv__check_before_write.  [fixed = false] is the code before that commit (NULL was
   passed); kept for the history refutation only. *)
Definition try_write2 (fixed : bool) (s : wstream) (sh : option shandle) (sys : Z) : Z :=
  if w_connecting s || negb (w_wqs s =? 0) then UV_EAGAIN_ else
  let err := check_before_write s (if fixed then sh else None) in
  if err <? 0 then err else try_write sh sys.

(* the current uv_try_write2 *)
Definition uv_try_write2 (s : wstream) (sh : option shandle) (sys : Z) : Z := try_write2 true s sh sys.
