(* C16 - error-path logic of selected libuv entry points under allocation /
   system-call faults.  Written by hand from the C sources of /repo (Linux),
   statement by statement; every allocation and every system call is a point
   that consumes an answer from an oracle.  No proofs here.

   The world:  w_alloc  answers of the allocator (true = the block is returned),
               w_sys    answers of the kernel,
               w_log    the points asked so far, newest first (compared with the
                        points recorded by the harness).
   The ledger: what the call has allocated / registered (see [ledger]).        *)
From UV Require Import Lib.Base.
Local Open Scope Z_scope.

Inductive errno := EAGAIN | ENOBUFS | EMFILE | ENFILE | ENOMEM | ENOSPC.
Inductive ans := Ok | Fail (e : errno) | Intr.

Inductive pt :=
  | PMalloc | PCalloc | PRealloc
  | PSocket | PSocketpair | PPipe2 | PEventfd | PEpollCreate | PFork | PWaitpid
  | PRead | PWrite | PWritev | PSendmsg | PClose | PIoctl | PAccept4
  | PInotifyInit | PInotifyAdd | PPthreadCreate | POpen | PIouSetup | PMmap.

(* abort() sites.  The first five are the ones the property permits. *)
Inductive site :=
  | SMaybeResize | SPollerRegister | SFsPollRearm | SInotifyFork | SThreadPoolStart
  | SSignalGlobalInit | SSignalLock | SAsyncSend | SAsyncIo | SSignalEvent | SSpawnClose | SSpawnRead.
Definition permitted (s : site) : bool :=
  match s with
  | SMaybeResize | SPollerRegister | SFsPollRearm | SInotifyFork | SThreadPoolStart => true
  | _ => false
  end.

Inductive rc := RcOk | RcErr (e : errno) | RcIntr | RcOther (code : Z).
Inductive res := Ret (r : rc) | Abort (s : site).

Record ledger := mkL {
  l_reqs : Z;       (* loop->active_reqs.count *)
  l_handles : Z;    (* loop->active_handles *)
  l_hq : Z;         (* length of loop->handle_queue *)
  l_mem : Z;        (* live blocks obtained from uv__malloc & co. *)
  l_fds : Z;        (* open descriptors *)
  l_watch : Z;      (* kernel inotify watches of the loop's inotify instance *)
  l_dangling : Z    (* freed blocks still linked into a loop queue *)
}.
Definition l0 : ledger := mkL 0 0 0 0 0 0 0.

Definition add_reqs d l := mkL (l_reqs l + d) (l_handles l) (l_hq l) (l_mem l) (l_fds l) (l_watch l) (l_dangling l).
Definition add_handles d l := mkL (l_reqs l) (l_handles l + d) (l_hq l) (l_mem l) (l_fds l) (l_watch l) (l_dangling l).
Definition add_hq d l := mkL (l_reqs l) (l_handles l) (l_hq l + d) (l_mem l) (l_fds l) (l_watch l) (l_dangling l).
Definition add_mem d l := mkL (l_reqs l) (l_handles l) (l_hq l) (l_mem l + d) (l_fds l) (l_watch l) (l_dangling l).
Definition add_fds d l := mkL (l_reqs l) (l_handles l) (l_hq l) (l_mem l) (l_fds l + d) (l_watch l) (l_dangling l).
Definition add_watch d l := mkL (l_reqs l) (l_handles l) (l_hq l) (l_mem l) (l_fds l) (l_watch l + d) (l_dangling l).
Definition add_dangling d l := mkL (l_reqs l) (l_handles l) (l_hq l) (l_mem l) (l_fds l) (l_watch l) (l_dangling l + d).

Record world := mkW { w_alloc : list bool; w_sys : list ans; w_log : list pt }.

(* uv__malloc / uv__calloc / uv__realloc: NULL or a block *)
Definition alloc (p : pt) (w : world) : bool * world :=
  match w_alloc w with
  | [] => (true, mkW [] (w_sys w) (p :: w_log w))
  | b :: r => (b, mkW r (w_sys w) (p :: w_log w))
  end.

(* a system call issued once *)
Definition sys (p : pt) (w : world) : ans * world :=
  match w_sys w with
  | [] => (Ok, mkW (w_alloc w) [] (p :: w_log w))
  | a :: r => (a, mkW (w_alloc w) r (p :: w_log w))
  end.

(* do r = call(); while (r == -1 && errno == EINTR); *)
Fixpoint retry (p : pt) (o : list ans) (log : list pt) : ans * list ans * list pt :=
  match o with
  | [] => (Ok, [], p :: log)
  | Intr :: o' => retry p o' (p :: log)
  | a :: o' => (a, o', p :: log)
  end.
Definition sysr (p : pt) (w : world) : ans * world :=
  let '(a, o, lg) := retry p (w_sys w) (w_log w) in (a, mkW (w_alloc w) o lg).

Definition rc_of (a : ans) : rc :=
  match a with Ok => RcOk | Fail e => RcErr e | Intr => RcIntr end.

(* what a call leaves behind *)
Record out := mkO { o_res : res; o_led : ledger; o_cb : option rc; o_w : world }.

(* ---------------------------------------------------------------------- *)
(* uv__close_nocheckstdio, src/unix/core.c:626-642: EINTR and EINPROGRESS are
   success (the descriptor is gone either way on Linux).                      *)
Definition uv_close_fd (l : ledger) (w : world) : rc * ledger * world :=
  let '(a, w) := sys PClose w in
  match a with
  | Ok | Intr => (RcOk, add_fds (-1) l, w)
  | Fail e => (RcErr e, add_fds (-1) l, w)
  end.

(* maybe_resize, src/unix/core.c:870-902 *)
Definition maybe_resize (need : bool) (l : ledger) (w : world) : option site * ledger * world :=
  if need then
    let '(b, w) := alloc PRealloc w in
    if b then (None, l, w)            (* uv__reallocf: same block count *)
    else (Some SMaybeResize, l, w)
  else (None, l, w).

(* uv__accept, src/unix/core.c:559-589 *)
Definition uv_accept_fd (l : ledger) (w : world) : out :=
  let '(a, w) := sysr PAccept4 w in
  match a with
  | Ok => mkO (Ret RcOk) (add_fds 1 l) None w
  | Fail e => mkO (Ret (RcErr e)) l None w
  | Intr => mkO (Ret RcIntr) l None w          (* unreachable: sysr never answers Intr *)
  end.

(* uv__try_write + the part of uv__write that handles its result,
   src/unix/stream.c:753-905.  [Ok] = the whole request was written. *)
Inductive wstate := WDone (status : rc) | WQueued.
Definition uv_write_step (single : bool) (w : world) : wstate * world :=
  let '(a, w) := sysr (if single then PWrite else PWritev) w in
  match a with
  | Ok => (WDone RcOk, w)
  | Fail EAGAIN | Fail ENOBUFS => (WQueued, w)            (* uv__io_start(POLLOUT) *)
  | Fail e => (WDone (RcErr e), w)                        (* req->error, finished *)
  | Intr => (WDone RcIntr, w)
  end.

(* uv_write2, src/unix/stream.c:1333-1402 (valid, writable stream).  Since /repo f63c297 the
   uv_buf_t array is allocated (line 1364-1369) before uv__req_init registers the request. *)
Definition uv_write2 (nbufs : nat) (connecting empty_queue : bool) (l : ledger) (w : world) : out :=
  let big := Nat.ltb 4 nbufs in
  let '(ok, w) := if big then alloc PMalloc w else (true, w) in
  if negb ok then mkO (Ret (RcErr ENOMEM)) l None w        (* nothing registered yet *)
  else
    let l := if big then add_mem 1 l else l in
    let l := add_reqs 1 l in                               (* uv__req_init *)
    if connecting then mkO (Ret RcOk) l None w
    else if empty_queue then
      let '(s, w) := uv_write_step (Nat.eqb nbufs 1) w in  (* uv__write *)
      match s with
      | WDone RcOk => mkO (Ret RcOk) (if big then add_mem (-1) l else l) (Some RcOk) w   (* uv__write_req_finish frees bufs *)
      | WDone st => mkO (Ret RcOk) l (Some st) w      (* on error bufs are kept until the callback *)
      | WQueued => mkO (Ret RcOk) l None w
      end
    else mkO (Ret RcOk) l None w.

(* uv__udp_send, src/unix/udp.c:562-625 (socket already bound) *)
Definition uv_udp_send (nbufs : nat) (empty_queue processing was_active : bool) (l : ledger) (w : world) : out :=
  let l := add_reqs 1 l in                                 (* line 586 *)
  let big := Nat.ltb 4 nbufs in
  let '(ok, w) := if big then alloc PMalloc w else (true, w) in
  if negb ok then mkO (Ret (RcErr ENOMEM)) (add_reqs (-1) l) None w   (* lines 600-603 *)
  else
    let l := if big then add_mem 1 l else l in
    let l := if was_active then l else add_handles 1 l in  (* uv__handle_start *)
    if empty_queue && negb processing then
      let '(a, w) := sysr PSendmsg w in                    (* uv__udp_sendmsg *)
      match a with
      | Ok => mkO (Ret RcOk) l (Some RcOk) w
      | Fail EAGAIN | Fail ENOBUFS => mkO (Ret RcOk) l None w
      | Fail e => mkO (Ret RcOk) l (Some (RcErr e)) w
      | Intr => mkO (Ret RcOk) l (Some RcIntr) w
      end
    else mkO (Ret RcOk) l None w.

(* init_threads, src/threadpool.c:193-237 with UV_THREADPOOL_SIZE <= 4 *)
Definition pool_start (started : bool) (nthreads : nat) (w : world) : option site * world :=
  if started then (None, w)
  else
    (fix go (n : nat) (w : world) : option site * world :=
       match n with
       | O => (None, w)
       | S n' =>
         let '(a, w) := sys PPthreadCreate w in
         match a with Ok => go n' w | _ => (Some SThreadPoolStart, w) end
       end) nthreads w.

(* uv_fs_stat with a callback, src/unix/fs.c:2155-2162 + PATH/POST macros and
   uv__iou_fs_statx (ring not enabled: the statx buffer is allocated and freed) *)
Definition uv_fs_stat_async (pool_started : bool) (l : ledger) (w : world) : out :=
  let '(ok, w) := alloc PMalloc w in                       (* PATH: uv__strdup *)
  if negb ok then mkO (Ret (RcErr ENOMEM)) l None w
  else
    let l := add_mem 1 l in
    let '(_, w) := alloc PMalloc w in                      (* statxbuf; NULL or no sqe: fall back *)
    let l := add_reqs 1 l in                               (* POST: uv__req_register *)
    let '(ab, w) := pool_start pool_started 1 w in
    match ab with
    | Some s => mkO (Abort s) l None w
    | None => mkO (Ret RcOk) l None w
    end.

(* uv_fs_rename with a callback: PATH2 + POST *)
Definition uv_fs_rename_async (pool_started : bool) (l : ledger) (w : world) : out :=
  let '(ok, w) := alloc PMalloc w in
  if negb ok then mkO (Ret (RcErr ENOMEM)) l None w
  else
    let l := add_reqs 1 (add_mem 1 l) in
    let '(ab, w) := pool_start pool_started 1 w in
    match ab with
    | Some s => mkO (Abort s) l None w
    | None => mkO (Ret RcOk) l None w
    end.

(* uv_fs_poll_start, src/fs-poll.c:66-116 (after /repo 9bc8132: the stat request is submitted
   before uv_timer_init links the timer into handle_queue) *)
Definition uv_fs_poll_start (active pool_started : bool) (l : ledger) (w : world) : out :=
  if active then mkO (Ret RcOk) l None w
  else
    let '(ok, w) := alloc PCalloc w in                     (* ctx, line 80 *)
    if negb ok then mkO (Ret (RcErr ENOMEM)) l None w
    else
      let l := add_mem 1 l in
      let o := uv_fs_stat_async pool_started l w in        (* line 96 *)
      match o_res o with
      | Ret RcOk =>
        (* uv_timer_init: linked into handle_queue; uv__handle_start *)
        mkO (Ret RcOk) (add_handles 1 (add_hq 1 (o_led o))) None (o_w o)
      | Ret e => mkO (Ret e) (add_mem (-1) (o_led o)) None (o_w o)       (* error: uv__free(ctx) *)
      | Abort s => mkO (Abort s) (o_led o) None (o_w o)
      end.

(* uv_os_environ, src/unix/core.c:1431-1484.  [env]: does the entry contain '='?
   Returns the number of items handed to the caller through o_cb = RcOther cnt.
   Since /repo 75025a4 the failure path frees envitems[i].name for i < cnt. *)
Fixpoint environ_loop (env : list bool) (cnt : Z) (l : ledger) (w : world) : out :=
  match env with
  | [] => mkO (Ret RcOk) l (Some (RcOther cnt)) w
  | has_eq :: rest =>
    let '(ok, w) := alloc PMalloc w in                     (* uv__strdup, line 1452 *)
    if negb ok then
      (* fail: the cnt names duplicated so far, then the array *)
      mkO (Ret (RcErr ENOMEM)) (add_mem (- cnt - 1) l) (Some (RcOther 0)) w
    else if has_eq then environ_loop rest (cnt + 1) (add_mem 1 l) w
    else environ_loop rest cnt l w                         (* strdup + free *)
  end.
Definition uv_os_environ (env : list bool) (l : ledger) (w : world) : out :=
  let '(ok, w) := alloc PCalloc w in
  if negb ok then mkO (Ret (RcErr ENOMEM)) l (Some (RcOther 0)) w
  else environ_loop env 0 (add_mem 1 l) w.

(* uv_fs_event_start, src/unix/linux.c:2646-2707 with init_inotify 2462-2477 *)
Definition uv_fs_event_start (inotify_open known_wd need_resize : bool) (l : ledger) (w : world) : out :=
  let step2 (l : ledger) (w : world) : out :=
    let '(a, w) := sys PInotifyAdd w in
    match a with
    | Fail e => mkO (Ret (RcErr e)) l None w
    | Intr => mkO (Ret RcIntr) l None w
    | Ok =>
      if known_wd then mkO (Ret RcOk) (add_handles 1 l) None w
      else
        let '(ok, w) := alloc PMalloc w in                 (* watcher_list, line 2684 *)
        if negb ok then mkO (Ret (RcErr ENOMEM)) l None w   (* inotify_rm_watch(wd) since /repo 3625d2b *)
        else mkO (Ret RcOk) (add_watch 1 (add_handles 1 (add_mem 1 l))) None w
    end in
  if inotify_open then step2 l w
  else
    let '(a, w) := sys PInotifyInit w in
    match a with
    | Fail e => mkO (Ret (RcErr e)) l None w
    | Intr => mkO (Ret RcIntr) l None w
    | Ok =>
      let l := add_fds 1 l in
      let '(ab, l, w) := maybe_resize need_resize l w in   (* uv__io_start *)
      match ab with
      | Some s => mkO (Abort s) l None w
      | None => step2 l w
      end
    end.

(* uv_getaddrinfo, src/unix/getaddrinfo.c:138-217 (hostname given, callback given) *)
Definition uv_getaddrinfo (idna : option Z) (pool_started : bool) (l : ledger) (w : world) : out :=
  match idna with
  | Some code => mkO (Ret (RcOther code)) l None w         (* uv__idna_toascii failed *)
  | None =>
    let '(ok, w) := alloc PMalloc w in
    if negb ok then mkO (Ret (RcErr ENOMEM)) l None w
    else
      let l := add_reqs 1 (add_mem 1 l) in                 (* uv__req_init after the allocation *)
      let '(ab, w) := pool_start pool_started 1 w in
      match ab with
      | Some s => mkO (Abort s) l None w
      | None => mkO (Ret RcOk) l None w
      end
  end.

(* ---- uv_spawn, src/unix/process.c:966-1093 ---------------------------------
   stdio entries: true = UV_CREATE_PIPE, false = UV_IGNORE.  [first_child]: the
   SIGCHLD watcher is not started yet (lock, sigaction, unlock).                  *)
Fixpoint init_stdio (stdio : list bool) (l : ledger) (w : world) : option rc * ledger * world :=
  match stdio with
  | [] => (None, l, w)
  | false :: r => init_stdio r l w
  | true :: r =>
    let '(a, w) := sys PSocketpair w in                    (* uv_socketpair *)
    match a with
    | Ok => init_stdio r (add_fds 2 l) w
    | Fail e => (Some (RcErr e), l, w)
    | Intr => (Some RcIntr, l, w)
    end
  end.
Fixpoint close_n (n : nat) (l : ledger) (w : world) : ledger * world :=
  match n with
  | O => (l, w)
  | S n' => let '(_, l, w) := uv_close_fd l w in close_n n' l w
  end.
(* uv__process_open_stream for every pipe: close the child's end, FIONBIO, uv__stream_open *)
Fixpoint open_streams (stdio : list bool) (l : ledger) (w : world) : option site * ledger * world :=
  match stdio with
  | [] => (None, l, w)
  | false :: r => open_streams r l w
  | true :: r =>
    let '(c, l, w) := uv_close_fd l w in
    match c with
    | RcOk =>
      let '(_, w) := sysr PIoctl w in                      (* uv__nonblock: result ignored *)
      open_streams r l w
    | _ => (Some SSpawnClose, l, w)
    end
  end.
Definition npipes (stdio : list bool) : nat := length (filter (fun b => b) stdio).

Definition uv_spawn (stdio : list bool) (first_child : bool) (l : ledger) (w : world) : out :=
  let l := add_hq 1 l in                                   (* uv__handle_init, line 991 *)
  let big := Nat.ltb 8 (length stdio) in
  let '(ok, w) := if big then alloc PMalloc w else (true, w) in
  if negb ok then mkO (Ret (RcErr ENOMEM)) l None w
  else
    let l := if big then add_mem 1 l else l in
    let fds0 := l_fds l in
    let '(e, l, w) := init_stdio stdio l w in
    match e with
    | Some r =>
      (* error: close every descriptor created so far, free pipes *)
      let '(l, w) := close_n (Z.to_nat (l_fds l - fds0)) l w in
      mkO (Ret r) (if big then add_mem (-1) l else l) None w
    | None =>
      (* uv_signal_start(&loop->child_watcher): block, lock, register, unlock *)
      let '(lk, w) := if first_child then
                        let '(a, w) := sysr PRead w in
                        match a with
                        | Ok => let '(b, w) := sysr PWrite w in
                                (match b with Ok => None | _ => Some SSignalLock end, w)
                        | _ => (Some SSignalLock, w)
                        end
                      else (None, w) in
      match lk with
      | Some s => mkO (Abort s) l None w
      | None =>
        (* uv__spawn_and_init_child *)
        let finish (exec : rc) (active : bool) (l : ledger) (w : world) : out :=
          let l := if active then add_handles 1 l else l in
          let '(ab, l, w) := open_streams stdio l w in
          match ab with
          | Some s => mkO (Abort s) l None w
          | None => mkO (Ret exec) (if big then add_mem (-1) l else l) None w
          end in
        let '(a, w) := sys PPipe2 w in                     (* uv__make_pipe(signal_pipe) *)
        match a with
        | Fail e => finish (RcErr e) false l w
        | Intr => finish RcIntr false l w
        | Ok =>
          let l := add_fds 2 l in
          let '(f, w) := sys PFork w in
          let '(_, l, w) := uv_close_fd l w in             (* signal_pipe[1] *)
          match f with
          | Fail e =>
            let '(_, l, w) := uv_close_fd l w in finish (RcErr e) false l w
          | Intr =>
            let '(_, l, w) := uv_close_fd l w in finish RcIntr false l w
          | Ok =>
            let '(r, w) := sysr PRead w in                 (* wait for exec: EOF *)
            match r with
            | Ok => let '(_, l, w) := uv_close_fd l w in finish RcOk true l w
            | _ => mkO (Abort SSpawnRead) l None w
            end
          end
        end
      end
    end.

(* ---- wake-up channels -------------------------------------------------------- *)
(* uv__async_send, src/unix/async.c:213-255 *)
Definition uv_async_send (l : ledger) (w : world) : out :=
  let '(a, w) := sysr PWrite w in
  match a with
  | Ok | Fail EAGAIN => mkO (Ret RcOk) l None w
  | _ => mkO (Abort SAsyncSend) l None w
  end.

(* the read loop of uv__async_io, src/unix/async.c:173-190; the eventfd answers 8
   bytes, never a full 1024-byte buffer, so [Ok] leaves the loop *)
Fixpoint uv_async_io (o : list ans) (log : list pt) : res * list ans * list pt :=
  match o with
  | [] => (Ret RcOk, [], PRead :: log)
  | Intr :: o' => uv_async_io o' (PRead :: log)
  | Ok :: o' | Fail EAGAIN :: o' => (Ret RcOk, o', PRead :: log)
  | Fail _ :: o' => (Abort SAsyncIo, o', PRead :: log)
  end.

(* uv__signal_event, src/unix/signal.c:433-500, one readable signal pipe holding one
   message.  EINTR: the `continue` of the do/while leaves the loop (end = 0), nothing
   is dispatched, the pipe stays readable and the poller calls the function again -
   modelled as the next round.  Result: was the message dispatched?             *)
Fixpoint uv_signal_event (o : list ans) (log : list pt) : res * bool * list ans * list pt :=
  match o with
  | [] => (Ret RcOk, true, [], PRead :: log)
  | Intr :: o' => uv_signal_event o' (PRead :: log)         (* next poll round *)
  | Fail EAGAIN :: o' => uv_signal_event o' (PRead :: log)  (* bytes = 0: return; still readable *)
  | Ok :: o' => (Ret RcOk, true, o', PRead :: log)
  | Fail _ :: o' => (Abort SSignalEvent, false, o', PRead :: log)
  end.

(* uv__read's system call, src/unix/stream.c:1060-1100: what the read callback sees *)
Inductive rd := RdData | RdAgain | RdError (e : errno) | RdIntr.
Definition uv_read_step (w : world) : rd * world :=
  let '(a, w) := sysr PRead w in
  match a with
  | Ok => (RdData, w)
  | Fail EAGAIN => (RdAgain, w)
  | Fail e => (RdError e, w)
  | Intr => (RdIntr, w)
  end.

(* ---- uv_loop_init, src/unix/loop.c:30-128 ---------------------------------------
   [first_loop]: uv__signal_global_once_init still has to run.  The io_uring
   set-up (uv__iou_init) may fail silently.                                        *)
Definition uv_loop_init (first_loop : bool) (l : ledger) (w : world) : out :=
  let '(ok, w) := alloc PCalloc w in                       (* lfields *)
  if negb ok then mkO (Ret (RcErr ENOMEM)) l None w
  else
    let l := add_mem 1 l in
    let '(a, w) := sys PEpollCreate w in                   (* uv__platform_loop_init *)
    match a with
    | Fail e => mkO (Ret (RcErr e)) (add_mem (-1) l) None w
    | Intr => mkO (Ret RcIntr) (add_mem (-1) l) None w
    | Ok =>
      let l := add_fds 1 l in
      (* uv__kernel_version (first use in the process): /proc/version_signature is
         tried first; absent here, so whatever the answer nothing more is read *)
      let '(_, w) := if first_loop then sys POpen w else (Ok, w) in
      (* uv__iou_init: setup + two mmaps; any failure just leaves the ring off *)
      let '(ring, l, w) :=
        let '(s, w) := sys PIouSetup w in
        match s with
        | Ok =>
          let '(m1, w) := sys PMmap w in
          let '(m2, w) := sys PMmap w in
          match m1, m2 with
          | Ok, Ok => (true, add_fds 1 l, w)
          | _, _ => let '(_, l', w) := uv_close_fd (add_fds 1 l) w in (false, l', w)
          end
        | _ => (false, l, w)
        end in
      (* fail_signal_init: uv__platform_loop_delete closes the ring; backend_fd is closed
         right after it (loop.c:116-121) *)
      let loop_delete (l : ledger) (w : world) : ledger * world :=
        let '(l, w) := if ring then let '(_, l, w) := uv_close_fd l w in (l, w) else (l, w) in
        let '(_, l, w) := uv_close_fd l w in (l, w) in
      (* uv__signal_global_once_init *)
      let '(ab, l, w) :=
        if first_loop then
          let '(p, w) := sys PPipe2 w in
          match p with
          | Ok => let '(u, w) := sysr PWrite w in
                  (match u with Ok => None | _ => Some SSignalGlobalInit end, add_fds 2 l, w)
          | _ => (Some SSignalGlobalInit, l, w)
          end
        else (None, l, w) in
      match ab with
      | Some s => mkO (Abort s) l None w
      | None =>
        (* uv__process_init -> uv_signal_init -> uv__signal_loop_once_init *)
        let '(p, w) := sys PPipe2 w in
        match p with
        | Fail e => let '(l, w) := loop_delete l w in
                    mkO (Ret (RcErr e)) (add_mem (-1) l) None w
        | Intr => let '(l, w) := loop_delete l w in
                  mkO (Ret RcIntr) (add_mem (-1) l) None w
        | Ok =>
          let l := add_fds 2 l in
          let '(ab, l, w) := maybe_resize true l w in       (* uv__io_start of the signal watcher *)
          match ab with
          | Some s => mkO (Abort s) l None w
          | None =>
            let l := add_mem 1 l in                         (* loop->watchers *)
            let '(e, w) := sys PEventfd w in                (* uv_async_init -> uv__async_start *)
            match e with
            | Ok => mkO (Ret RcOk) (add_hq 2 (add_fds 1 l)) None w
            | Fail er =>
              (* fail_async_init: uv__signal_loop_cleanup closes the signal pipe;
                 uv__platform_loop_delete; close backend_fd; free lfields and watchers *)
              let '(_, l, w) := uv_close_fd l w in
              let '(_, l, w) := uv_close_fd l w in
              let '(l, w) := loop_delete l w in
              mkO (Ret (RcErr er)) (add_mem (-2) l) None w
            | Intr =>
              let '(_, l, w) := uv_close_fd l w in
              let '(_, l, w) := uv_close_fd l w in
              let '(l, w) := loop_delete l w in
              mkO (Ret RcIntr) (add_mem (-2) l) None w
            end
          end
        end
      end
    end.

(* ---- the timeout loop of uv__io_poll, src/unix/linux.c:1350-1620 ---------------------------
   Only the arithmetic that decides how long epoll_pwait may block: base (1389), real_timeout,
   the UV_METRICS_IDLE_TIME variant (reset_timeout / user_timeout: a first non-blocking call),
   the nfds == 0 / -1 handling (1473-1489) and the update_timeout block (1601-1619).
   The clock is virtual: [p_now] is loop->time - base, advanced by what an answer reports.
   Answers of epoll_pwait: interrupted after [e] ms, timed out (waited the whole timeout), or
   events after [e] ms (dispatch ends the function: nevents != 0, fewer than 1024 events), or a
   completely filled batch (the function polls again without blocking, at most 47 times).      *)
Inductive pans :=
  | PIntr (e : Z)      (* -1/EINTR after e ms *)
  | PTimeout           (* 0 events, the whole timeout waited *)
  | PEvents (e : Z)    (* some events (fewer than 1024) after e ms *)
  | PFull (e : Z).     (* a completely filled batch, nfds == ARRAY_SIZE(events), after e ms *)
Inductive pend := PeTimeout | PeEvents | PeBreak | PeStuck.

Record pst := mkP {
  p_now : Z;          (* loop->time - (loop->time at entry) after the last uv__update_time *)
  p_real : Z;         (* real_timeout *)
  p_timeout : Z;      (* timeout, the value passed to the next epoll_pwait *)
  p_reset : bool;     (* reset_timeout *)
  p_user : Z;         (* user_timeout *)
  p_ok : bool;        (* the answers so far reported 0 <= elapsed <= timeout of their call *)
  p_base : Z;         (* base - (loop->time at entry); advanced by update_timeout since /repo c841fbc *)
  p_count : Z;        (* count: how many more full batches are polled for again (starts at 48) *)
  p_full : bool       (* a full batch has been dispatched in this invocation *)
}.
Record pres := mkR {
  r_calls : list (Z * Z);        (* (timeout passed, time since entry at the call), newest first *)
  r_full_calls : list (Z * Z);   (* those of them that were made after a full batch *)
  r_blocked : Z;                 (* time since entry when the function returns *)
  r_end : pend;
  r_ok : bool
}.

Definition elapsed_ok (t e : Z) : bool := (0 <=? e) && ((t <? 0) || (e <=? t)).

(* nfds == 0 || nfds == -1 with reset_timeout != 0: timeout = user_timeout; reset_timeout = 0 *)
Definition after_reset (s : pst) (now : Z) (ok : bool) : pst :=
  if p_reset s then mkP now (p_real s) (p_user s) false (p_user s) ok (p_base s) (p_count s) (p_full s)
  else mkP now (p_real s) (p_timeout s) false (p_user s) ok (p_base s) (p_count s) (p_full s).

(* update_timeout: None = leave the loop *)
Definition update_timeout (s : pst) : option pst :=
  if p_timeout s =? 0 then None
  else if p_timeout s =? -1 then Some s
  else
    let real := p_real s - (p_now s - p_base s) in   (* real_timeout -= (loop->time - base); base = loop->time *)
    if real <=? 0 then None
    else Some (mkP (p_now s) real real (p_reset s) (p_user s) (p_ok s) (p_now s) (p_count s) (p_full s)).

Definition log_full (s : pst) (flog : list (Z * Z)) : list (Z * Z) :=
  if p_full s then (p_timeout s, p_now s) :: flog else flog.

(* the script is exhausted: every further call times out *)
Definition io_poll_tail (s : pst) (log flog : list (Z * Z)) : pres :=
  let t := p_timeout s in
  let log := (t, p_now s) :: log in
  let flog := log_full s flog in
  if t <? 0 then mkR log flog (p_now s) PeStuck (p_ok s)
  else if p_reset s then
    match update_timeout (after_reset s (p_now s + t) (p_ok s)) with
    | None => mkR log flog (p_now s + t) PeBreak (p_ok s)
    | Some s' =>
      let log := (p_timeout s', p_now s') :: log in
      if p_timeout s' <? 0 then mkR log flog (p_now s') PeStuck (p_ok s)
      else mkR log flog (p_now s' + p_timeout s') PeTimeout (p_ok s)
    end
  else mkR log flog (p_now s + t) PeTimeout (p_ok s).

Fixpoint io_poll_loop (o : list pans) (s : pst) (log flog : list (Z * Z)) : pres :=
  match o with
  | [] => io_poll_tail s log flog
  | a :: r =>
    let t := p_timeout s in
    let log := (t, p_now s) :: log in
    let flog := log_full s flog in
    match a with
    | PEvents e =>
      mkR log flog (p_now s + e) PeEvents (p_ok s && elapsed_ok t e)
    | PFull e =>
      (* nevents != 0 and nfds == ARRAY_SIZE(events): if (--count != 0) { timeout = 0; continue; }
         (linux.c:1593-1598); real_timeout and base are left alone *)
      let ok := p_ok s && elapsed_ok t e in
      if p_count s - 1 =? 0 then mkR log flog (p_now s + e) PeEvents ok
      else io_poll_loop r (mkP (p_now s + e) (p_real s) 0 false (p_user s) ok (p_base s) (p_count s - 1) true) log flog
    | PTimeout =>
      if t <? 0 then mkR log flog (p_now s) PeStuck (p_ok s)      (* assert(timeout != -1) *)
      else if p_reset s then
        match update_timeout (after_reset s (p_now s + t) (p_ok s)) with
        | None => mkR log flog (p_now s + t) PeBreak (p_ok s)
        | Some s' => io_poll_loop r s' log flog
        end
      else mkR log flog (p_now s + t) PeTimeout (p_ok s)          (* nfds == 0: return *)
    | PIntr e =>
      let ok := p_ok s && elapsed_ok t e in
      match update_timeout (after_reset s (p_now s + e) ok) with
      | None => mkR log flog (p_now s + e) PeBreak ok
      | Some s' => io_poll_loop r s' log flog
      end
    end
  end.

Definition io_poll (metrics : bool) (timeout : Z) (o : list pans) : pres :=
  io_poll_loop o (if metrics then mkP 0 timeout 0 true timeout true 0 48 false
                  else mkP 0 timeout timeout false 0 true 0 48 false) [] [].

(* ---- helpers for statements --------------------------------------------------- *)
Fixpoint strip (o : list ans) : list ans :=
  match o with
  | [] => []
  | Intr :: r => strip r
  | a :: r => a :: strip r
  end.
Definition strip_w (w : world) : world := mkW (w_alloc w) (strip (w_sys w)) (w_log w).

Definition no_fault (w : world) : Prop :=
  Forall (fun b => b = true) (w_alloc w) /\ Forall (fun a => a = Ok) (w_sys w).
Definition injected (e : errno) (w : world) : Prop :=
  (e = ENOMEM /\ In false (w_alloc w)) \/ In (Fail e) (w_sys w).
