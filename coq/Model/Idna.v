(* Model of src/idna.c lines 71-375: uv__utf8_decode1_slow, uv__utf8_decode1,
   uv__idna_toascii_label, uv__idna_toascii.

   Bytes and C [unsigned] values are [N]; every arithmetic step of an
   [unsigned] variable that can leave 0..2^32-1 is wrapped explicitly
   ([u32], [usub]).  A [const char*] into the input is the list of bytes from
   the pointer to [pe]/[se]; [pe - *p] is the length of that list.  The
   destination is an abstract writer [W] with one operation
   [put c w]  =  "if ( *d < de) *( *d)++ = c";  the concrete instance
   ([cursor], [put_bounded]) is the pair (offset of d from the start of the
   buffer, writes performed so far as (offset, byte), latest first) with the
   bound [de].  Return codes are [Z].

   The model follows the code after commit a779eb0 (every continuation byte
   checked, truncated forms rejected); the decoder as it was before is kept
   at the end of the file as [utf8_decode1_before_a779eb0]. *)
From UV Require Import Lib.Base.

Local Open Scope N_scope.

Definition UINT_MAX : N := 4294967295.
Definition u32 (x : N) : N := x mod 4294967296.
(* a - b on [unsigned] *)
Definition usub (a b : N) : N := (a + 4294967296 - b) mod 4294967296.

Definition UV_EINVAL : Z := (-22)%Z.
Definition UV_E2BIG : Z := (-7)%Z.

(* ------------------------------------------------------------------ *)
(* uv__utf8_decode1_slow, lines 71-143 (after commit a779eb0)          *)
(* ------------------------------------------------------------------ *)

(* after the switch: each of b, c, d must be a continuation byte (in the two
   shorter forms b and/or c are synthesised as 0x80 | bits of the lead byte);
   [rest] is *p at that point *)
Definition utf8_tail (min a b c d : N) (rest : list N) : N * list N :=
  if negb ((N.land 192 b =? 128) && (N.land 192 c =? 128) && (N.land 192 d =? 128))
  then (UINT_MAX, rest)
  else
    let b := N.land b 63 in
    let c := N.land c 63 in
    let d := N.land d 63 in
    let a := N.lor (N.lor (N.lor (N.shiftl a 18) (N.shiftl b 12)) (N.shiftl c 6)) d in
    if a <? min then (UINT_MAX, rest)
    else if 1114111 <? a then (UINT_MAX, rest)
    else if (55296 <=? a) && (a <=? 57343) then (UINT_MAX, rest)
    else (a, rest).

Definition utf8_decode1_slow (rest : list N) (a : N) : N * list N :=
  if 247 <? a then (UINT_MAX, rest)
  else
    let case0 := (UINT_MAX, rest) in
    let case1 :=
      if 223 <? a then (UINT_MAX, [])            (* truncated: *p = pe; return -1 *)
      else if 191 <? a then
        match rest with
        | d :: r => utf8_tail 128 0 128 (N.lor 128 (N.land a 31)) d r
        | _ => case0
        end
      else case0 in
    let case2 :=
      if 239 <? a then (UINT_MAX, [])            (* truncated: *p = pe; return -1 *)
      else if 223 <? a then
        match rest with
        | c :: d :: r => utf8_tail 2048 0 (N.lor 128 (N.land a 15)) c d r
        | _ => case0
        end
      else case1 in
    let dflt :=
      if 239 <? a then
        match rest with
        | b :: c :: d :: r => utf8_tail 65536 (N.land a 7) b c d r
        | _ => case0
        end
      else case2 in
    match rest with
    | [] => case0
    | [_] => case1
    | [_; _] => case2
    | _ => dflt
    end.

(* uv__utf8_decode1.  [s] = bytes from *p to pe; result = (value, bytes from the
   new *p to pe).  assert( *p < pe): not called on []. *)
Definition utf8_decode1 (s : list N) : N * list N :=
  match s with
  | [] => (UINT_MAX, [])
  | a :: rest => if a <? 128 then (a, rest) else utf8_decode1_slow rest a
  end.

(* ------------------------------------------------------------------ *)
(* uv__idna_toascii_label, lines 160-323                               *)
(* ------------------------------------------------------------------ *)

(* alphabet[t] of "abcdefghijklmnopqrstuvwxyz0123456789" *)
Definition alphabet (t : N) : N := if t <? 26 then 97 + t else 22 + t.

Section Writer.
Variable W : Type.
Variable put : N -> W -> W.      (* if ( *d < de) *( *d)++ = c; *)

(* lines 185-195 *)
Fixpoint count_loop (fuel : nat) (s : list N) (h todo : N) : option (N * N) :=
  match s, fuel with
  | [], _ => Some (h, todo)
  | _, O => Some (h, todo)
  | _, S f =>
      let (c, s') := utf8_decode1 s in
      if c =? UINT_MAX then None
      else if c <? 128 then count_loop f s' (u32 (h + 1)) todo
      else count_loop f s' h (u32 (todo + 1))
  end.

(* lines 208-220 *)
Fixpoint ascii_loop (fuel : nat) (s : list N) (x h : N) (w : W) : W :=
  match s, fuel with
  | [], _ => w
  | _, O => w
  | _, S f =>
      let (c, s') := utf8_decode1 s in
      if 127 <? c then ascii_loop f s' x h w
      else
        let w := put c w in
        let x := u32 (x + 1) in
        if x =? h then w else ascii_loop f s' x h w
  end.

(* lines 239-246 *)
Fixpoint min_loop (fuel : nat) (s : list N) (n m : N) : N :=
  match s, fuel with
  | [], _ => m
  | _, O => m
  | _, S f =>
      let (c, s') := utf8_decode1 s in
      min_loop f s' n (if (n <=? c) && (c <? m) then c else m)
  end.

(* lines 269-295: for (k = 36, q = delta; ; k += 36) {...} then
   *d++ = alphabet[q].  q shrinks by a factor >= 10 per round. *)
Fixpoint digits_loop (fuel : nat) (k q bias : N) (w : W) : W :=
  match fuel with
  | O => w
  | S f =>
      let t := 1 in
      let t := if bias <? k then usub k bias else t in
      let t := if 26 <? t then 26 else t in
      if q <? t then put (alphabet q) w
      else
        let x := usub q t in
        let y := usub 36 t in
        let q' := x / y in
        let t' := u32 (t + x mod y) in
        digits_loop f (u32 (k + 36)) q' bias (put (alphabet t') w)
  end.

(* line 310: for (bias = 0; delta > 35 * 26 / 2; bias += 36) delta /= 35; *)
Fixpoint adapt_loop (fuel : nat) (bias delta : N) : N * N :=
  match fuel with
  | O => (bias, delta)
  | S f => if 455 <? delta then adapt_loop f (u32 (bias + 36)) (delta / 35)
           else (bias, delta)
  end.

Record pst := mkP { p_delta : N; p_h : N; p_bias : N; p_first : bool; p_todo : N }.

(* lines 258-316; None in the first component = return UV_E2BIG *)
Fixpoint enc_loop (fuel : nat) (s : list N) (n : N) (st : pst) (w : W) : option pst * W :=
  match s, fuel with
  | [], _ => (Some st, w)
  | _, O => (Some st, w)
  | _, S f =>
      let (c, s') := utf8_decode1 s in
      let delta := if c <? n then u32 (p_delta st + 1) else p_delta st in
      if (c <? n) && (delta =? 0) then (None, w)
      else if negb (c =? n) then
        enc_loop f s' n (mkP delta (p_h st) (p_bias st) (p_first st) (p_todo st)) w
      else
        let w := digits_loop (S (N.size_nat delta)) 36 delta (p_bias st) w in
        let delta := delta / 2 in
        let delta := if p_first st then delta / 350 else delta in
        let h := u32 (p_h st + 1) in
        let delta := u32 (delta + delta / h) in
        let (bias, delta) := adapt_loop (S (N.size_nat delta)) 0 delta in
        let bias := u32 (bias + u32 (36 * delta) / u32 (delta + 38)) in
        enc_loop f s' n (mkP 0 h bias false (usub (p_todo st) 1)) w
  end.

(* lines 235-320: while (todo > 0) *)
Fixpoint outer_loop (fuel : nat) (s : list N) (n : N) (st : pst) (w : W) : Z * W :=
  if p_todo st =? 0 then (0%Z, w)
  else
    match fuel with
    | O => (0%Z, w)
    | S f =>
        let m := min_loop (length s) s n UINT_MAX in
        let x := usub m n in
        let y := u32 (p_h st + 1) in
        if (UINT_MAX - p_delta st) / y <? x then (UV_E2BIG, w)
        else
          let delta := u32 (p_delta st + u32 (x * y)) in
          let n := m in
          match enc_loop (length s) s n
                  (mkP delta (p_h st) (p_bias st) (p_first st) (p_todo st)) w with
          | (None, w) => (UV_E2BIG, w)
          | (Some st, w) =>
              outer_loop f s (u32 (n + 1))
                (mkP (u32 (p_delta st + 1)) (p_h st) (p_bias st) (p_first st) (p_todo st)) w
          end
    end.

Definition idna_toascii_label (s : list N) (w : W) : Z * W :=
  match count_loop (length s) s 0 0 with
  | None => (UV_EINVAL, w)
  | Some (h, todo) =>
      let w := if 0 <? todo
               then put 45 (put 45 (put 110 (put 120 w)))   (* "xn--" *)
               else w in
      let w := ascii_loop (length s) s 0 h w in
      if todo =? 0 then (Z.of_N h, w)
      else
        let w := if 0 <? h then put 45 w else w in
        outer_loop (N.to_nat todo) s 128 (mkP 0 h 72 true todo) w
  end.

(* ------------------------------------------------------------------ *)
(* uv__idna_toascii, lines 326-368 (everything before the final NUL)   *)
(* ------------------------------------------------------------------ *)

Definition is_dot (c : N) : bool :=
  (c =? 46) || (c =? 12290) || (c =? 65294) || (c =? 65377).

(* [lab] = bytes from s to st, reversed; [si] = bytes from si to se. *)
Fixpoint toascii_loop (fuel : nat) (lab : list N) (si : list N) (w : W) : Z * W :=
  match si, fuel with
  | [], _ | _, O =>
      (* lines 363-368 *)
      match lab with
      | [] => (0%Z, w)
      | _ => idna_toascii_label (rev lab) w
      end
  | _, S f =>
      let (c, si') := utf8_decode1 si in
      if c =? UINT_MAX then (UV_EINVAL, w)
      else if is_dot c then
        let (rc, w) := idna_toascii_label (rev lab) w in
        if (rc <? 0)%Z then (rc, w)
        else toascii_loop f [] si' (put 46 w)
      else
        toascii_loop f (rev (firstn (length si - length si') si) ++ lab) si' w
  end.

End Writer.

(* ------------------------------------------------------------------ *)
(* The destination: d as an offset from the start of the buffer, de =  *)
(* its capacity, and the list of stores performed.                     *)
(* ------------------------------------------------------------------ *)

Definition cursor := (N * list (N * N))%type.

Definition put_bounded (de : N) (c : N) (w : cursor) : cursor :=
  let (d, log) := w in
  if d <? de then (d + 1, (d, c) :: log) else w.

(* uv__idna_toascii(s, se, d, de) with de - d = [de]; lines 326-375. *)
Definition idna_toascii (s : list N) (de : N) : Z * cursor :=
  match s with
  | [] => (UV_EINVAL, (0, []))
  | _ =>
      let '(rc, (d, log)) := toascii_loop cursor (put_bounded de) (length s) [] s (0, []) in
      if (rc <? 0)%Z then (rc, (d, log))
      else if de <=? d then (UV_EINVAL, (d, log))
      else (Z.of_N (d + 1), (d + 1, (d, 0) :: log))     (* *d++ = '\0'; return d - ds *)
  end.

(* The label function on the concrete destination (for the harness). *)
Definition idna_toascii_label_b (s : list N) (de : N) : Z * cursor :=
  idna_toascii_label cursor (put_bounded de) s (0, []).

(* The bytes stored, in the order of the stores. *)
Definition written (w : cursor) : list N := map snd (rev (snd w)).

(* ------------------------------------------------------------------ *)
(* History: the decoder before commit a779eb0 (one xor for the three  *)
(* continuation bytes, truncated forms re-read as shorter ones); kept  *)
(* for the witnesses of the old defect.  Was: lines 71-135                                 *)
(* ------------------------------------------------------------------ *)

(* lines 117-134, after the switch: [rest] is *p at that point *)
Definition utf8_tail_before_a779eb0 (min a b c d : N) (rest : list N) : N * list N :=
  if negb (N.land 192 (N.lxor (N.lxor b c) d) =? 128) then (UINT_MAX, rest)
  else
    let b := N.land b 63 in
    let c := N.land c 63 in
    let d := N.land d 63 in
    let a := N.lor (N.lor (N.lor (N.shiftl a 18) (N.shiftl b 12)) (N.shiftl c 6)) d in
    if a <? min then (UINT_MAX, rest)
    else if 1114111 <? a then (UINT_MAX, rest)
    else if (55296 <=? a) && (a <=? 57343) then (UINT_MAX, rest)
    else (a, rest).

(* [rest] = bytes from *p (already past the lead byte [a]) to pe. *)
Definition utf8_decode1_slow_before_a779eb0 (rest : list N) (a : N) : N * list N :=
  if 247 <? a then (UINT_MAX, rest)
  else
    (* case 0: *)
    let case0 := (UINT_MAX, rest) in
    (* case 1: ... falls through to case 0 *)
    let case1 :=
      if 191 <? a then
        match rest with
        | d :: r => utf8_tail_before_a779eb0 128 0 128 (N.lor 128 (N.land a 31)) d r
        | _ => case0
        end
      else case0 in
    (* case 2: ... falls through to case 1 *)
    let case2 :=
      if 223 <? a then
        match rest with
        | c :: d :: r => utf8_tail_before_a779eb0 2048 0 (N.lor 128 (N.land a 15)) c d r
        | _ => case0
        end
      else case1 in
    (* default: ... falls through to case 2 *)
    let dflt :=
      if 239 <? a then
        match rest with
        | b :: c :: d :: r => utf8_tail_before_a779eb0 65536 (N.land a 7) b c d r
        | _ => case0
        end
      else case2 in
    (* switch (pe - *p) *)
    match rest with
    | [] => case0
    | [_] => case1
    | [_; _] => case2
    | _ => dflt
    end.

(* uv__utf8_decode1, lines 138-149.  [s] = bytes from *p to pe; result =
   (value, bytes from the new *p to pe).  assert( *p < pe): not called on []. *)
Definition utf8_decode1_before_a779eb0 (s : list N) : N * list N :=
  match s with
  | [] => (UINT_MAX, [])
  | a :: rest => if a <? 128 then (a, rest) else utf8_decode1_slow_before_a779eb0 rest a
  end.

