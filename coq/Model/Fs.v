(* Model of the file-operation layer: src/unix/fs.c (uv__fs_work dispatch,
   uv__fs_read, uv__fs_write, uv__fs_write_all, uv__fs_buf_offset,
   uv_fs_req_cleanup and the INIT/PATH/PATH2/POST macros) and the io_uring
   part of src/unix/linux.c (uv__iou_fs_*, uv__poll_io_uring).

   Part B  buffer arithmetic   (uv__fs_read, uv__fs_write[_all], uv__fs_buf_offset)
   Part A  dispatch            (fsop, work, sqe_of, kernel_of_sqe, the three routes)
   Part C  ownership ledger    (what a request owns, uv_fs_req_cleanup)

   A uv_buf_t (base,len) is represented by the bytes it denotes, so that
   "base += n; len -= n" is [skipn n].  Every system call is an oracle: a
   state-passing function [sys] in part B, the Section variable [posix] in
   part A.  No proofs here. *)
From UV Require Import Lib.Base.

(* ------------------------------------------------------------------ *)
(* Constants (Linux x86-64 values, as the harness sees them)           *)
(* ------------------------------------------------------------------ *)
Definition EPERM : Z := 1%Z.
Definition EINTR : Z := 4%Z.
Definition EINVAL : Z := 22%Z.
Definition ENOSYS : Z := 38%Z.
Definition EOPNOTSUPP : Z := 95%Z.
Definition EINPROGRESS : Z := 115%Z.
Definition IOV_MAX : nat := 1024.

(* ================================================================== *)
(* Part B: buffer arithmetic                                           *)
(* ================================================================== *)
Section BufArith.
Context {A : Type}.

Definition buf := list A.

(* read/write, readv/writev, pread/pwrite, preadv/pwritev *)
Inductive rwkind := KPlain | KVec | KPos | KPosVec.

(* One system call of uv__fs_read / uv__fs_write: which entry point, the
   iovec it is given, the offset argument (-1 = none: current position). *)
Record rwcall := mkCall { rk : rwkind; riov : list buf; roff : Z }.

(* The kernel's answer: -1 with errno, or a byte count. *)
Inductive answer := AErr (e : Z) | AOk (n : nat).

(* req->result material: r == -1 with errno / r >= 0 *)
Inductive rres := RErr (e : Z) | ROk (n : nat).

Definition total_len (l : list buf) : nat := length (concat l).

(* The if-ladder shared by uv__fs_read (fs.c:527-538) and uv__fs_write
   (fs.c:1208-1219): [nbufs] leading buffers of [bufs] at offset [off].
   None = no system call is made (r stays 0). *)
Definition pick_call (bufs : list buf) (nbufs : nat) (off : Z) : option rwcall :=
  if (off <? 0)%Z then
    if nbufs =? 1 then Some (mkCall KPlain (firstn 1 bufs) (-1))
    else if 1 <? nbufs then Some (mkCall KVec (firstn nbufs bufs) (-1))
    else None
  else
    if nbufs =? 1 then Some (mkCall KPos (firstn 1 bufs) off)
    else if 1 <? nbufs then Some (mkCall KPosVec (firstn nbufs bufs) off)
    else None.

(* ---- uv__fs_read (fs.c:510-561): one call on at most iovmax buffers ---- *)
Definition fs_read_call (iovmax : nat) (bufs : list buf) (off : Z) : option rwcall :=
  let nbufs := if iovmax <? length bufs then iovmax else length bufs in
  pick_call bufs nbufs off.

(* Documented meaning of readv/preadv: the bytes go into the iovec elements
   in order, each filled completely before the next one is touched. *)
Fixpoint scatter (data : list A) (bufs : list buf) : list buf :=
  match bufs with
  | [] => []
  | b :: bs => (firstn (length b) data ++ skipn (length data) b)
               :: scatter (skipn (length b) data) bs
  end.

(* uv__fs_read against a file [file] whose descriptor stands at [pos]; the
   kernel's answer [ans] is the count it chose to deliver (oracle). Returns
   (r, the caller's buffers afterwards, new descriptor position). *)
Definition fs_read (iovmax : nat) (bufs : list buf) (off : Z)
                   (file : list A) (pos : nat) (ans : answer)
  : rres * list buf * nat :=
  match fs_read_call iovmax bufs off with
  | None => (ROk 0, bufs, pos)
  | Some c =>
    match ans with
    | AErr e => (RErr e, bufs, pos)
    | AOk n =>
      let start := if (off <? 0)%Z then pos else Z.to_nat off in
      let data := firstn n (skipn start file) in
      (ROk n,
       scatter data (riov c) ++ skipn (length (riov c)) bufs,
       if (off <? 0)%Z then pos + length data else pos)
    end
  end.

(* ---- uv__fs_buf_offset (fs.c:1619-1631) ----
   Returns the number of buffers that are completely done and the array
   with the partially written buffer advanced. *)
Fixpoint buf_offset (bufs : list buf) (size : nat) : nat * list buf :=
  match bufs with
  | [] => (0, [])
  | b :: rest =>
    if (0 <? size) && (length b <=? size) then
      let '(o, bs) := buf_offset rest (size - length b) in (S o, b :: bs)
    else if 0 <? size then (0, skipn size b :: rest)
    else (0, b :: rest)
  end.

(* ---- uv__fs_write_all (fs.c:1633-1688) against a state-passing system
   [sys].  One unit of fuel per system call (EINTR repeats included). ---- *)
Inductive wres := WDone (r : rres) | WFuel.

Section WriteAll.
Context {St : Type}.
Variable sys : St -> rwcall -> answer * St.

Fixpoint write_all_loop (fuel : nat) (iovmax : nat) (s : St) (bufs : list buf)
                        (off : Z) (total : nat) : wres * list (rwcall * answer) * St :=
  match bufs with
  | [] => (WDone (ROk total), [], s)                       (* while (nbufs > 0) *)
  | _ :: _ =>
    let nb := if iovmax <? length bufs then iovmax else length bufs in
    match pick_call bufs nb off with
    | None => (WFuel, [], s)      (* only when iovmax = 0: uv__fs_write returns 0 without a
                                     call and the empty window is skipped for ever *)
    | Some c =>
      match fuel with
      | O => (WFuel, [], s)
      | S fuel' =>
        let '(a, s') := sys s c in
        match a with
        | AErr e =>
          if (e =? EINTR)%Z then
            let '(r, lg, s'') := write_all_loop fuel' iovmax s' bufs off total in
            (r, (c, a) :: lg, s'')
          else (WDone (if total =? 0 then RErr e else ROk total), [(c, a)], s')
        | AOk O =>
          (* result == 0: a window made only of empty buffers, with buffers
             remaining beyond it, is skipped (fs.c:1654-1664); otherwise break *)
          if (nb <? length bufs) && forallb (fun b => length b =? 0) (firstn nb bufs) then
            let '(r, lg, s'') := write_all_loop fuel' iovmax s' (skipn nb bufs) off total in
            (r, (c, a) :: lg, s'')
          else (WDone (ROk total), [(c, a)], s')
        | AOk n =>
          let '(o, bufs') := buf_offset bufs n in
          let off' := if (0 <=? off)%Z then (off + Z.of_nat n)%Z else off in
          let '(r, lg, s'') :=
            write_all_loop fuel' iovmax s' (skipn o bufs') off' (total + n) in
          (r, (c, a) :: lg, s'')
        end
      end
    end
  end.

Definition write_all (fuel iovmax : nat) (s : St) (bufs : list buf) (off : Z) :=
  write_all_loop fuel iovmax s bufs off 0.
End WriteAll.

(* The oracle as a recorded list of answers (what the harness logs). *)
Definition sys_list (l : list answer) (c : rwcall) : answer * list answer :=
  match l with
  | [] => (AErr 0, [])
  | a :: l' => (a, l')
  end.

(* Bytes a logged call put into the file, and the running count. *)
Definition wrec_data (w : rwcall * answer) : list A :=
  match snd w with AOk n => firstn n (concat (riov (fst w))) | AErr _ => [] end.
Definition written (lg : list (rwcall * answer)) : list A := concat (map wrec_data lg).
Definition wrec_count (w : rwcall * answer) : nat :=
  match snd w with AOk n => n | AErr _ => 0 end.
Definition wcount (lg : list (rwcall * answer)) : nat :=
  fold_right (fun w acc => wrec_count w + acc) 0 lg.

(* Documented meaning of write at a position: overwrite/extend, zero-fill a gap. *)
Definition file_write (zero : A) (f : list A) (pos : nat) (d : list A) : list A :=
  match d with
  | [] => f
  | _ => firstn pos f ++ repeat zero (pos - length f) ++ d ++ skipn (pos + length d) f
  end.

(* Replay a call log on a file: (content, descriptor position). *)
Fixpoint apply_log (zero : A) (lg : list (rwcall * answer)) (f : list A) (pos : nat)
  : list A * nat :=
  match lg with
  | [] => (f, pos)
  | w :: lg' =>
    let d := wrec_data w in
    if (roff (fst w) <? 0)%Z
    then apply_log zero lg' (file_write zero f pos d) (pos + length d)
    else apply_log zero lg' (file_write zero f (Z.to_nat (roff (fst w))) d) pos
  end.

End BufArith.

Arguments buf : clear implicits.
Arguments rwcall : clear implicits.

(* UV__ERR(errno) / r: the value stored in req->result (fs.c:1738-1741) *)
Definition result_of (r : rres) : Z :=
  match r with RErr e => (- e)%Z | ROk n => Z.of_nat n end.

(* ================================================================== *)
(* Part A: dispatch                                                    *)
(* ================================================================== *)
Local Open Scope Z_scope.

Definition path := list N.
Definition byte := N.

Definition AT_FDCWD : Z := -100.
Definition O_CLOEXEC : Z := 524288.          (* 02000000 *)
Definition AT_EMPTY_PATH : Z := 4096.        (* 0x1000 *)
Definition AT_SYMLINK_NOFOLLOW : Z := 256.   (* 0x100 *)
Definition STATX_MASK : Z := 4095.           (* 0xFFF *)

(* The ~35 operations with their arguments (uv_fs_* entry points). *)
Inductive fsop :=
| OAccess (p : path) (flags : Z)
| OChmod (p : path) (mode : Z)
| OChown (p : path) (uid gid : Z)
| OClose (fd : Z)
| OCopyfile (p np : path) (flags : Z)
| OFchmod (fd mode : Z)
| OFchown (fd uid gid : Z)
| OLchown (p : path) (uid gid : Z)
| OFdatasync (fd : Z)
| OFstat (fd : Z)
| OFsync (fd : Z)
| OFtruncate (fd off : Z)
| OFutime (fd atime mtime : Z)
| OLutime (p : path) (atime mtime : Z)
| OLstat (p : path)
| OLink (p np : path)
| OMkdir (p : path) (mode : Z)
| OMkdtemp (tpl : path)
| OMkstemp (tpl : path)
| OOpen (p : path) (flags mode : Z)
| ORead (fd : Z) (lens : list nat) (off : Z)
| OScandir (p : path) (flags : Z)
| OOpendir (p : path)
| OReaddir (dir : Z) (nentries : Z)
| OClosedir (dir : Z)
| OReadlink (p : path)
| ORealpath (p : path)
| ORename (p np : path)
| ORmdir (p : path)
| OSendfile (out_fd in_fd off : Z) (len : Z)
| OStat (p : path)
| OStatfs (p : path)
| OSymlink (p np : path) (flags : Z)
| OUnlink (p : path)
| OUtime (p : path) (atime mtime : Z)
| OWrite (fd : Z) (bufs : list (list byte)) (off : Z).

(* POSIX / Linux calls with their arguments as values.  The composite libc
   and libuv-internal routines whose internals are compared, not modelled,
   are single constructors (scandir, opendir, readdir, closedir, realpath,
   mkdtemp, mkostemp, readlink+sizing, statfs, uv__fs_copyfile,
   uv__fs_sendfile). *)
Inductive pcall :=
| PAccess (p : path) (mode : Z)
| PChmod (p : path) (mode : Z)
| PChown (p : path) (u g : Z)
| PLchown (p : path) (u g : Z)
| PFchmod (fd mode : Z)
| PFchown (fd u g : Z)
| PClose (fd : Z)
| PFsync (fd : Z)
| PFdatasync (fd : Z)
| PFtruncate (fd len : Z)
| PFutimens (fd at_ mt : Z)
| PUtimensat (dfd : Z) (p : path) (at_ mt flags : Z)
| PLink (p np : path)
| PLinkat (ofd : Z) (p : path) (nfd : Z) (np : path) (flags : Z)
| PMkdir (p : path) (mode : Z)
| PMkdirat (dfd : Z) (p : path) (mode : Z)
| PMkdtemp (tpl : path)
| PMkostemp (tpl : path) (flags : Z)
| POpen (p : path) (flags mode : Z)
| POpenat (dfd : Z) (p : path) (flags mode : Z)
| PRead (fd : Z) (len : nat)
| PReadv (fd : Z) (lens : list nat)
| PPread (fd : Z) (len : nat) (off : Z)
| PPreadv (fd : Z) (lens : list nat) (off : Z)
| PWrite (fd : Z) (d : list byte)
| PWritev (fd : Z) (ds : list (list byte))
| PPwrite (fd : Z) (d : list byte) (off : Z)
| PPwritev (fd : Z) (ds : list (list byte)) (off : Z)
| PScandir (p : path)
| POpendir (p : path)
| PReaddir (dir : Z) (n : Z)
| PClosedir (dir : Z)
| PReadlink (p : path)
| PRealpath (p : path)
| PRename (p np : path)
| PRenameat2 (ofd : Z) (p : path) (nfd : Z) (np : path) (flags : Z)
| PRmdir (p : path)
| PStatx (dfd : Z) (p : path) (flags mask : Z)
| PStat (p : path)
| PLstat (p : path)
| PFstat (fd : Z)
| PStatfs (p : path)
| PSymlink (target linkpath : path)
| PSymlinkat (target : path) (nfd : Z) (linkpath : path)
| PUnlink (p : path)
| PUnlinkat (dfd : Z) (p : path) (flags : Z)
| PCopyfile (p np : path) (flags : Z)
| PSendfile (out_fd in_fd off len : Z)
| PInvalid (opcode : Z).       (* an SQE the kernel rejects with EINVAL in its prep step *)

Definition lens_of {A} (l : list (list A)) : list nat := map (@length A) l.

(* The system call uv__fs_read makes for a request with buffers of the given
   lengths (only lengths matter for the dispatch). *)
Definition read_call (fd : Z) (lens : list nat) (off : Z) : option pcall :=
  let nb := if (IOV_MAX <? length lens)%nat then IOV_MAX else length lens in
  if off <? 0 then
    if (nb =? 1)%nat then Some (PRead fd (nth 0 lens O))
    else if (1 <? nb)%nat then Some (PReadv fd (firstn nb lens)) else None
  else
    if (nb =? 1)%nat then Some (PPread fd (nth 0 lens O) off)
    else if (1 <? nb)%nat then Some (PPreadv fd (firstn nb lens) off) else None.

(* pcall of one uv__fs_write call (the system-call view of [rwcall]) *)
Definition pcall_of_wcall (fd : Z) (c : rwcall byte) : pcall :=
  match rk c with
  | KPlain => PWrite fd (concat (riov c))
  | KVec => PWritev fd (riov c)
  | KPos => PPwrite fd (concat (riov c)) (roff c)
  | KPosVec => PPwritev fd (riov c) (roff c)
  end.

(* ---- the X(...) table of uv__fs_work (fs.c:1697-1732) ----
   One entry per operation: the call made by one pass through the switch.
   READ with no buffers and WRITE (a loop of calls) are handled in [action]. *)
Definition work (op : fsop) : pcall :=
  match op with
  | OAccess p f => PAccess p f
  | OChmod p m => PChmod p m
  | OChown p u g => PChown p u g
  | OClose fd => PClose fd
  | OCopyfile p np f => PCopyfile p np f
  | OFchmod fd m => PFchmod fd m
  | OFchown fd u g => PFchown fd u g
  | OLchown p u g => PLchown p u g
  | OFdatasync fd => PFdatasync fd
  | OFstat fd => PStatx fd [] AT_EMPTY_PATH STATX_MASK
  | OFsync fd => PFsync fd
  | OFtruncate fd off => PFtruncate fd off
  | OFutime fd a m => PFutimens fd a m
  | OLutime p a m => PUtimensat AT_FDCWD p a m AT_SYMLINK_NOFOLLOW
  | OLstat p => PStatx AT_FDCWD p AT_SYMLINK_NOFOLLOW STATX_MASK
  | OLink p np => PLink p np
  | OMkdir p m => PMkdir p m
  | OMkdtemp t => PMkdtemp t
  | OMkstemp t => PMkostemp t O_CLOEXEC
  | OOpen p f m => POpen p (Z.lor f O_CLOEXEC) m
  | ORead fd lens off =>
      match read_call fd lens off with Some c => c | None => PReadv fd [] end
  | OScandir p _ => PScandir p
  | OOpendir p => POpendir p
  | OReaddir d n => PReaddir d n
  | OClosedir d => PClosedir d
  | OReadlink p => PReadlink p
  | ORealpath p => PRealpath p
  | ORename p np => PRename p np
  | ORmdir p => PRmdir p
  | OSendfile o i off len => PSendfile o i off len
  | OStat p => PStatx AT_FDCWD p 0 STATX_MASK
  | OStatfs p => PStatfs p
  | OSymlink p np _ => PSymlink p np
  | OUnlink p => PUnlink p
  | OUtime p a m => PUtimensat AT_FDCWD p a m 0
  | OWrite fd bufs off =>      (* first call of uv__fs_write_all; the loop is in [action] *)
      let nb := if (IOV_MAX <? length bufs)%nat then IOV_MAX else length bufs in
      match pick_call bufs nb off with
      | Some c => pcall_of_wcall fd c
      | None => PWritev fd []
      end
  end.

(* retry_on_eintr (fs.c:1685-1686) *)
Definition retries (op : fsop) : bool :=
  match op with OClose _ | ORead _ _ _ => false | _ => true end.

(* the stat fallback of uv__fs_stat/lstat/fstat when statx is unusable *)
Definition stat_fallback (op : fsop) : option pcall :=
  match op with
  | OStat p => Some (PStat p)
  | OLstat p => Some (PLstat p)
  | OFstat fd => Some (PFstat fd)
  | _ => None
  end.

(* Entry checks of uv_fs_* made before anything is posted (return value). *)
Definition UV_COPYFILE_FLAGS : Z := 7.   (* EXCL | FICLONE | FICLONE_FORCE *)
Definition api_check (op : fsop) : option Z :=
  match op with
  | ORead _ [] _ => Some (- EINVAL)
  | OWrite _ [] _ => Some (- EINVAL)
  | OCopyfile _ _ f => if Z.land f (Z.lnot UV_COPYFILE_FLAGS) =? 0 then None else Some (- EINVAL)
  | _ => None
  end.

(* ---- io_uring submission entries ---- *)
Definition IORING_OP_READV : Z := 1.
Definition IORING_OP_WRITEV : Z := 2.
Definition IORING_OP_FSYNC : Z := 3.
Definition IORING_OP_OPENAT : Z := 18.
Definition IORING_OP_CLOSE : Z := 19.
Definition IORING_OP_STATX : Z := 21.
Definition IORING_OP_RENAMEAT : Z := 35.
Definition IORING_OP_UNLINKAT : Z := 36.
Definition IORING_OP_MKDIRAT : Z := 37.
Definition IORING_OP_SYMLINKAT : Z := 38.
Definition IORING_OP_LINKAT : Z := 39.
Definition IORING_OP_FTRUNCATE : Z := 55.
Definition IORING_FSYNC_DATASYNC : Z := 1.

(* What an address field of an SQE points to. *)
Inductive addr :=
| ANull
| AStr (p : path)                 (* NUL-terminated string *)
| ARIov (lens : list nat)         (* iovec array to read into *)
| AWIov (ds : list (list byte))   (* iovec array to write from *)
| AStatxBuf.                      (* the struct statx allocated by uv__iou_fs_statx *)

(* off and addr2 share storage in struct io_uring_sqe; they are kept as two
   fields here, at most one of them is used by any one opcode. *)
Record sqe := mkSqe {
  s_opcode : Z; s_fd : Z; s_off : Z; s_addr : addr; s_addr2 : addr;
  s_len : Z; s_flags : Z   (* rw_flags/fsync_flags/open_flags/statx_flags union *)
}.

(* kernel-version gates, written with the constants of the source *)
Definition kv_close_ok (kv : Z) : bool :=
  negb (kv <? 331610 (* 0x050F5A *)) && negb ((331264 (* 0x050A00 *) <=? kv) && (kv <? 393472 (* 0x060100 *))).
Definition kv_ge (kv v : Z) : bool := v <=? kv.

(* uv__iou_fs_* (linux.c:829-1120): the SQE each operation fills in, or None
   when the function returns 0 before asking for a slot. *)
Definition sqe_of (kv : Z) (op : fsop) : option sqe :=
  match op with
  | OClose fd =>
      if kv_close_ok kv then Some (mkSqe IORING_OP_CLOSE fd 0 ANull ANull 0 0) else None
  | OFtruncate fd off =>
      if kv_ge kv 395520 (* 0x060900 *)
      then Some (mkSqe IORING_OP_FTRUNCATE fd off ANull ANull 0 0) else None
  | OFsync fd => Some (mkSqe IORING_OP_FSYNC fd 0 ANull ANull 0 0)
  | OFdatasync fd => Some (mkSqe IORING_OP_FSYNC fd 0 ANull ANull 0 IORING_FSYNC_DATASYNC)
  | OLink p np =>
      if kv_ge kv 331520 (* 0x050F00 *)
      then Some (mkSqe IORING_OP_LINKAT AT_FDCWD 0 (AStr p) (AStr np) (AT_FDCWD mod two32) 0) else None
  | OMkdir p m =>
      if kv_ge kv 331520
      then Some (mkSqe IORING_OP_MKDIRAT AT_FDCWD 0 (AStr p) ANull (m mod two32) 0) else None
  | OOpen p f m =>
      Some (mkSqe IORING_OP_OPENAT AT_FDCWD 0 (AStr p) ANull (m mod two32) (Z.lor f O_CLOEXEC))
  | ORename p np =>
      Some (mkSqe IORING_OP_RENAMEAT AT_FDCWD 0 (AStr p) (AStr np) (AT_FDCWD mod two32) 0)
  | OSymlink p np _ =>
      if kv_ge kv 331520
      then Some (mkSqe IORING_OP_SYMLINKAT AT_FDCWD 0 (AStr p) (AStr np) 0 0) else None
  | OUnlink p => Some (mkSqe IORING_OP_UNLINKAT AT_FDCWD 0 (AStr p) ANull 0 0)
  | ORead fd lens off =>
      let nb := if (IOV_MAX <? length lens)%nat then IOV_MAX else length lens in
      Some (mkSqe IORING_OP_READV fd (if off <? 0 then -1 else off)
                  (ARIov (firstn nb lens)) ANull (Z.of_nat nb) 0)
  | OWrite fd bufs off =>
      if (IOV_MAX <? length bufs)%nat then None
      else Some (mkSqe IORING_OP_WRITEV fd (if off <? 0 then -1 else off)
                       (AWIov bufs) ANull (Z.of_nat (length bufs)) 0)
  | OStat p => Some (mkSqe IORING_OP_STATX AT_FDCWD 0 (AStr p) AStatxBuf STATX_MASK 0)
  | OLstat p => Some (mkSqe IORING_OP_STATX AT_FDCWD 0 (AStr p) AStatxBuf STATX_MASK AT_SYMLINK_NOFOLLOW)
  | OFstat fd => Some (mkSqe IORING_OP_STATX fd 0 (AStr []) AStatxBuf STATX_MASK AT_EMPTY_PATH)
  | _ => None
  end.

Definition s32 (z : Z) : Z := let w := z mod two32 in if w <? 2147483648 then w else w - two32.
Definition str_of (a : addr) : path := match a with AStr p => p | _ => [] end.

(* Documented meaning of each opcode (io_uring_enter(2), the prep functions of
   the kernel): which system call the kernel performs for the SQE. *)
Definition kernel_of_sqe (s : sqe) : pcall :=
  let op := s_opcode s in
  if op =? IORING_OP_CLOSE then PClose (s_fd s)
  else if op =? IORING_OP_FTRUNCATE then
    (* io_ftruncate_prep: -EINVAL unless addr, len, rw_flags are 0; length is sqe->off *)
    if (s_len s =? 0) && (s_flags s =? 0) then PFtruncate (s_fd s) (s_off s)
    else PInvalid op
  else if op =? IORING_OP_FSYNC then
    if Z.land (s_flags s) IORING_FSYNC_DATASYNC =? 0 then PFsync (s_fd s) else PFdatasync (s_fd s)
  else if op =? IORING_OP_LINKAT then
    PLinkat (s_fd s) (str_of (s_addr s)) (s32 (s_len s)) (str_of (s_addr2 s)) (s_flags s)
  else if op =? IORING_OP_MKDIRAT then PMkdirat (s_fd s) (str_of (s_addr s)) (s_len s)
  else if op =? IORING_OP_OPENAT then POpenat (s_fd s) (str_of (s_addr s)) (s_flags s) (s_len s)
  else if op =? IORING_OP_RENAMEAT then
    PRenameat2 (s_fd s) (str_of (s_addr s)) (s32 (s_len s)) (str_of (s_addr2 s)) (s_flags s)
  else if op =? IORING_OP_SYMLINKAT then
    PSymlinkat (str_of (s_addr s)) (s_fd s) (str_of (s_addr2 s))
  else if op =? IORING_OP_UNLINKAT then PUnlinkat (s_fd s) (str_of (s_addr s)) (s_flags s)
  else if op =? IORING_OP_READV then
    match s_addr s with
    | ARIov lens => if s_off s =? -1 then PReadv (s_fd s) lens else PPreadv (s_fd s) lens (s_off s)
    | _ => PInvalid op
    end
  else if op =? IORING_OP_WRITEV then
    match s_addr s with
    | AWIov ds => if s_off s =? -1 then PWritev (s_fd s) ds else PPwritev (s_fd s) ds (s_off s)
    | _ => PInvalid op
    end
  else if op =? IORING_OP_STATX then
    PStatx (s_fd s) (str_of (s_addr s)) (s_flags s) (s_len s)
  else PInvalid op.

(* Legacy entry points written in their *at / vector form (open(2): "openat
   with AT_FDCWD behaves exactly like open", etc.).  The oracle is assumed to
   respect this (hypothesis [posix_norm] of the theorems). *)
Definition norm (c : pcall) : pcall :=
  match c with
  | POpen p f m => POpenat AT_FDCWD p f (m mod two32)
  | POpenat d p f m => POpenat d p f (m mod two32)
  | PLink p np => PLinkat AT_FDCWD p AT_FDCWD np 0
  | PMkdir p m => PMkdirat AT_FDCWD p (m mod two32)
  | PMkdirat d p m => PMkdirat d p (m mod two32)
  | PRename p np => PRenameat2 AT_FDCWD p AT_FDCWD np 0
  | PSymlink t l => PSymlinkat t AT_FDCWD l
  | PUnlink p => PUnlinkat AT_FDCWD p 0
  | PRead fd n => PReadv fd [n]
  | PPread fd n off => PPreadv fd [n] off
  | PWrite fd d => PWritev fd [d]
  | PPwrite fd d off => PPwritev fd [d] off
  | _ => c
  end.

(* ---- the three routes against the oracle [posix] ---- *)
Section Routes.
Variable fs : Type.          (* state of the file system + descriptor table *)
Variable out : Type.         (* output data of a call (stat record, string, bytes, entries) *)
Record pres := mkRes { rc : Z; perrno : Z; pout : out }.
Variable posix : pcall -> fs -> pres * fs.
Variable no_out : out.

Definition ans_of (r : pres) : answer :=
  if rc r =? -1 then AErr (perrno r) else AOk (Z.to_nat (rc r)).

Definition sys_posix (fd : Z) (st : fs) (c : rwcall byte) : answer * fs :=
  let '(r, st') := posix (pcall_of_wcall fd c) st in (ans_of r, st').

Definition is_statx_unusable (r : pres) : bool :=
  if rc r =? 0 then false
  else if rc r =? -1 then
    (perrno r =? EINVAL) || (perrno r =? EPERM) || (perrno r =? ENOSYS) || (perrno r =? EOPNOTSUPP)
  else true.

(* One pass through the switch of uv__fs_work: (r, errno, output, state). *)
Definition action (fuel : nat) (op : fsop) (st : fs) : pres * fs :=
  match op with
  | OClose fd =>                                  (* uv__fs_close *)
      let '(r, st') := posix (PClose fd) st in
      if (rc r =? -1) && ((perrno r =? EINTR) || (perrno r =? EINPROGRESS))
      then (mkRes 0 (perrno r) (pout r), st') else (r, st')
  | OStat _ | OLstat _ | OFstat _ =>              (* uv__fs_statx, then the fallback *)
      let '(r, st') := posix (work op) st in
      if is_statx_unusable r then
        match stat_fallback op with
        | Some c => posix c st'
        | None => (r, st')
        end
      else (r, st')
  | ORead fd lens off =>
      match read_call fd lens off with
      | Some c => posix c st
      | None => (mkRes 0 0 no_out, st)
      end
  | OWrite fd bufs off =>                          (* uv__fs_write_all *)
      let '(w, _, st') := write_all (sys_posix fd) fuel IOV_MAX st bufs off in
      match w with
      | WDone (ROk n) => (mkRes (Z.of_nat n) 0 no_out, st')
      | WDone (RErr e) => (mkRes (-1) e no_out, st')
      | WFuel => (mkRes (-1) EINTR no_out, st')
      end
  | _ => posix (work op) st
  end.

(* do { ... } while (r == -1 && errno == EINTR && retry_on_eintr) *)
Fixpoint retry_loop (fuel : nat) (act : fs -> pres * fs) (retry : bool) (st : fs)
  : pres * fs :=
  let '(r, st') := act st in
  match fuel with
  | O => (r, st')
  | S f => if retry && (rc r =? -1) && (perrno r =? EINTR)
           then retry_loop f act retry st' else (r, st')
  end.

(* r == -1 ? UV__ERR(errno) : r *)
Definition result_z (r : pres) : Z := if rc r =? -1 then - perrno r else rc r.

(* uv__fs_work *)
Definition fs_work (fuel : nat) (op : fsop) (st : fs) : Z * out * fs :=
  let '(r, st') := retry_loop fuel (action fuel op) (retries op) st in
  (result_z r, pout r, st').

Inductive route := RSync | RPool | RRing.

(* uv__poll_io_uring: result = cqe->res; -EOPNOTSUPP re-posts to the pool *)
Definition ring_complete (fuel : nat) (op : fsop) (s : sqe) (st : fs) : Z * out * fs :=
  let '(r, st') := posix (kernel_of_sqe s) st in
  let res := match kernel_of_sqe s with
             | PInvalid _ => - EINVAL
             | _ => result_z r
             end in
  let st'' := match kernel_of_sqe s with PInvalid _ => st | _ => st' end in
  if res =? - EOPNOTSUPP then fs_work fuel op st'' else (res, pout r, st'').

(* Which route an asynchronous request really takes: ring iff the loop has a
   usable SQPOLL ring with a free slot ([ring_ok]) and uv__iou_fs_* accepts. *)
Definition takes_ring (ring_ok : bool) (kv : Z) (op : fsop) : bool :=
  ring_ok && match sqe_of kv op with Some _ => true | None => false end.

Definition run (rt : route) (ring_ok : bool) (kv : Z) (fuel : nat) (op : fsop) (st : fs)
  : Z * out * fs :=
  match api_check op with
  | Some e => (e, no_out, st)
  | None =>
    match rt with
    | RSync => fs_work fuel op st                  (* POST with cb == NULL *)
    | RPool => fs_work fuel op st                  (* POST with cb != NULL: uv__work_submit(uv__fs_work) *)
    | RRing =>
      match sqe_of kv op with
      | Some s => if ring_ok then ring_complete fuel op s st else fs_work fuel op st
      | None => fs_work fuel op st
      end
    end
  end.

End Routes.

(* ================================================================== *)
(* Part C: ownership ledger                                            *)
(* ================================================================== *)
(* Heap blocks a request can be responsible for. *)
Inductive block :=
| BkPath            (* strdup'ed path / the joint path+new_path block of PATH2 *)
| BkBufs            (* uv__malloc'ed copy of the uv_buf_t array (nbufs > 4) *)
| BkPtr             (* readlink/realpath string, uv_statfs_t *)
| BkStatx           (* struct statx of the ring route *)
| BkDents           (* scandir: the array of entries (libc malloc) *)
| BkDent (i : nat)  (* scandir: entry i (libc malloc) *)
| BkName (i : nat)  (* readdir: name of dirents[i] *)
| BkDir.            (* uv_dir_t: handed to the user by opendir, released by closedir *)

Definition block_eqb (a b : block) : bool :=
  match a, b with
  | BkPath, BkPath | BkBufs, BkBufs | BkPtr, BkPtr | BkStatx, BkStatx
  | BkDents, BkDents | BkDir, BkDir => true
  | BkDent i, BkDent j | BkName i, BkName j => (i =? j)%nat
  | _, _ => false
  end.

Inductive pathref := PNone | PUser | PHeap.             (* NULL / caller's memory / BkPath *)
Inductive bufsref := BNull | BUser | BSml | BHeap.      (* NULL / caller's array / req->bufsml / BkBufs *)
Inductive ptrref :=
| QNull | QStatbuf | QHeap | QStatx | QDir
| QScandir (n : nat) (next : nat)     (* dents array with n entries, nbufs cursor *)
| QReaddir (n : nat).                 (* dir whose dirents hold n names *)

Inductive fskind :=
| KPath1      (* PATH operations without output pointer: access chmod ... *)
| KPath2      (* PATH2: link rename symlink copyfile *)
| KFd         (* descriptor only: close fsync ftruncate futime fchmod sendfile ... *)
| KStat       (* stat/lstat (path) *)
| KFstat
| KTemp       (* mkdtemp / mkstemp: path always strdup'ed *)
| KStr        (* readlink realpath statfs: ptr = heap block on success *)
| KRead | KWrite
| KScandir | KOpendir | KReaddir | KClosedir.

Record lreq := mkReq {
  q_kind : fskind; q_cb : bool;
  q_path : pathref; q_newpath : pathref; q_bufs : bufsref; q_ptr : ptrref;
  q_result : Z
}.

(* The heap: live blocks, plus a flag raised by a double or foreign free. *)
Record heap := mkHeap { live : list block; bad_free : bool }.

Definition alloc (b : block) (h : heap) : heap := mkHeap (b :: live h) (bad_free h).
Fixpoint remove1 (b : block) (l : list block) : option (list block) :=
  match l with
  | [] => None
  | x :: xs => if block_eqb b x then Some xs
               else match remove1 b xs with Some r => Some (x :: r) | None => None end
  end.
Definition release (b : block) (h : heap) : heap :=
  match remove1 b (live h) with
  | Some l => mkHeap l (bad_free h)
  | None => mkHeap (live h) true
  end.

Definition has_path (k : fskind) : bool :=
  match k with KPath1 | KPath2 | KStat | KTemp | KStr | KScandir | KOpendir => true | _ => false end.

(* INIT + PATH/PATH2 + buffer copy of the uv_fs_* entry points (fs.c:90-137,
   2016-2049, 2205-2236).  [big] = nbufs > ARRAY_SIZE(bufsml). *)
Definition req_init (k : fskind) (cb big : bool) (h : heap) : lreq * heap :=
  let pr := if has_path k then
              (if cb then PHeap else match k with KTemp => PHeap | _ => PUser end)
            else PNone in
  let npr := match k with KPath2 => pr | _ => PNone end in
  let h1 := match pr with PHeap => alloc BkPath h | _ => h end in
  let '(br, h2) :=
    match k with
    | KRead => if cb then (if big then (BHeap, alloc BkBufs h1) else (BSml, h1)) else (BUser, h1)
    | KWrite => if big then (BHeap, alloc BkBufs h1) else (BSml, h1)
    | _ => (BNull, h1)
    end in
  let pt := match k with
            | KReaddir => QReaddir 0
            | KClosedir => QDir
            | _ => QNull
            end in
  (mkReq k cb pr npr br pt 0, h2).

(* Effect of running the operation on the request's ownership.
   [ok] = the operation succeeded; [n] = entries returned (scandir/readdir). *)
Definition free_bufs (q : lreq) (h : heap) : heap :=
  match q_bufs q with BHeap => release BkBufs h | _ => h end.

Fixpoint alloc_dents (n : nat) (h : heap) : heap :=
  match n with O => h | S m => alloc (BkDent m) (alloc_dents m h) end.
Fixpoint alloc_names (n : nat) (h : heap) : heap :=
  match n with O => h | S m => alloc (BkName m) (alloc_names m h) end.

Definition set_ptr (q : lreq) (p : ptrref) (res : Z) (b : bufsref) : lreq :=
  mkReq (q_kind q) (q_cb q) (q_path q) (q_newpath q) b p res.

(* uv__fs_work on the pool/sync route *)
Definition work_effect (q : lreq) (ok : bool) (n : nat) (h : heap) : lreq * heap :=
  let res := if ok then Z.of_nat n else (-2)%Z in
  match q_kind q with
  | KRead =>        (* uv__fs_read: frees a heap copy when cb != NULL, clears bufs *)
      (set_ptr q QNull res BNull, if q_cb q then free_bufs q h else h)
  | KWrite =>       (* uv__fs_write_all: frees the copy unless it is bufsml *)
      (set_ptr q QNull res BNull, free_bufs q h)
  | KStat | KFstat => (set_ptr q (if ok then QStatbuf else q_ptr q) (if ok then 0 else res)%Z (q_bufs q), h)
  | KStr => if ok then (set_ptr q QHeap 0%Z (q_bufs q), alloc BkPtr h)
            else (set_ptr q QNull res (q_bufs q), h)
  | KScandir =>
      if ok then
        match n with
        | O => (set_ptr q QNull 0%Z (q_bufs q), h)            (* free(dents); ptr = NULL *)
        | _ => (set_ptr q (QScandir n 0) res (q_bufs q), alloc_dents n (alloc BkDents h))
        end
      else (set_ptr q QNull res (q_bufs q), h)
  | KOpendir => if ok then (set_ptr q QDir 0%Z (q_bufs q), alloc BkDir h)
                else (set_ptr q QNull res (q_bufs q), h)
  | KReaddir => if ok then (set_ptr q (QReaddir n) res (q_bufs q), alloc_names n h)
                else (set_ptr q (QReaddir 0) res (q_bufs q), h)
  | KClosedir => (set_ptr q QNull 0%Z (q_bufs q), release BkDir h)
  | _ => (set_ptr q (q_ptr q) res (q_bufs q), h)
  end.

(* ring route.  Submission (uv__iou_fs_statx allocates the struct statx and
   parks it in req->ptr; the other uv__iou_fs_* allocate nothing), then the
   completion in uv__poll_io_uring (+ uv__iou_fs_statx_post); reads/writes keep
   their buffer copy.  [unsupported] = the completion carried -EOPNOTSUPP and the
   request was re-posted to the pool (ring_repost, then uv__fs_post). *)
Definition ring_submit (q : lreq) (h : heap) : lreq * heap :=
  match q_kind q with
  | KStat | KFstat => (set_ptr q QStatx 0%Z (q_bufs q), alloc BkStatx h)
  | _ => (q, h)
  end.

(* before uv__fs_post the struct statx parked in req->ptr is freed and
   req->ptr cleared (linux.c, the -EOPNOTSUPP branch of uv__poll_io_uring) *)
Definition ring_repost (q : lreq) (h : heap) : lreq * heap :=
  match q_kind q with
  | KStat | KFstat =>
      match q_ptr q with
      | QStatx => (set_ptr q QNull (q_result q) (q_bufs q), release BkStatx h)
      | _ => (set_ptr q QNull (q_result q) (q_bufs q), h)       (* uv__free(NULL) *)
      end
  | _ => (q, h)
  end.

Definition ring_finish (q : lreq) (ok unsupported : bool) (n : nat) (h : heap) : lreq * heap :=
  if unsupported then let '(q1, h1) := ring_repost q h in work_effect q1 ok n h1
  else
    match q_kind q with
    | KStat | KFstat =>
        (set_ptr q (if ok then QStatbuf else QNull) (if ok then 0 else -2)%Z (q_bufs q), release BkStatx h)
    | _ => (set_ptr q (q_ptr q) (if ok then Z.of_nat n else -2)%Z (q_bufs q), h)
    end.

Definition ring_effect (q : lreq) (ok unsupported : bool) (n : nat) (h : heap) : lreq * heap :=
  let '(q1, h1) := ring_submit q h in ring_finish q1 ok unsupported n h1.

(* uv_fs_scandir_next (uv-common.c:733-768): one step of the iteration *)
Definition scandir_next (q : lreq) (h : heap) : lreq * heap :=
  match q_ptr q with
  | QScandir n next =>
      let h1 := match next with O => h | S p => release (BkDent p) h end in
      if (next =? n)%nat then (set_ptr q QNull (q_result q) (q_bufs q), release BkDents h1)
      else (set_ptr q (QScandir n (S next)) (q_result q) (q_bufs q), h1)
  | _ => (q, h)
  end.

Fixpoint release_dents (i n : nat) (h : heap) : heap :=   (* for (; i < n; i++) free(dents[i]) *)
  match n with
  | O => h
  | S m => if (i <=? m)%nat then release (BkDent m) (release_dents i m h) else h
  end.
Fixpoint release_names (n : nat) (h : heap) : heap :=
  match n with O => h | S m => release (BkName m) (release_names m h) end.

(* uv_fs_req_cleanup (fs.c:2239-2269) with uv__fs_scandir_cleanup and
   uv__fs_readdir_cleanup (uv-common.c:709-730, 806-825) *)
Definition is_temp (k : fskind) : bool := match k with KTemp => true | _ => false end.

Definition req_cleanup (q : lreq) (h : heap) : lreq * heap :=
  (* path *)
  let h1 := match q_path q with
            | PNone => h
            | PUser => if q_cb q || is_temp (q_kind q) then mkHeap (live h) true else h
            | PHeap => if q_cb q || is_temp (q_kind q) then release BkPath h else h
            end in
  (* readdir / scandir *)
  let '(pt, h2) :=
    match q_kind q, q_ptr q with
    | KReaddir, QReaddir n =>
        (QNull, if (0 <=? q_result q)%Z then release_names (Z.to_nat (q_result q)) h1 else h1)
    | KScandir, QScandir n next =>
        let h' := if (0 <=? q_result q)%Z
                  then release_dents (match next with O => O | S p => p end) (Z.to_nat (q_result q)) h1
                  else h1 in
        (QNull, release BkDents h')
    | _, p => (p, h1)
    end in
  (* bufs *)
  let h3 := match q_bufs q with BHeap => release BkBufs h2 | BUser => mkHeap (live h2) true | _ => h2 end in
  (* ptr *)
  let h4 := match q_kind q with
            | KOpendir => h3
            | _ => match pt with
                   | QHeap => release BkPtr h3
                   | QStatx => release BkStatx h3
                   | QDir => release BkDir h3
                   | _ => h3
                   end
            end in
  (mkReq (q_kind q) (q_cb q) PNone PNone BNull QNull (q_result q), h4).

(* The result states a request can be cleaned up in. *)
Inductive lstate :=
| LEarly                                   (* uv_fs_* returned an error after INIT, nothing posted *)
| LCancelled                               (* async, uv_cancel before the work ran *)
| LDonePool (ok : bool) (n : nat)          (* sync or pool route completed *)
| LDoneRing (ok unsupported : bool) (n : nat)
| LIterated (n k : nat).                   (* scandir succeeded with n entries, k x scandir_next *)

Fixpoint iter_next (k : nat) (q : lreq) (h : heap) : lreq * heap :=
  match k with
  | O => (q, h)
  | S k' => let '(q', h') := scandir_next q h in iter_next k' q' h'
  end.

(* uv_fs_read/write return UV_EINVAL right after INIT (bufs == NULL), so the
   early state has the INIT values only. *)
Definition req_early (k : fskind) (cb : bool) : lreq := mkReq k cb PNone PNone BNull QNull 0%Z.

Definition reach (k : fskind) (cb big : bool) (stt : lstate) (h : heap) : lreq * heap :=
  match stt with
  | LEarly => (req_early k cb, h)
  | LCancelled => let '(q, h1) := req_init k cb big h in
                  (set_ptr q (q_ptr q) (-125)%Z (q_bufs q), h1)
  | LDonePool ok n => let '(q, h1) := req_init k cb big h in work_effect q ok n h1
  | LDoneRing ok uns n => let '(q, h1) := req_init k cb big h in ring_effect q ok uns n h1
  | LIterated n k' => let '(q, h1) := req_init k cb big h in
                      let '(q2, h2) := work_effect q true n h1 in iter_next k' q2 h2
  end.

(* Blocks that legitimately outlive the request: the uv_dir_t handed out by a
   successful opendir (released by closedir), the dirent names of a readdir
   are released by the request's cleanup. *)
Definition user_owned (b : block) : bool := match b with BkDir => true | _ => false end.

(* Blocks obtained through uv__malloc (visible to uv_replace_allocator); the
   scandir entries come from the C library's scandir(). *)
Definition uv_block (b : block) : bool :=
  match b with BkDents | BkDent _ => false | _ => true end.
Definition uv_live (h : heap) : nat := length (filter uv_block (live h)).

(* ================================================================== *)
(* Part D: size of the thread pool behind the pool route              *)
(* ================================================================== *)
(* init_threads (src/threadpool.c:194-207):
     nthreads = ARRAY_SIZE(default_threads);            -- 4
     val = getenv("UV_THREADPOOL_SIZE");
     if (val != NULL) nthreads = atoi(val);              -- int -> unsigned int
     if (nthreads == 0) nthreads = 1;
     if (nthreads > MAX_THREADPOOL_SIZE) nthreads = MAX_THREADPOOL_SIZE;   -- 1024
   atoi is glibc's: (int) strtol(s, NULL, 10) - leading white space, one
   optional sign, decimal digits, the value saturating at LONG_MIN/LONG_MAX;
   the conversions long -> int -> unsigned int keep the low 32 bits. *)
Definition is_space (c : N) : bool :=
  ((9 <=? c) && (c <=? 13))%N || (c =? 32)%N.
Definition digit_of (c : N) : option Z :=
  if ((48 <=? c) && (c <=? 57))%N then Some (Z.of_N c - 48) else None.

Fixpoint skip_spaces (s : list N) : list N :=
  match s with
  | c :: r => if is_space c then skip_spaces r else s
  | [] => []
  end.

Fixpoint digits_value (s : list N) (acc : Z) : Z :=
  match s with
  | c :: r => match digit_of c with
              | Some d => digits_value r (acc * 10 + d)
              | None => acc
              end
  | [] => acc
  end.

Definition LONG_MAX : Z := 9223372036854775807.
Definition sat_long (z : Z) : Z :=
  if LONG_MAX <? z then LONG_MAX else if z <? - LONG_MAX - 1 then - LONG_MAX - 1 else z.

Definition strtol10 (s : list N) : Z :=
  match skip_spaces s with
  | 45%N :: r => sat_long (- digits_value r 0)      (* '-' *)
  | 43%N :: r => sat_long (digits_value r 0)        (* '+' *)
  | r => sat_long (digits_value r 0)
  end.

Definition atoi_unsigned (s : list N) : Z := strtol10 s mod two32.

Definition MAX_THREADPOOL_SIZE : Z := 1024.
(* [None] = the variable is not set *)
Definition pool_size (v : option (list N)) : Z :=
  let n := match v with None => 4 | Some s => atoi_unsigned s end in
  let n := if n =? 0 then 1 else n in
  if MAX_THREADPOOL_SIZE <? n then MAX_THREADPOOL_SIZE else n.

(* ================================================================== *)
(* Part E: room in the submission ring (uv__iou_get_sqe)               *)
(* ================================================================== *)
(* linux.c:785-793
     head = load(iou->sqhead); tail = *iou->sqtail; mask = iou->sqmask;
     if ((head & mask) == ((tail + 1) & mask)) return NULL;   -- no room: thread pool
     slot = tail & mask;
   and uv__iou_submit: *sqtail = tail + 1.  head and tail are free-running
   32-bit counters; the kernel advances head as it consumes entries. *)
Record sqring := mkSq { sq_head : Z; sq_tail : Z }.

Definition sq_full (mask : Z) (r : sqring) : bool :=
  Z.land (sq_head r) mask =? Z.land (wrap32 (sq_tail r + 1)) mask.

(* one submission attempt: the slot granted (None = fall back to the pool) *)
Definition sq_submit (mask : Z) (r : sqring) : option Z * sqring :=
  if sq_full mask r then (None, r)
  else (Some (Z.land (sq_tail r) mask), mkSq (sq_head r) (wrap32 (sq_tail r + 1))).

Definition sq_outstanding (r : sqring) : Z := wrap32 (sq_tail r - sq_head r).

(* the kernel consumes up to n entries *)
Definition sq_consume (n : Z) (r : sqring) : sqring :=
  let k := if n <? sq_outstanding r then n else sq_outstanding r in
  mkSq (wrap32 (sq_head r + k)) (sq_tail r).

Inductive sqop := SqSubmit | SqConsume (n : Z).

Fixpoint sq_run (mask : Z) (ops : list sqop) (r : sqring) : list (option Z) * sqring :=
  match ops with
  | [] => ([], r)
  | SqSubmit :: l =>
      let '(g, r') := sq_submit mask r in
      let '(gs, r'') := sq_run mask l r' in (g :: gs, r'')
  | SqConsume n :: l => sq_run mask l (sq_consume n r)
  end.

(* ================================================================== *)
(* Part F: the buffer of uv__fs_readlink                               *)
(* ================================================================== *)
(* uv__fs_pathmax_size (fs.c:723-732): pathconf(path, _PC_PATH_MAX), and
   UV__PATH_MAX (= PATH_MAX) when that fails.
   uv__fs_readlink (fs.c:734-791): buf = malloc(maxlen); len = readlink(path,
   buf, maxlen) - the kernel copies min(target length, maxlen) bytes and no
   NUL; when len == maxlen the buffer grows by one; buf[len] = 0; ptr = buf. *)
Definition PATH_MAX : Z := 4096.
Definition pathmax_size (pathconf_answer : Z) : Z :=
  if pathconf_answer =? -1 then PATH_MAX else pathconf_answer.

(* the string left in req->ptr for a link whose target is [target] *)
Definition fs_readlink_ptr {A} (pathconf_answer : Z) (target : list A) : list A :=
  firstn (Z.to_nat (pathmax_size pathconf_answer)) target.

(* ================================================================== *)
(* Part G: the entry filter of uv_fs_scandir                           *)
(* ================================================================== *)
(* uv__fs_scandir_filter (fs.c:564-566):
     strcmp(dent->d_name, ".") != 0 && strcmp(dent->d_name, "..") != 0 *)
Fixpoint str_eqb (a b : list N) : bool :=
  match a, b with
  | [], [] => true
  | x :: a', y :: b' => (x =? y)%N && str_eqb a' b'
  | _, _ => false
  end.

Definition DOT : list N := [46%N].
Definition DOTDOT : list N := [46%N; 46%N].

Definition scandir_keeps (name : list N) : bool :=
  negb (str_eqb name DOT) && negb (str_eqb name DOTDOT).

(* what uv_fs_scandir reports of the entries readdir(3) delivers (before sorting) *)
Definition scandir_entries (l : list (list N)) : list (list N) := filter scandir_keeps l.
