(* Model of src/idna.c lines 28-68 and 378-569: uv__wtf8_decode1,
   uv_wtf8_length_as_utf16, uv_wtf8_to_utf16, uv__get_surrogate_value,
   uv_utf16_length_as_wtf8, uv_utf16_to_wtf8.

   A NUL-terminated C string is the list of its bytes/units up to, not
   including, the terminator; memory behind the list reads as 0 ([hd 0]).
   For the counted form (w_source_len >= 0) the list holds exactly the
   counted units.  int32_t -1 is [None].  [ssize_t w_source_len] is [Z].
   size_t arithmetic never gets near 2^64 here and is left unwrapped. *)
From UV Require Import Lib.Base.

Local Open Scope N_scope.

Definition UV_ENOBUFS : Z := (-105)%Z.
Definition UV_ENOMEM : Z := (-12)%Z.

(* uv__wtf8_decode1, lines 28-68.  [s] = bytes at *input; the result list
   starts at the byte *input points to on return (the last byte consumed). *)
Definition wtf8_decode1 (s : list N) : option N * list N :=
  let b1 := hd 0 s in
  if b1 <=? 127 then (Some b1, s)
  else if b1 <? 194 then (None, s)
  else
    let cp := b1 in
    let s := tl s in
    let b2 := hd 0 s in
    if negb (N.land b2 192 =? 128) then (None, s)
    else
      let cp := N.lor (N.shiftl cp 6) (N.land b2 63) in
      if b1 <=? 223 then (Some (N.land 2047 cp), s)
      else
        let s := tl s in
        let b3 := hd 0 s in
        if negb (N.land b3 192 =? 128) then (None, s)
        else
          let cp := N.lor (N.shiftl cp 6) (N.land b3 63) in
          if b1 <=? 239 then (Some (N.land 65535 cp), s)
          else
            let s := tl s in
            let b4 := hd 0 s in
            if negb (N.land b4 192 =? 128) then (None, s)
            else
              let cp := N.lor (N.shiftl cp 6) (N.land b4 63) in
              if b1 <=? 244 then
                let cp := N.land cp 2097151 in
                if cp <=? 1114111 then (Some cp, s) else (None, s)
              else (None, s).

(* uv_wtf8_length_as_utf16, lines 378-392: do { ... } while ( *source_ptr++).
   None = -1.  The count includes the terminating NUL. *)
Fixpoint wtf8_length_loop (fuel : nat) (s : list N) (len : N) : option N :=
  match fuel with
  | O => Some len
  | S f =>
      match wtf8_decode1 s with
      | (None, _) => None
      | (Some cp, s') =>
          let len := if 65535 <? cp then len + 1 else len in
          let len := len + 1 in
          if hd 0 s' =? 0 then Some len else wtf8_length_loop f (tl s') len
      end
  end.

Definition wtf8_length_as_utf16 (s : list N) : option N :=
  wtf8_length_loop (S (length s)) s 0.

(* uv_wtf8_to_utf16, lines 395-417.  Result: the 16-bit units stored, in
   order (the terminating 0 included), and whether every assert of the
   function holds (with NDEBUG the asserts are not compiled; when the first
   one fails the model stops, the C code would go on with garbage). *)
Fixpoint wtf8_to_utf16_loop (fuel : nat) (s : list N) (out : list N) (ok : bool)
  : list N * bool :=
  match fuel with
  | O => (rev out, ok)
  | S f =>
      match wtf8_decode1 s with
      | (None, _) => (rev out, false)                 (* assert(code_point >= 0) *)
      | (Some cp, s') =>
          let ok := ok && ((cp <=? 65535) || (cp <=? 1114111)) in (* assert(code_point <= 0x10FFFF) *)
          let out :=
            if 65535 <? cp then
              ((N.land (cp - 65536) 1023) + 56320) :: (N.shiftr (cp - 65536) 10 + 55296) :: out
            else cp :: out in
          if hd 0 s' =? 0 then (rev out, ok) else wtf8_to_utf16_loop f (tl s') out ok
      end
  end.

Definition wtf8_to_utf16 (s : list N) : list N * bool :=
  wtf8_to_utf16_loop (S (length s)) s [] true.

(* uv__get_surrogate_value, lines 420-432 *)
Definition get_surrogate_value (w : list N) (len : Z) : N :=
  let u := hd 0 w in
  if (55296 <=? u) && (u <=? 56319) && negb (len =? 1)%Z then
    let next := hd 0 (tl w) in
    if (56320 <=? next) && (next <=? 57343) then
      65536 + N.shiftl (u - 55296) 10 + (next - 56320)
    else u
  else u.

Definition dec_len (len : Z) : Z := if (0 <? len)%Z then (len - 1)%Z else len.

(* uv_utf16_length_as_wtf8, lines 435-465 *)
Fixpoint utf16_length_loop (fuel : nat) (w : list N) (len : Z) (acc : N) : N :=
  match fuel with
  | O => acc
  | S f =>
      if (len =? 0)%Z then acc
      else
        let cp := get_surrogate_value w len in
        if (len <? 0)%Z && (cp =? 0) then acc
        else if cp <? 128 then utf16_length_loop f (tl w) (dec_len len) (acc + 1)
        else if cp <? 2048 then utf16_length_loop f (tl w) (dec_len len) (acc + 2)
        else if cp <? 65536 then utf16_length_loop f (tl w) (dec_len len) (acc + 3)
        else utf16_length_loop f (tl (tl w)) (dec_len (dec_len len)) (acc + 4)
  end.

Definition utf16_length_as_wtf8 (w : list N) (len : Z) : N :=
  utf16_length_loop (S (length w)) w len 0.

(* uv_utf16_to_wtf8, lines 468-569. *)
Inductive tgt :=
| TNull                (* target_ptr == NULL: only the length is computed *)
| TAlloc (ok : bool)   (* *target_ptr == NULL: uv__malloc, [ok] = it succeeds *)
| TBuf (cap : N).      (* caller's buffer, *target_len_ptr = cap on entry *)

Record wst := mkWst {
  ws_src : list N;      (* w_source_ptr *)
  ws_len : Z;           (* w_source_len *)
  ws_target : N;        (* target - *target_ptr *)
  ws_tlen : N;          (* target_len *)
  ws_out : list N       (* bytes stored so far, latest first *)
}.

(* lines 505-548.  [tend] = target_end - *target_ptr. *)
Fixpoint to_wtf8_loop (fuel : nat) (tend : N) (st : wst) : wst :=
  match fuel with
  | O => st
  | S f =>
      let '(mkWst w len target tlen out) := st in
      if (target =? tend) || (len =? 0)%Z then st
      else
        let cp := get_surrogate_value w len in
        if (len <? 0)%Z && (cp =? 0) then mkWst w 0%Z target tlen out
        else if cp <? 128 then
          let out := cp :: out in
          let target := target + 1 in
          to_wtf8_loop f tend (mkWst (tl w) (dec_len len) target target out)
        else if cp <? 2048 then
          let out := N.lor 192 (N.shiftr cp 6) :: out in
          let target := target + 1 in
          if target =? tend then mkWst w len target tlen out
          else
            let out := N.lor 128 (N.land cp 63) :: out in
            let target := target + 1 in
            to_wtf8_loop f tend (mkWst (tl w) (dec_len len) target target out)
        else if cp <? 65536 then
          let out := N.lor 224 (N.shiftr cp 12) :: out in
          let target := target + 1 in
          if target =? tend then mkWst w len target tlen out
          else
            let out := N.lor 128 (N.land (N.shiftr cp 6) 63) :: out in
            let target := target + 1 in
            if target =? tend then mkWst w len target tlen out
            else
              let out := N.lor 128 (N.land cp 63) :: out in
              let target := target + 1 in
              to_wtf8_loop f tend (mkWst (tl w) (dec_len len) target target out)
        else
          let out := N.lor 240 (N.shiftr cp 18) :: out in
          let target := target + 1 in
          if target =? tend then mkWst w len target tlen out
          else
            let out := N.lor 128 (N.land (N.shiftr cp 12) 63) :: out in
            let target := target + 1 in
            if target =? tend then mkWst w len target tlen out
            else
              let out := N.lor 128 (N.land (N.shiftr cp 6) 63) :: out in
              let target := target + 1 in
              if target =? tend then mkWst w len target tlen out
              else
                let out := N.lor 128 (N.land cp 63) :: out in
                let target := target + 1 in
                to_wtf8_loop f tend
                  (mkWst (tl (tl w)) (dec_len (dec_len len)) target target out)
  end.

(* Result: (return code, bytes stored through *target_ptr in order -- the
   terminating NUL included --, *target_len_ptr on return). *)
Definition utf16_to_wtf8 (w : list N) (len : Z) (t : tgt) : Z * list N * N :=
  (* lines 481-487 *)
  let target_len :=
    match t with
    | TBuf cap => cap
    | _ => utf16_length_as_wtf8 w len
    end in
  match t with
  | TNull => (0%Z, [], target_len)
  | TAlloc false => (UV_ENOMEM, [], target_len)
  | _ =>
      let tend := target_len in
      (* target_end = target + target_len; target_len = 0; (commit 0064931) *)
      let st := to_wtf8_loop (S (length w)) tend (mkWst w len 0 0 []) in
      let '(mkWst w' len' target tlen out) := st in
      (* lines 550-553 *)
      let tlp := if negb (target =? tend) then target else target_len in
      (* lines 556-557 *)
      let len' := if (len' <? 0)%Z && (target =? tend) && (hd 0 w' =? 0) then 0%Z else len' in
      let out := 0 :: out in                               (* *target++ = '\0' *)
      if negb (len' =? 0)%Z then
        (UV_ENOBUFS, rev out, tlen + utf16_length_as_wtf8 w' len')
      else (0%Z, rev out, tlp)
  end.
