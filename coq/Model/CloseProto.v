(* Model of the close protocol for the handle types that can have work in
   flight when uv_close() is called (C02).

   Mirrors, statement by statement:
     src/unix/core.c     uv_close (159-238), uv__make_close_pending (268-273),
                         uv__finish_close (303-365), uv__run_closing_handles (368-380)
     src/unix/stream.c   uv__stream_close (1507-1560), uv__stream_destroy (455-470),
                         uv__stream_flush_write_queue (440-452), uv__write_callbacks
                         (901-929), uv__drain (626-659, the CLOSING branch)
     src/unix/pipe.c     uv__pipe_close (177-191)
     src/unix/udp.c      uv__udp_close (56-64), uv__udp_finish_close (67-92),
                         uv__udp_run_completed (95-135)
     src/unix/signal.c   uv__signal_close (352-354) + the re-queue in uv__finish_close
     src/fs-poll.c       uv_fs_poll_start/stop (65-140), uv__fs_poll_close,
                         poll_cb (incl. the superseded-context test), timer_close_cb
     poll/process/fs_event/timer/idle/prepare/check/async: stop only ([TSimple]).

   The outside world is the script: which requests the API accepted
   ([OSubmit]), when the kernel finished a write/send at the system call
   ([ODone]: the request moves to the completed queue, callback owed), which
   callbacks the I/O phase delivered ([OReqCb], [OHCb]: echoed when legal),
   how many caught signals are still in the signal pipe when the closing
   phase starts ([OSigPending]), when the thread pool finished the stat of an
   fs_poll handle ([OFpStat]), which resources a handle acquired
   ([OAcquire]/[ORelease]).  What the model *predicts* is everything the
   closing phase does: the cancellation callbacks, their order and status,
   the close callbacks and the phase in which they run.

   A callback's behaviour is a script: the k-th callback of a case runs
   [beh k]. *)
From UV Require Import Lib.Base.

Local Open Scope Z_scope.

Definition UV_ECANCELED : Z := -125.

Inductive htype := TSimple | TStream | TUdp | TSignal | TFsPoll.

Definition htype_eqb (a b : htype) : bool :=
  match a, b with
  | TSimple, TSimple | TStream, TStream | TUdp, TUdp | TSignal, TSignal | TFsPoll, TFsPoll => true
  | _, _ => false
  end.

(* one struct poll_ctx of fs-poll.c: is its uv_fs_stat in flight; state of
   its timer handle: 0 not started, 1 active, 2 closing (timer_close_cb owed) *)
Record ctx := mkC { c_id : nat; c_stat : bool; c_timer : nat }.

Record hst := mkHS {
  h_ty : htype;
  h_closing : bool;           (* UV_HANDLE_CLOSING *)
  h_closed : bool;            (* close_cb delivered *)
  h_conn : option nat;        (* stream->connect_req *)
  h_wq : list nat;            (* write_queue (stream, udp), head first *)
  h_cq : list (nat * Z);      (* write_completed_queue with req->error / req->status *)
  h_shut : option nat;        (* stream->shutdown_req *)
  h_ledger : list nat;        (* what the handle owns: 0 descriptor, 1 accepted_fd, 2 queued fd,
                                 3 bound socket path, 4 inotify watch, 5 epoll registration,
                                 6 signal disposition *)
  h_sigpend : Z;              (* caught_signals - dispatched_signals *)
  h_active : bool;            (* fs_poll: UV_HANDLE_ACTIVE *)
  h_ctxs : list ctx           (* fs_poll: handle->poll_ctx chain, head first *)
}.

(* loop->closing_handles holds user handles and the internal timers of
   fs_poll contexts *)
Inductive centry := CH (h : nat) | CT (h c : nat).

(* operations of a script or of a callback *)
Inductive cop :=
| OInit (t : htype)
| OAcquire (h res : nat)
| ORelease (h res : nat)
| OSubmit (h r kind : nat)       (* kind: 0 connect, 1 write, 2 shutdown, 3 udp send *)
| ODone (r : nat) (st : Z)       (* the system call finished the head request of its queue *)
| OReqCb (r : nat) (st : Z)      (* top level only: the I/O phase delivered the callback of connect /
                                    shutdown request r with the kernel's verdict st *)
| OBatch (h : nat)               (* top level only: uv__write_callbacks / uv__udp_run_completed called by
                                    the I/O phase (uv__stream_io, uv__udp_io) *)
| OHCb (h : nat)                 (* top level only: the loop delivered a handle callback *)
| OSigPending (h : nat) (n : Z)
| OFpStart (h : nat)
| OFpStop (h : nat)
| OFpStat (h : nat)              (* top level only: poll_cb of the oldest context with a stat in flight
                                    (the part after the user callback) *)
| OClose (h : nat)
| OPhase.                        (* top level only: uv__run_closing_handles *)

Inductive cev :=
| EIn (o : cop)                        (* an operation that was carried out *)
| EReqCb (r : nat) (st : Z) (cl : bool)  (* request callback; cl: from the closing phase *)
| EHCb (h : nat)
| ECloseCb (h : nat)
| ELeak (h res : nat)                  (* still owned at close_cb *)
| ETouch (h : nat).                    (* libuv itself reads/writes the handle's memory *)

Record cstate := mkCS {
  hs : list hst;
  clq : list centry;          (* loop->closing_handles, head first *)
  owner : list (nat * nat);   (* every request ever accepted: id, handle *)
  nctx : nat;
  ncb : nat;                  (* callbacks so far *)
  hist : list cev             (* ghost: everything that happened, newest first; the trace is its reverse *)
}.

Definition cinit : cstate := mkCS [] [] [] O O [].

Definition dflt_hs : hst := mkHS TSimple true true None [] [] None [] 0 false [].
Definition hget (s : cstate) (h : nat) : hst := nth h (hs s) dflt_hs.
Definition hvalid (s : cstate) (h : nat) : bool := Nat.ltb h (length (hs s)).
(* the user may still call the API on it *)
Definition usable (s : cstate) (h : nat) : bool := hvalid s h && negb (h_closing (hget s h)).

Definition set_hs s v := mkCS v (clq s) (owner s) (nctx s) (ncb s) (hist s).
Definition set_clq s v := mkCS (hs s) v (owner s) (nctx s) (ncb s) (hist s).
Definition set_owner s v := mkCS (hs s) (clq s) v (nctx s) (ncb s) (hist s).
Definition set_nctx s v := mkCS (hs s) (clq s) (owner s) v (ncb s) (hist s).
Definition set_ncb s v := mkCS (hs s) (clq s) (owner s) (nctx s) v (hist s).
Definition emit s (e : cev) := mkCS (hs s) (clq s) (owner s) (nctx s) (ncb s) (e :: hist s).
Definition upd_h (s : cstate) (h : nat) (f : hst -> hst) : cstate := set_hs s (upd h f (hs s)).
Definition push_clq s (e : centry) := set_clq s (e :: clq s).

Definition w_closing b x := mkHS (h_ty x) b (h_closed x) (h_conn x) (h_wq x) (h_cq x) (h_shut x) (h_ledger x) (h_sigpend x) (h_active x) (h_ctxs x).
Definition w_closed b x := mkHS (h_ty x) (h_closing x) b (h_conn x) (h_wq x) (h_cq x) (h_shut x) (h_ledger x) (h_sigpend x) (h_active x) (h_ctxs x).
Definition w_conn v x := mkHS (h_ty x) (h_closing x) (h_closed x) v (h_wq x) (h_cq x) (h_shut x) (h_ledger x) (h_sigpend x) (h_active x) (h_ctxs x).
Definition w_wq v x := mkHS (h_ty x) (h_closing x) (h_closed x) (h_conn x) v (h_cq x) (h_shut x) (h_ledger x) (h_sigpend x) (h_active x) (h_ctxs x).
Definition w_cq v x := mkHS (h_ty x) (h_closing x) (h_closed x) (h_conn x) (h_wq x) v (h_shut x) (h_ledger x) (h_sigpend x) (h_active x) (h_ctxs x).
Definition w_shut v x := mkHS (h_ty x) (h_closing x) (h_closed x) (h_conn x) (h_wq x) (h_cq x) v (h_ledger x) (h_sigpend x) (h_active x) (h_ctxs x).
Definition w_ledger v x := mkHS (h_ty x) (h_closing x) (h_closed x) (h_conn x) (h_wq x) (h_cq x) (h_shut x) v (h_sigpend x) (h_active x) (h_ctxs x).
Definition w_sigpend v x := mkHS (h_ty x) (h_closing x) (h_closed x) (h_conn x) (h_wq x) (h_cq x) (h_shut x) (h_ledger x) v (h_active x) (h_ctxs x).
Definition w_active v x := mkHS (h_ty x) (h_closing x) (h_closed x) (h_conn x) (h_wq x) (h_cq x) (h_shut x) (h_ledger x) (h_sigpend x) v (h_ctxs x).
Definition w_ctxs v x := mkHS (h_ty x) (h_closing x) (h_closed x) (h_conn x) (h_wq x) (h_cq x) (h_shut x) (h_ledger x) (h_sigpend x) (h_active x) v.

Definition opt_is (o : option nat) (r : nat) : bool :=
  match o with Some x => Nat.eqb x r | None => false end.

Fixpoint lookup (r : nat) (l : list (nat * nat)) : option nat :=
  match l with
  | [] => None
  | (k, v) :: t => if Nat.eqb k r then Some v else lookup r t
  end.

Fixpoint remove1 (x : nat) (l : list nat) : list nat :=
  match l with
  | [] => []
  | y :: t => if Nat.eqb x y then t else y :: remove1 x t
  end.

(* send_cb gets 0 for status >= 0 (uv__udp_run_completed), write_cb gets req->error *)
Definition cbstatus (t : htype) (st : Z) : Z :=
  match t with TUdp => if 0 <=? st then 0 else st | _ => st end.

(* uv_fs_poll_stop *)
Definition fp_stop (s : cstate) (h : nat) : cstate :=
  let x := hget s h in
  if h_active x then
    let s1 := match h_ctxs x with
              | c :: rest =>
                  if Nat.eqb (c_timer c) 1 then
                    (* uv_close(&ctx->timer_handle, timer_close_cb) *)
                    push_clq (upd_h s h (w_ctxs (mkC (c_id c) (c_stat c) 2 :: rest))) (CT h (c_id c))
                  else s
              | [] => s
              end in
    upd_h s1 h (w_active false)
  else s.

(* poll_cb, tail: applied to the oldest context whose stat is in flight;
   [head]: is the first element of l the handle's current context
   (handle->poll_ctx == ctx).  A context whose handle is inactive or closing, or
   that has been superseded by stop + start, closes its timer; otherwise it
   re-arms it.  Result: the new chain and (context, was its timer closed) *)
Fixpoint stat_done (closing_or_inactive head : bool) (l : list ctx) : list ctx * option (nat * bool) :=
  match l with
  | [] => ([], None)
  | c :: rest =>
      match stat_done closing_or_inactive false rest with
      | (rest', Some r) => (c :: rest', Some r)
      | (_, None) =>
          if c_stat c then
            if closing_or_inactive || negb head
            then (mkC (c_id c) false 2 :: rest, Some (c_id c, true))   (* uv_close(timer) *)
            else (mkC (c_id c) false 1 :: rest, Some (c_id c, false))  (* uv_timer_start *)
          else (c :: rest, None)
      end
  end.

Definition has_stat (l : list ctx) : bool := existsb c_stat l.

(* uv_close *)
Definition c_close (s : cstate) (h : nat) : cstate :=
  let x := hget s h in
  (* per-type teardown: the descriptor, accepted/queued descriptors, the bound
     path, the watch, the registration are given up here; request queues are
     left for uv__finish_close *)
  let s1 := upd_h s h (fun x => w_ledger [] (w_closing true x)) in
  match h_ty x with
  | TFsPoll =>
      (* uv__fs_poll_close: stop; queue the handle only if no context is left *)
      let s2 := fp_stop s1 h in
      match h_ctxs (hget s2 h) with
      | [] => push_clq s2 (CH h)
      | _ => s2
      end
  | _ => push_clq s1 (CH h)
  end.

(* one API-level operation; operations the harness does not issue (unknown or
   closing handle, request id in use, wrong type, out-of-order completion)
   are ignored and leave no event *)
Definition capi (s : cstate) (o : cop) : cstate :=
  match o with
  | OInit t =>
      emit (set_hs s (hs s ++ [mkHS t false false None [] [] None [] 0 false []])) (EIn o)
  | OAcquire h res =>
      if usable s h then emit (upd_h s h (fun x => w_ledger (res :: h_ledger x) x)) (EIn o) else s
  | ORelease h res =>
      if usable s h then emit (upd_h s h (fun x => w_ledger (remove1 res (h_ledger x)) x)) (EIn o) else s
  | OSubmit h r k =>
      let x := hget s h in
      if usable s h && match lookup r (owner s) with None => true | Some _ => false end then
        let s1 := set_owner s ((r, h) :: owner s) in
        match k, h_ty x with
        | O, TStream =>
            match h_conn x with
            | None => emit (upd_h s1 h (w_conn (Some r))) (EIn o)
            | Some _ => s
            end
        | 1%nat, TStream => emit (upd_h s1 h (w_wq (h_wq x ++ [r]))) (EIn o)
        | 2%nat, TStream =>
            match h_shut x with
            | None => emit (upd_h s1 h (w_shut (Some r))) (EIn o)
            | Some _ => s
            end
        | 3%nat, TUdp => emit (upd_h s1 h (w_wq (h_wq x ++ [r]))) (EIn o)
        | _, _ => s
        end
      else s
  | ODone r st =>
      match lookup r (owner s) with
      | Some h =>
          let x := hget s h in
          match h_wq x with
          | r' :: rest =>
              if Nat.eqb r r' && usable s h then
                emit (upd_h s h (fun x => w_cq (h_cq x ++ [(r, st)]) (w_wq rest x))) (EIn o)
              else s
          | [] => s
          end
      | None => s
      end
  | OSigPending h n =>
      if hvalid s h && negb (h_closed (hget s h)) && htype_eqb (h_ty (hget s h)) TSignal
      then emit (upd_h s h (w_sigpend n)) (EIn o) else s
  | OFpStart h =>
      let x := hget s h in
      if usable s h && htype_eqb (h_ty x) TFsPoll then
        if h_active x then emit s (EIn o)
        else
          let c := mkC (nctx s) true 0 in
          let s1 := upd_h s h (fun x => w_active true (w_ctxs (c :: h_ctxs x) x)) in
          emit (set_nctx s1 (S (nctx s1))) (EIn o)
      else s
  | OFpStop h =>
      if usable s h && htype_eqb (h_ty (hget s h)) TFsPoll then emit (fp_stop s h) (EIn o) else s
  | OClose h =>
      if usable s h then c_close (emit s (EIn o)) h else s
  | OReqCb _ _ | OBatch _ | OHCb _ | OFpStat _ | OPhase => s
  end.

Fixpoint capis (s : cstate) (os : list cop) : cstate :=
  match os with
  | [] => s
  | o :: os' => capis (capi s o) os'
  end.

(* a user callback: the event, then the scripted behaviour *)
Definition ccallback (s : cstate) (beh : nat -> list cop) (ev : cev) : cstate :=
  let k := ncb s in
  capis (set_ncb (emit s ev) (S k)) (beh k).

(* uv__write_callbacks / uv__udp_run_completed over the detached completed
   queue of handle h (uv__udp_run_completed does not detach; nothing can be
   appended meanwhile because UV_HANDLE_UDP_PROCESSING keeps uv__udp_send from
   calling sendmsg) *)
Fixpoint run_cq (l : list (nat * Z)) (h : nat) (s : cstate) (beh : nat -> list cop) : cstate :=
  match l with
  | [] => s
  | (r, st) :: rest =>
      let x := hget s h in
      run_cq rest h (ccallback s beh (EReqCb r (cbstatus (h_ty x) st) (h_closing x))) beh
  end.

Definition cancelled (l : list nat) : list (nat * Z) := map (fun r => (r, UV_ECANCELED)) l.

(* uv__stream_flush_write_queue(UV_ECANCELED) followed by uv__write_callbacks,
   resp. the first half of uv__udp_finish_close *)
Definition flush_and_run (s : cstate) (beh : nat -> list cop) (h : nat) : cstate :=
  let x := hget s h in
  run_cq (h_cq x ++ cancelled (h_wq x)) h (upd_h s h (fun x => w_cq [] (w_wq [] x))) beh.

(* uv__drain when UV_HANDLE_CLOSING is set: a pending shutdown request fails *)
Definition drain_closing (s : cstate) (beh : nat -> list cop) (h : nat) : cstate :=
  match h_shut (hget s h) with
  | Some r => ccallback (upd_h s h (w_shut None)) beh (EReqCb r UV_ECANCELED true)
  | None => s
  end.

Fixpoint emit_leaks (s : cstate) (h : nat) (l : list nat) : cstate :=
  match l with
  | [] => s
  | r :: t => emit_leaks (emit s (ELeak h r)) h t
  end.

(* the tail of uv__finish_close: CLOSED, (unref, unlink,) close_cb *)
Definition deliver_close (s : cstate) (beh : nat -> list cop) (h : nat) : cstate :=
  let s1 := emit_leaks s h (h_ledger (hget s h)) in
  ccallback (upd_h s1 h (w_closed true)) beh (ECloseCb h).

(* uv__stream_destroy: the connect request first *)
Definition cancel_connect (s : cstate) (beh : nat -> list cop) (h : nat) : cstate :=
  match h_conn (hget s h) with
  | Some r => ccallback (upd_h s h (w_conn None)) beh (EReqCb r UV_ECANCELED true)
  | None => s
  end.

(* uv__finish_close *)
Definition finish_close (s : cstate) (beh : nat -> list cop) (h : nat) : cstate :=
  let x := hget s h in
  match h_ty x with
  | TSignal =>
      if 0 <? h_sigpend x then
        (* caught_signals > dispatched_signals: back into the queue *)
        push_clq (emit s (ETouch h)) (CH h)
      else deliver_close s beh h
  | TStream =>
      deliver_close (drain_closing (flush_and_run (cancel_connect s beh h) beh h) beh h) beh h
  | TUdp =>
      deliver_close (flush_and_run s beh h) beh h
  | _ => deliver_close s beh h
  end.

(* timer_close_cb of fs-poll.c *)
Definition fp_timer_closed (s : cstate) (h c : nat) : cstate :=
  let x := hget s h in
  match h_ctxs x with
  | c0 :: rest =>
      if Nat.eqb (c_id c0) c then
        let s1 := upd_h s h (w_ctxs rest) in
        match rest with
        | [] => if h_closing x then push_clq s1 (CH h) else s1
        | _ => s1
        end
      else upd_h s h (w_ctxs (c0 :: filter (fun k => negb (Nat.eqb (c_id k) c)) rest))
  | [] => s
  end.

(* uv__run_closing_handles over the detached list *)
Fixpoint run_closing (l : list centry) (s : cstate) (beh : nat -> list cop) : cstate :=
  match l with
  | [] => s
  | CH h :: rest => run_closing rest (finish_close s beh h) beh
  | CT h c :: rest => run_closing rest (fp_timer_closed (emit s (ETouch h)) h c) beh
  end.

(* uv__stream_connect / uv__drain from the I/O phase: the callback of the
   connect resp. shutdown request of a handle that is not closing, with the
   kernel's verdict.  A failed connect cancels the writes queued behind it
   unless the callback closed the stream (then uv__stream_destroy does). *)
Definition req_cb (s : cstate) (beh : nat -> list cop) (r : nat) (st : Z) : cstate :=
  match lookup r (owner s) with
  | Some h =>
      let x := hget s h in
      if usable s h then
        if opt_is (h_conn x) r then
          let s1 := ccallback (upd_h s h (w_conn None)) beh (EReqCb r st false) in
          if (st <? 0) && negb (h_closing (hget s1 h)) then flush_and_run s1 beh h else s1
        else if opt_is (h_shut x) r then
          ccallback (upd_h s h (w_shut None)) beh (EReqCb r st false)
        else s
      else s
  | None => s
  end.

(* the completed queue is delivered by the I/O phase; for a stream whose write
   queue and completed queue are both empty afterwards uv__drain follows *)
Definition batch (s : cstate) (beh : nat -> list cop) (h : nat) : cstate :=
  let x := hget s h in
  if usable s h && (htype_eqb (h_ty x) TStream || htype_eqb (h_ty x) TUdp) then
    match h_cq x with
    | [] => s
    | pq =>
        let s1 := run_cq pq h (upd_h (emit s (EIn (OBatch h))) h (w_cq [])) beh in
        let x1 := hget s1 h in
        if htype_eqb (h_ty x) TStream && h_closing x1 &&
           match h_wq x1 with [] => true | _ => false end &&
           match h_cq x1 with [] => true | _ => false end
        then drain_closing s1 beh h else s1
    end
  else s.

(* a handle callback delivered by the loop.  Legal until the close callback:
   libuv does deliver a callback to a handle that is already closing in one
   place -- uv__wait_children() runs the exit callbacks of all children
   collected in one pass, also of a process handle that an earlier exit callback
   of the same pass closed *)
Definition h_cb (s : cstate) (beh : nat -> list cop) (h : nat) : cstate :=
  if hvalid s h && negb (h_closed (hget s h)) then ccallback s beh (EHCb h) else s.

Definition fp_stat (s : cstate) (h : nat) : cstate :=
  let x := hget s h in
  if hvalid s h && htype_eqb (h_ty x) TFsPoll && has_stat (h_ctxs x) then
    let s0 := emit (emit s (ETouch h)) (EIn (OFpStat h)) in
    match stat_done (negb (h_active x) || h_closing x) true (h_ctxs x) with
    | (l, Some (c, true)) => push_clq (upd_h s0 h (w_ctxs l)) (CT h c)
    | (l, _) => upd_h s0 h (w_ctxs l)
    end
  else s.

Definition cstep (s : cstate) (beh : nat -> list cop) (o : cop) : cstate :=
  match o with
  | OPhase => run_closing (clq s) (set_clq (emit s (EIn OPhase)) []) beh
  | OReqCb r st => req_cb s beh r st
  | OBatch h => batch s beh h
  | OHCb h => h_cb s beh h
  | OFpStat h => fp_stat s h
  | _ => capi s o
  end.

Fixpoint crun (s : cstate) (os : list cop) (beh : nat -> list cop) : cstate :=
  match os with
  | [] => s
  | o :: os' => crun (cstep s beh o) os' beh
  end.

(* the trace of a case *)
Definition ctrace (os : list cop) (beh : nat -> list cop) : list cev :=
  rev (hist (crun cinit os beh)).
