(* C19 - string getters.  One function per getter, written from the C source
   (Linux branch) statement by statement.

   Conventions
   - a byte is an [N]; the caller's memory starting at [buffer] is [buf : list N]
     (it may be longer than the capacity [cap] handed to the getter, so that a
     write beyond [cap] is visible in the result; writes beyond the end of the
     list - memory that is not modelled - are dropped by [write]);
   - [value] is the answer of the operating system / of libuv's own state,
     WITHOUT its terminator; the C string the code sees is [cstr value];
   - the result is (return code, *size after the call, memory after the call);
     getters without a size out-parameter return [cap] unchanged in that slot;
   - libc / kernel calls are oracles: getenv, getpwuid_r, gethostname, getcwd
     (including its ERANGE answer and the unspecified bytes [junk] it may leave
     in the buffer), readlink, getsockname, if_indextoname, pthread_getname_np,
     snprintf("%s").
   No proofs here. *)
From UV Require Import Lib.Base.

Definition NUL : N := 0%N.
Definition SLASH : N := 47%N.

Definition UV_OK : Z := 0%Z.
Definition UV_ENOBUFS : Z := (-105)%Z.
Definition UV_ERANGE : Z := (-34)%Z.
Definition UV_EINVAL : Z := (-22)%Z.
Definition UV_E2BIG : Z := (-7)%Z.

Definition result : Type := (Z * nat * list N)%type.
Definition r_code (r : result) : Z := fst (fst r).
Definition r_size (r : result) : nat := snd (fst r).
Definition r_buf (r : result) : list N := snd r.

(* ---- memory primitives ------------------------------------------------ *)

(* store the bytes [bs] at offset [off] *)
Fixpoint write (off : nat) (bs : list N) (buf : list N) : list N :=
  match buf with
  | [] => []
  | b :: rest =>
      match off with
      | S o => b :: write o bs rest
      | O => match bs with
             | [] => buf
             | x :: xs => x :: write O xs rest
             end
      end
  end.

Definition poke (i : nat) (c : N) (buf : list N) : list N := write i [c] buf.
Definition peek (i : nat) (buf : list N) : N := nth i buf NUL.

(* strlen: index of the first NUL (the list's length when there is none) *)
Fixpoint strlen (s : list N) : nat :=
  match s with
  | [] => O
  | c :: r => if N.eqb c NUL then O else S (strlen r)
  end.

Definition strnlen (s : list N) (n : nat) : nat := strlen (firstn n s).

Definition cstr (v : list N) : list N := v ++ [NUL].

(* memcpy(dst, src, n) *)
Definition memcpy (dst src : list N) (n : nat) : list N := write O (firstn n src) dst.

(* strncpy(dst, src, n): the characters of src up to its NUL, then NUL padding,
   exactly n bytes in total *)
Definition strncpy (dst src : list N) (n : nat) : list N :=
  write O (firstn n (firstn (strlen src) src ++ repeat NUL n)) dst.

(* snprintf(dst, n, "%s", s) / snprintf(dst, n, "Unknown system error %d", e)
   where [s] is the complete formatted text: min(len, n-1) characters and a
   terminator; nothing at all for n = 0 *)
Definition snprintf_s (dst : list N) (n : nat) (s : list N) : list N :=
  match n with
  | O => dst
  | S m => let k := Nat.min (strlen s) m in poke k NUL (write O (firstn k s) dst)
  end.

(* ---- src/strscpy.c:25-39 -------------------------------------------------
   for (i = 0; i < n; i++) if ('\0' == (d[i] = s[i])) return i;
   if (i == 0) return 0;  d[--i] = '\0';  return UV_E2BIG;
   [left] = n - i iterations remain; [s] is the source from index i on. *)
Fixpoint strscpy_loop (d s : list N) (left i : nat) : list N * Z :=
  match left with
  | O => if Nat.eqb i O then (d, 0%Z) else (poke (i - 1) NUL d, UV_E2BIG)
  | S left' =>
      let c := hd NUL s in
      let d1 := poke i c d in
      if N.eqb c NUL then (d1, Z.of_nat i)
      else strscpy_loop d1 (tl s) left' (S i)
  end.

Definition uv__strscpy (d s : list N) (n : nat) : list N * Z := strscpy_loop d s n O.

(* ---- src/unix/core.c:1487-1509 uv_os_getenv ---------------------------- *)
Definition uv_os_getenv (value : list N) (cap : nat) (buf : list N) : result :=
  let var := cstr value in                     (* var = getenv(name), not NULL *)
  let len := strlen var in
  if cap <=? len                               (* if (len >= *size) *)
  then (UV_ENOBUFS, len + 1, buf)
  else (UV_OK, len, memcpy buf var (len + 1)).

(* ---- src/unix/core.c:1172-1204 uv_os_homedir ---------------------------
   [home] = getenv("HOME") (None: unset -> the passwd entry [pw] is used) *)
Definition uv_os_homedir (home : option (list N)) (pw : list N)
                         (cap : nat) (buf : list N) : result :=
  match home with
  | Some v => uv_os_getenv v cap buf           (* r != UV_ENOENT: return r *)
  | None =>
      let s := cstr pw in
      let len := strlen s in
      if cap <=? len
      then (UV_ENOBUFS, len + 1, buf)
      else (UV_OK, len, memcpy buf s (len + 1))
  end.

(* ---- src/unix/core.c:1207-1257 uv_os_tmpdir ---------------------------- *)
Fixpoint first_set (l : list (option (list N))) (dflt : list N) : list N :=
  match l with
  | [] => dflt
  | Some v :: _ => v
  | None :: r => first_set r dflt
  end.

Definition tmp_default : list N := [47; 116; 109; 112]%N.      (* "/tmp" *)

Definition uv_os_tmpdir_val (value : list N) (cap : nat) (buf : list N) : result :=
  let s := cstr value in
  let len := strlen s in
  if cap <=? len                               (* test BEFORE the trim *)
  then (UV_ENOBUFS, len + 1, buf)
  else
    let len' := if (1 <? len) && N.eqb (peek (len - 1) s) SLASH then len - 1 else len in
    let b1 := memcpy buf s (len' + 1) in
    let b2 := poke len' NUL b1 in
    (UV_OK, len', b2).

(* [envs] = getenv of TMPDIR, TMP, TEMP, TEMPDIR in that order *)
Definition uv_os_tmpdir (envs : list (option (list N))) (cap : nat) (buf : list N) : result :=
  uv_os_tmpdir_val (first_set envs tmp_default) cap buf.

(* ---- src/unix/core.c:1535-1563 uv_os_gethostname -----------------------
   char buf[UV_MAXHOSTNAMESIZE]; gethostname(buf, sizeof(buf));
   buf[sizeof(buf) - 1] = 0;  UV_MAXHOSTNAMESIZE = MAXHOSTNAMELEN + 1 = 65 on
   Linux.  [value] is the name the kernel holds; a libc that truncates without
   terminating is covered by the forced terminator. *)
Definition hostname_max : nat := 64.             (* sizeof(buf) - 1 *)

Definition uv_os_gethostname (value : list N) (cap : nat) (buf : list N) : result :=
  let hb := firstn hostname_max value ++ [NUL] in
  let len := strlen hb in
  if cap <=? len
  then (UV_ENOBUFS, len + 1, buf)
  else (UV_OK, len, memcpy buf hb (len + 1)).

(* ---- src/unix/core.c:753-789 uv_cwd ------------------------------------
   getcwd(mem, n): succeeds iff strlen(cwd) + 1 <= n; may leave arbitrary bytes
   [junk] in mem[0..n) (glibc's fallback for long paths assembles the path from
   the end of the buffer; after a failure the contents are unspecified). *)
Definition getcwd (value junk : list N) (n : nat) (mem : list N) : bool * list N :=
  let m1 := write O (firstn n junk) mem in
  if length value <? n then (true, write O (cstr value) m1) else (false, m1).

Definition cwd_fixup (b : list N) : nat * list N :=
  let size := strlen b in                      (* *size = strlen(buffer) *)
  if (1 <? size) && N.eqb (peek (size - 1) b) SLASH
  then (size - 1, poke (size - 1) NUL b)
  else (size, b).

(* [pmax] = UV__PATH_MAX; scratch has 1 + pmax bytes *)
Definition uv_cwd_p (pmax : nat) (value junk : list N) (cap : nat) (buf : list N) : result :=
  let '(ok, b1) := getcwd value junk cap buf in
  if ok then
    let '(size, b2) := cwd_fixup b1 in (UV_OK, size, b2)
  else                                         (* errno == ERANGE *)
    let '(ok2, scratch) := getcwd value junk (S pmax) (repeat NUL (S pmax)) in
    if ok2 then
      let '(size, _) := cwd_fixup scratch in (UV_ENOBUFS, size + 1, b1)
    else (UV_ERANGE, cap, b1).                 (* return UV__ERR(errno), *size untouched *)

Definition path_max : nat := 4096.
Definition uv_cwd := uv_cwd_p path_max.

(* ---- src/uv-common.c:663-683 uv_fs_event_getpath,
        src/fs-poll.c:138-164 uv_fs_poll_getpath (same statements) ---------- *)
Definition uv_fs_event_getpath (active : bool) (value : list N)
                               (cap : nat) (buf : list N) : result :=
  if negb active then (UV_EINVAL, O, buf)      (* *size = 0 *)
  else
    let s := cstr value in
    let len := strlen s in
    if cap <=? len
    then (UV_ENOBUFS, len + 1, buf)
    else (UV_OK, len, poke len NUL (memcpy buf s len)).

Definition uv_fs_poll_getpath (active : bool) (value : list N)
                              (cap : nat) (buf : list N) : result :=
  if negb active then (UV_EINVAL, O, buf)
  else
    let s := cstr value in
    let len := strlen s in
    if cap <=? len
    then (UV_ENOBUFS, len + 1, buf)
    else (UV_OK, len, poke len NUL (memcpy buf s len)).

(* ---- src/unix/getaddrinfo.c:222-247 uv_if_indextoname ------------------
   char ifname_buf[17]; len = strnlen(ifname_buf, 17); if ( *size <= len ) *)
Definition uv_if_indextoname (value : list N) (cap : nat) (buf : list N) : result :=
  let ifbuf := firstn 17 (cstr value) in
  let len := strnlen ifbuf 17 in
  if cap <=? len
  then (UV_ENOBUFS, len + 1, buf)
  else (UV_OK, len, poke len NUL (memcpy buf ifbuf len)).

(* ---- src/unix/pipe.c:348-401 uv__pipe_getsockpeername ------------------
   [value] = the bytes of sun_path the kernel reports (addrlen - 2 of them:
   for an abstract name exactly the name, leading NUL included; for a path
   socket the path).  sa was memset to 0. *)
Definition sun_path_len : nat := 108.

Definition uv_pipe_getname (value : list N) (cap : nat) (buf : list N) : result :=
  let sun := firstn sun_path_len (value ++ repeat NUL sun_path_len) in
  let abstract := N.eqb (peek O sun) NUL in
  let slop := if abstract then O else 1 in
  let alen := if abstract then length value    (* addrlen -= offsetof(sun_path) *)
              else strnlen sun sun_path_len in (* memchr(sun_path, 0, 108) *)
  if cap <? alen + slop                        (* if (addrlen + slop > *size) *)
  then (UV_ENOBUFS, alen + slop, buf)
  else
    let b1 := memcpy buf sun alen in
    let b2 := if negb (N.eqb (peek O b1) NUL) then poke alen NUL b1 else b1 in
    (UV_OK, alen, b2).

(* ---- src/unix/procfs-exepath.c:28-46 uv_exepath ------------------------
   readlink(path, mem, n) stores min(len, n) bytes, no terminator *)
Definition readlink (value : list N) (n : nat) (mem : list N) : nat * list N :=
  let k := Nat.min (length value) n in (k, write O (firstn k value) mem).

Definition uv_exepath (value : list N) (cap : nat) (buf : list N) : result :=
  let n := cap - 1 in
  let '(n', b1) := if 0 <? n then readlink value n buf else (n, buf) in
  (UV_OK, n', poke n' NUL b1).

(* ---- src/unix/proctitle.c:128-152 uv_get_process_title -----------------
   [value] = process_title.str, process_title.len = its length *)
Definition uv_get_process_title (value : list N) (cap : nat) (buf : list N) : result :=
  let s := cstr value in
  let len := strlen s in
  if cap <=? len                               (* if (size <= process_title.len) *)
  then (UV_ENOBUFS, cap, buf)
  else
    let b1 := if negb (Nat.eqb len O) then memcpy buf s (len + 1) else buf in
    (UV_OK, cap, poke len NUL b1).

(* ---- src/unix/thread.c:309-313, 964-975 uv_thread_getname ---------------
   strncpy(name, thread_name, size - 1); name[size - 1] = '\0'; *)
Definition uv_thread_getname (value : list N) (cap : nat) (buf : list N) : result :=
  let thread_name := cstr value in
  let b1 := strncpy buf thread_name (cap - 1) in
  (UV_OK, cap, poke (cap - 1) NUL b1).

(* ---- src/uv-common.c:208-218 uv_err_name_r, 231-241 uv_strerror_r -------
   [known]: err is in UV_ERRNO_MAP (uv__strscpy of the name), otherwise
   snprintf of "Unknown system error %d" ([value] is that text). *)
Definition uv_err_name_r (known : bool) (value : list N) (cap : nat) (buf : list N) : result :=
  if known then (UV_OK, cap, fst (uv__strscpy buf (cstr value) cap))
  else (UV_OK, cap, snprintf_s buf cap (cstr value)).

Definition uv_strerror_r (value : list N) (cap : nat) (buf : list N) : result :=
  (UV_OK, cap, snprintf_s buf cap (cstr value)).
