(* Model of the inotify part of src/unix/linux.c: uv_fs_event_start/stop/close,
   uv__inotify_read, find_watcher, maybe_free_watcher_list (linux.c 2456-2727),
   statement by statement.  loop->inotify_watchers (a red-black tree keyed by
   wd) is an association list; a watcher_list's circular queue [watchers] is a
   list of handle identities, and the local queue that uv__inotify_read moves
   it to while iterating is kept next to it ([w_local]) because
   uv__queue_remove in uv_fs_event_stop unlinks a handle from whichever of the
   two it is in.

   Oracles: the watch descriptor inotify_add_watch returns (or its error), the
   events read from the inotify descriptor (wd, mask, name), what the user's
   callbacks do (the k-th callback executes [beh k]). *)
From UV Require Import Lib.Base.

Local Open Scope Z_scope.

Definition IN_MODIFY : Z := 2.
Definition IN_ATTRIB : Z := 4.
Definition UV_RENAME : Z := 1.
Definition UV_CHANGE : Z := 2.
Definition UV_EINVAL_I : Z := -22.

(* uv_fs_event_t *)
Record ehandle := mkE { e_active : bool; e_closing : bool; e_closed : bool; e_wd : Z; e_cb : nat }.

(* struct watcher_list *)
Record wlist := mkW {
  w_wd : Z;
  w_base : nat;            (* uv__basename_r(w->path), as a name token *)
  w_hs : list nat;         (* w->watchers *)
  w_local : list nat;      (* the detached queue of the iteration in progress *)
  w_iter : bool            (* w->iterating *)
}.

Record ist := mkI {
  ehs : list ehandle;
  wls : list wlist;              (* loop->inotify_watchers *)
  eclosing : list nat            (* loop->closing_handles (fs_event handles), head first *)
}.

Definition iinit : ist := mkI [] [] [].

Definition dflt_e : ehandle := mkE false false true (-1) 0.
Definition gete (s : ist) (h : nat) : ehandle := nth h (ehs s) dflt_e.
Definition set_ehs (s : ist) (l : list ehandle) : ist := mkI l (wls s) (eclosing s).
Definition set_wls (s : ist) (l : list wlist) : ist := mkI (ehs s) l (eclosing s).
Definition set_eclosing (s : ist) (l : list nat) : ist := mkI (ehs s) (wls s) l.
Definition upd_e (s : ist) (h : nat) (f : ehandle -> ehandle) : ist := set_ehs s (upd h f (ehs s)).

(* find_watcher *)
Fixpoint find_w (l : list wlist) (wd : Z) : option wlist :=
  match l with
  | [] => None
  | w :: l' => if w_wd w =? wd then Some w else find_w l' wd
  end.

(* replace the list with descriptor wd *)
Fixpoint upd_w (l : list wlist) (wd : Z) (f : wlist -> wlist) : list wlist :=
  match l with
  | [] => []
  | w :: l' => if w_wd w =? wd then f w :: l' else w :: upd_w l' wd f
  end.

(* RB_REMOVE *)
Fixpoint del_w (l : list wlist) (wd : Z) : list wlist :=
  match l with
  | [] => []
  | w :: l' => if w_wd w =? wd then l' else w :: del_w l' wd
  end.

Definition rm_nat (h : nat) (l : list nat) : list nat := filter (fun j => negb (Nat.eqb h j)) l.

Inductive iop :=
| IInit
| IStart (h cb base : nat) (wd : Z)     (* wd: what inotify_add_watch returns; negative = UV error *)
| IStop (h : nat)
| IClose (h : nat)
| IDispatch (evs : list (Z * Z * option nat))    (* one loop iteration reading these events *)
| IObs                                          (* uv_is_active, uv_fs_event_getpath of every handle *)
| IFork (wds : list Z)     (* fork(); what follows, up to IChildEnd, runs in the child, which first calls
                              uv_loop_fork(); wds: what inotify_add_watch answers on the child's new inotify
                              descriptor, one per handle restarted *)
| IChildEnd.               (* the child exits; what follows runs in the parent, from its state at the fork *)

Inductive ievent :=
| IRet (code : Z)
| ICb (h cb name : nat) (events : Z) (g_active : bool)
     (* the user callback: handle, callback, file name, event bits; ghost: is the handle active now *)
| IRm (wd : Z)                           (* inotify_rm_watch + uv__free(w) *)
| IClosed (h : nat)
| IObsE (l : list (bool * option nat))   (* per handle: active, base name of the path uv_fs_event_getpath gives *)
| IChildExit.

(* maybe_free_watcher_list *)
Definition maybe_free (s : ist) (wd : Z) : ist * list ievent :=
  match find_w (wls s) wd with
  | Some w =>
      if negb (w_iter w) && match w_hs w with [] => true | _ => false end
      then (set_wls s (del_w (wls s) wd), [IRm wd])
      else (s, [])
  | None => (s, [])
  end.

(* uv_fs_event_start *)
Definition ev_start (s : ist) (h cb base : nat) (wd : Z) : ist * Z :=
  if e_active (gete s h) then (s, UV_EINVAL_I) else
  if wd <? 0 then (s, wd) else
  let s1 := match find_w (wls s) wd with
            | Some _ => s
            | None => set_wls s (wls s ++ [mkW wd base [] [] false])
            end in
  let s2 := set_wls s1 (upd_w (wls s1) wd
                          (fun w => mkW (w_wd w) (w_base w) (w_hs w ++ [h]) (w_local w) (w_iter w))) in
  (upd_e s2 h (fun e => mkE true (e_closing e) (e_closed e) wd cb), 0).

(* uv_fs_event_stop *)
Definition ev_stop (s : ist) (h : nat) : ist * list ievent :=
  let e := gete s h in
  if negb (e_active e) then (s, []) else
  let wd := e_wd e in
  let s1 := upd_e s h (fun e => mkE false (e_closing e) (e_closed e) (-1) (e_cb e)) in
  let s2 := set_wls s1 (upd_w (wls s1) wd
                          (fun w => mkW (w_wd w) (w_base w) (rm_nat h (w_hs w)) (rm_nat h (w_local w))
                                        (w_iter w))) in
  maybe_free s2 wd.

(* uv_close: uv__fs_event_close = stop; then uv__make_close_pending *)
Definition ev_close (s : ist) (h : nat) : ist * list ievent :=
  let s0 := upd_e s h (fun e => mkE (e_active e) true (e_closed e) (e_wd e) (e_cb e)) in
  let '(s1, ev) := ev_stop s0 h in
  (set_eclosing s1 (h :: eclosing s1), ev).

Definition ivalid (s : ist) (h : nat) : bool := Nat.ltb h (length (ehs s)).

Definition iapi (s : ist) (o : iop) : ist * list ievent :=
  match o with
  | IInit => (set_ehs s (ehs s ++ [mkE false false false (-1) 0]), [])
  | IStart h cb base wd =>
      if ivalid s h && negb (e_closing (gete s h))
      then let '(s', r) := ev_start s h cb base wd in (s', [IRet r]) else (s, [])
  | IStop h =>
      if ivalid s h && negb (e_closed (gete s h))
      then let '(s', ev) := ev_stop s h in (s', ev ++ [IRet 0]) else (s, [])
  | IClose h =>
      if ivalid s h && negb (e_closing (gete s h)) then ev_close s h else (s, [])
  | IObs =>
      (s, [IObsE (map (fun e => (e_active e,
                                if e_active e then option_map w_base (find_w (wls s) (e_wd e)) else None))
                      (ehs s))])
  | _ => (s, [])
  end.

Fixpoint iapis (s : ist) (os : list iop) : ist * list ievent :=
  match os with
  | [] => (s, [])
  | o :: os' => let '(s1, e1) := iapi s o in
                let '(s2, e2) := iapis s1 os' in (s2, e1 ++ e2)
  end.

(* the event bits of uv__inotify_read (linux.c 2607-2612, since 5f75e89: IN_ISDIR only
   qualifies the event, it is not a reason for UV_RENAME) *)
Definition IN_ISDIR : Z := 1073741824.
Definition ev_bits (mask : Z) : Z :=
  (if Z.land mask (Z.lor IN_ATTRIB IN_MODIFY) =? 0 then 0 else UV_CHANGE) +
  (if Z.land mask (Z.lnot (Z.lor (Z.lor IN_ATTRIB IN_MODIFY) IN_ISDIR)) =? 0 then 0 else UV_RENAME).

(* history: the mapping before 5f75e89 *)
Definition ev_bits_old (mask : Z) : Z :=
  (if Z.land mask (Z.lor IN_ATTRIB IN_MODIFY) =? 0 then 0 else UV_CHANGE) +
  (if Z.land mask (Z.lnot (Z.lor IN_ATTRIB IN_MODIFY)) =? 0 then 0 else UV_RENAME).

(* the while loop over the detached queue *)
Fixpoint dispatch_loop (fuel : nat) (s : ist) (wd : Z) (name : nat) (bits : Z)
         (beh : nat -> list iop) (cnt : nat) : ist * list ievent * nat :=
  match fuel with
  | O => (s, [], cnt)
  | S f =>
      match find_w (wls s) wd with
      | None => (s, [], cnt)
      | Some w =>
          match w_local w with
          | [] => (s, [], cnt)
          | h :: rest =>
              (* uv__queue_remove(q); uv__queue_insert_tail(&w->watchers, q); h->cb(...) *)
              let s1 := set_wls s (upd_w (wls s) wd
                          (fun w => mkW (w_wd w) (w_base w) (w_hs w ++ [h]) rest (w_iter w))) in
              let '(s2, e2) := iapis s1 (beh cnt) in
              let '(s3, e3, n3) := dispatch_loop f s2 wd name bits beh (S cnt) in
              (s3, ICb h (e_cb (gete s1 h)) name bits (e_active (gete s1 h)) :: e2 ++ e3, n3)
          end
      end
  end.

(* one inotify_event *)
Definition dispatch_one (s : ist) (e : Z * Z * option nat) (beh : nat -> list iop) (cnt : nat)
  : ist * list ievent * nat :=
  let '(wd, mask, nm) := e in
  match find_w (wls s) wd with
  | None => (s, [], cnt)                                    (* stale event *)
  | Some w =>
      let name := match nm with Some n => n | None => w_base w end in
      (* w->iterating = 1; uv__queue_move(&w->watchers, &queue) *)
      let s1 := set_wls s (upd_w (wls s) wd
                  (fun w => mkW (w_wd w) (w_base w) [] (w_hs w) true)) in
      let '(s2, e2, n2) := dispatch_loop (length (w_hs w)) s1 wd name (ev_bits mask) beh cnt in
      (* w->iterating = 0; maybe_free_watcher_list(w, loop) *)
      let s3 := set_wls s2 (upd_w (wls s2) wd
                  (fun w => mkW (w_wd w) (w_base w) (w_hs w) (w_local w) false)) in
      let '(s4, e4) := maybe_free s3 wd in
      (s4, e2 ++ e4, n2)
  end.

Fixpoint dispatch (s : ist) (evs : list (Z * Z * option nat)) (beh : nat -> list iop) (cnt : nat)
  : ist * list ievent * nat :=
  match evs with
  | [] => (s, [], cnt)
  | e :: evs' =>
      let '(s1, e1, n1) := dispatch_one s e beh cnt in
      let '(s2, e2, n2) := dispatch s1 evs' beh n1 in
      (s2, e1 ++ e2, n2)
  end.

(* uv__run_closing_handles for the fs_event handles *)
Definition run_eclosing (s : ist) : ist * list ievent :=
  (set_eclosing
     (fold_left (fun s h => upd_e s h (fun e => mkE (e_active e) (e_closing e) true (e_wd e) (e_cb e)))
                (eclosing s) s) [],
   map IClosed (eclosing s)).

(* uv__inotify_fork, linux.c 2489-2548 (after uv__io_fork has closed the inherited inotify descriptor):
   for every watcher list, in wd order (RB_FOREACH), with [iterating] set: every handle is stopped and
   remembered together with a copy of the list's path; the list is freed; then every remembered handle
   is started again with that path (on the new inotify descriptor that the first start opens). *)
Fixpoint insert_w (w : wlist) (l : list wlist) : list wlist :=
  match l with
  | [] => [w]
  | x :: l' => if w_wd w <? w_wd x then w :: l else x :: insert_w w l'
  end.
Definition sort_w (l : list wlist) : list wlist := fold_right insert_w [] l.

Definition set_iter (s : ist) (wd : Z) (b : bool) : ist :=
  set_wls s (upd_w (wls s) wd (fun w => mkW (w_wd w) (w_base w) (w_hs w) (w_local w) b)).

Definition stop_all (s : ist) (hl : list nat) : ist * list ievent :=
  fold_left (fun acc h => let '(s0, e0) := acc in let '(s1, e1) := ev_stop s0 h in (s1, e0 ++ e1)) hl (s, []).

Definition fork_list (acc : ist * list ievent) (w : wlist) : ist * list ievent :=
  let '(s, e) := acc in
  let '(s1, e1) := stop_all (set_iter s (w_wd w) true) (w_hs w) in
  let '(s2, e2) := maybe_free (set_iter s1 (w_wd w) false) (w_wd w) in
  (s2, e ++ e1 ++ e2).

Fixpoint restart (tmp : list (nat * nat)) (wds : list Z) (s : ist) : ist * Z :=
  match tmp with
  | [] => (s, 0)
  | (h, b) :: t =>
      let wd := match wds with w :: _ => w | [] => -9 end in
      let '(s', r) := ev_start s h (e_cb (gete s h)) b wd in
      if r =? 0 then restart t (tl wds) s' else (s', r)
  end.

Definition fork_tmp (s : ist) : list (nat * nat) :=
  flat_map (fun w => map (fun h => (h, w_base w)) (w_hs w)) (sort_w (wls s)).

Definition inotify_fork (s : ist) (wds : list Z) : ist * list ievent :=
  let '(s1, e1) := fold_left fork_list (sort_w (wls s)) (s, []) in
  let '(s2, r) := restart (fork_tmp s) wds s1 in
  (s2, e1 ++ [IRet r]).

Definition child_cb_offset : nat := 1000.

(* [par]: inside a child, the parent's state and callback count at the fork *)
Fixpoint irun_p (par : option (ist * nat)) (s : ist) (os : list iop) (beh : nat -> list iop) (cnt : nat)
  : ist * list ievent :=
  match os with
  | [] => (s, [])
  | IDispatch evs :: os' =>
      let '(s1, e1, n1) := dispatch s evs beh cnt in
      let '(s2, e2) := run_eclosing s1 in
      let '(s3, e3) := irun_p par s2 os' beh n1 in
      (s3, e1 ++ e2 ++ e3)
  | IFork wds :: os' =>
      match par with
      | None =>
          let '(sc, ec) := inotify_fork s wds in
          (* the child's callbacks are numbered from the fork point on, in their own range *)
          let '(s3, e3) := irun_p (Some (s, cnt)) sc os' beh (cnt + child_cb_offset) in
          (s3, ec ++ e3)
      | Some _ => irun_p par s os' beh cnt              (* no fork inside the child *)
      end
  | IChildEnd :: os' =>
      match par with
      | Some (sp, np) => let '(s3, e3) := irun_p None sp os' beh np in (s3, IChildExit :: e3)
      | None => irun_p par s os' beh cnt
      end
  | o :: os' =>
      let '(s1, e1) := iapi s o in
      let '(s2, e2) := irun_p par s1 os' beh cnt in (s2, e1 ++ e2)
  end.

Definition irun (s : ist) (os : list iop) (beh : nat -> list iop) (cnt : nat) : ist * list ievent :=
  irun_p None s os beh cnt.
