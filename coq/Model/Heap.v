(* Model of src/heap-inl.h.  The C code is a pointer-linked complete binary
   tree; insertion/removal navigate from the root along the bits of the node
   count.  Here: a functional tree, the same path computation, the same
   "smallest of node/left/right" choice when sifting down, and the sift-up
   that follows it in heap_remove.  Elements carry an identity (the C node's
   address); the order [lt] is the caller's less_than. *)
From UV Require Import Lib.Base.

Section Heap.
Context {elt : Type}.
Variable lt : elt -> elt -> bool.      (* less_than(a, b) != 0 *)
Variable ident : elt -> nat.           (* node identity *)

Inductive tree := Leaf | Node (l : tree) (x : elt) (r : tree).

Record heap := mkHeap { h_tree : tree; h_n : N }.

Definition heap_init : heap := mkHeap Leaf 0.

Definition root (t : tree) : option elt :=
  match t with Leaf => None | Node _ x _ => Some x end.

Definition heap_min (h : heap) : option elt := root (h_tree h).

(* path = 0; for (k = 0, n = N; n >= 2; k++, n /= 2) path = (path<<1)|(n&1);
   then consumed from the low bit: the bits of N below its top bit, most
   significant first; 1 = right, 0 = left. *)
Fixpoint path_of_pos (p : positive) : list bool :=
  match p with
  | xH => []
  | xO q => path_of_pos q ++ [false]
  | xI q => path_of_pos q ++ [true]
  end.

Definition path_of (n : N) : list bool :=
  match n with N0 => [] | Npos p => path_of_pos p end.

(* while (parent != NULL && less_than(child, parent)) heap_node_swap(...)
   seen from the parent on the way back up the path. *)
Definition fix_l (l' : tree) (y : elt) (r : tree) : tree :=
  match l' with
  | Node ll z lr => if lt z y then Node (Node ll y lr) z r else Node l' y r
  | Leaf => Node l' y r
  end.

Definition fix_r (l : tree) (y : elt) (r' : tree) : tree :=
  match r' with
  | Node rl z rr => if lt z y then Node l z (Node rl y rr) else Node l y r'
  | Leaf => Node l y r'
  end.

(* Put [c] at the root of [t] (dropping the old root, if any) and walk it
   down: smallest = c; if left < smallest then left; if right < smallest
   then right; swap with smallest until it is c itself. *)
Fixpoint sift (t : tree) (c : elt) : tree :=
  match t with
  | Leaf => Node Leaf c Leaf
  | Node l _ r =>
      let s1 := match root l with
                | Some lx => if lt lx c then Some lx else None
                | None => None end in
      let sm := match s1 with Some lx => lx | None => c end in
      match root r with
      | Some rx =>
          if lt rx sm then Node l rx (sift r c)
          else match s1 with
               | Some lx => Node (sift l c) lx r
               | None => Node l c r
               end
      | None =>
          match s1 with
          | Some lx => Node (sift l c) lx r
          | None => Node l c r
          end
      end
  end.

(* Place [c] at the position reached by [p]: at the end of the path the node
   found there (or the empty slot) receives c and c is sifted down; on the
   way back each parent is compared with the root of the subtree below it
   (the sift-up loop). *)
Fixpoint place (p : list bool) (t : tree) (c : elt) : tree :=
  match p, t with
  | [], _ => sift t c
  | b :: p', Node l y r =>
      if b then fix_r l y (place p' r c) else fix_l (place p' l c) y r
  | _ :: _, Leaf => Node Leaf c Leaf      (* not reached on a complete tree *)
  end.

Definition heap_insert (h : heap) (x : elt) : heap :=
  mkHeap (place (path_of (h_n h + 1)) (h_tree h) x) (h_n h + 1).

(* Unlink the node at the end of the path ("max", the last node). *)
Fixpoint unlink (p : list bool) (t : tree) : tree * option elt :=
  match p, t with
  | _, Leaf => (Leaf, None)
  | [], Node _ x _ => (Leaf, Some x)
  | b :: p', Node l y r =>
      if b then let '(r', o) := unlink p' r in (Node l y r', o)
      else let '(l', o) := unlink p' l in (Node l' y r, o)
  end.

(* The C code holds a pointer to the node; the model searches for its
   identity. *)
Fixpoint find_path (t : tree) (i : nat) : option (list bool) :=
  match t with
  | Leaf => None
  | Node l x r =>
      if Nat.eqb (ident x) i then Some []
      else match find_path l i with
           | Some p => Some (false :: p)
           | None => match find_path r i with
                     | Some p => Some (true :: p)
                     | None => None
                     end
           end
  end.

Definition heap_remove (h : heap) (i : nat) : heap :=
  match h_n h with
  | N0 => h
  | _ =>
      let '(t1, o) := unlink (path_of (h_n h)) (h_tree h) in
      let n1 := N.pred (h_n h) in
      match o with
      | None => mkHeap t1 n1
      | Some c =>
          if Nat.eqb (ident c) i then mkHeap t1 n1
          else match find_path t1 i with
               | Some p => mkHeap (place p t1 c) n1
               | None => mkHeap t1 n1       (* precondition: i is in the heap *)
               end
      end
  end.

Definition heap_dequeue (h : heap) : heap :=
  match heap_min h with
  | Some x => heap_remove h (ident x)
  | None => h
  end.

(* Observations used by the correspondence check and the proofs. *)
Fixpoint elements (t : tree) : list elt :=
  match t with
  | Leaf => []
  | Node l x r => x :: elements l ++ elements r
  end.

Fixpoint lookup (p : list bool) (t : tree) : option elt :=
  match p, t with
  | _, Leaf => None
  | [], Node _ x _ => Some x
  | b :: p', Node l _ r => if b then lookup p' r else lookup p' l
  end.

(* level-order dump: element at heap position k = 1..n *)
Fixpoint dump_from (k : positive) (cnt : nat) (t : tree) : list (option elt) :=
  match cnt with
  | O => []
  | S c => lookup (path_of_pos k) t :: dump_from (Pos.succ k) c t
  end.

Definition dump (h : heap) : list (option elt) :=
  dump_from 1%positive (N.to_nat (h_n h)) (h_tree h).

End Heap.

Arguments tree : clear implicits.
Arguments heap : clear implicits.
Arguments Leaf {elt}.
