(* Model of src/fs-poll.c (uv_fs_poll_start/stop/close, timer_cb, poll_cb,
   timer_close_cb, statbuf_eq) together with the three loop phases it lives in
   (thread-pool completions delivered in the poll phase, the closing-handles
   phase, the timer pass) -- written statement by statement from the C source.

   Oracles: the result of every stat (status, statbuf) is an input; when a
   stat completes is an input (the script releases the thread pool);
   allocation failure in uv_fs_poll_start is an input; what the user's
   callbacks do is an input (the k-th user callback of a run executes
   [beh k]).

   [fx] selects the variant: [true] = the code as it is (since 834ed95 poll_cb
   also tests that its context is still the handle's current context),
   [false] = history, the code before 834ed95. *)
From UV Require Import Lib.Base.

Local Open Scope Z_scope.

(* uv_stat_t: the 14 fields statbuf_eq compares, and the rest (st_nlink,
   st_rdev, st_blksize, st_blocks, st_atim) as one value *)
Record statbuf := mkSb {
  sb_ctim_ns : Z; sb_mtim_ns : Z; sb_btim_ns : Z;
  sb_ctim_s : Z; sb_mtim_s : Z; sb_btim_s : Z;
  sb_size : Z; sb_mode : Z; sb_uid : Z; sb_gid : Z;
  sb_ino : Z; sb_dev : Z; sb_flags : Z; sb_gen : Z;
  sb_rest : Z }.

Definition zero_sb : statbuf := mkSb 0 0 0 0 0 0 0 0 0 0 0 0 0 0 0.

(* statbuf_eq, fs-poll.c:261-276 *)
Definition statbuf_eq (a b : statbuf) : bool :=
  (sb_ctim_ns a =? sb_ctim_ns b) && (sb_mtim_ns a =? sb_mtim_ns b) &&
  (sb_btim_ns a =? sb_btim_ns b) && (sb_ctim_s a =? sb_ctim_s b) &&
  (sb_mtim_s a =? sb_mtim_s b) && (sb_btim_s a =? sb_btim_s b) &&
  (sb_size a =? sb_size b) && (sb_mode a =? sb_mode b) &&
  (sb_uid a =? sb_uid b) && (sb_gid a =? sb_gid b) &&
  (sb_ino a =? sb_ino b) && (sb_dev a =? sb_dev b) &&
  (sb_flags a =? sb_flags b) && (sb_gen a =? sb_gen b).

(* a stat answer: req->result (0 or a negative error) and req->statbuf *)
Definition sres : Type := (Z * statbuf)%type.

(* state of ctx->timer_handle *)
(* TReady: taken off the heap into the ready queue of the uv__run_timers pass that is running
   (inactive, its callback will run later in this pass) *)
Inductive tst := TIdle | TArmed (due seq : Z) | TReady | TClosing | TClosed.

Definition timer_active (t : tst) : bool :=
  match t with TArmed _ _ => true | _ => false end.

(* struct poll_ctx *)
Record ctx := mkCtx {
  c_parent : nat;        (* parent_handle *)
  c_busy : Z;            (* busy_polling: 0, 1 or the last error *)
  c_interval : Z;
  c_start : Z;           (* start_time *)
  c_cb : nat;            (* poll_cb (user callback token) *)
  c_path : nat;          (* path (token) *)
  c_sb : statbuf;        (* statbuf *)
  c_timer : tst;         (* timer_handle *)
  c_inflight : bool;     (* fs_req submitted, poll_cb not yet run *)
  c_freed : bool         (* uv__free(ctx) happened *)
}.

(* uv_fs_poll_t; [h_chain] is poll_ctx followed by the ->previous links *)
Record hnd := mkH {
  h_active : bool; h_closing : bool; h_closed : bool; h_chain : list nat }.

(* entries of loop->closing_handles *)
Inductive citem := CTimer (c : nat) | CHandle (h : nat).

Record st := mkSt {
  clock : Z;                       (* the (virtual) monotonic clock, ms *)
  now : Z;                         (* loop->time *)
  tctr : Z;                        (* loop->timer_counter *)
  hs : list hnd;                   (* fs_poll handles by identity *)
  cs : list ctx;                   (* contexts by allocation order *)
  inflight : list nat;             (* stats queued in the thread pool, FIFO *)
  done : list (nat * sres);        (* completed, waiting in loop->wq *)
  closingq : list citem;           (* loop->closing_handles, head first *)
  hq : list nat;                   (* contexts whose timer is linked in loop->handle_queue *)
  ut : list (nat * Z * Z)          (* the script's own one-shot timers that are armed: id, due, start_id *)
}.

Definition init (t0 : Z) : st := mkSt t0 t0 0 [] [] [] [] [] [] [].

Definition dflt_ctx : ctx := mkCtx 0 0 1 0 0 0 zero_sb TClosed false true.
Definition dflt_h : hnd := mkH false false true [].
Definition getc (s : st) (c : nat) : ctx := nth c (cs s) dflt_ctx.
Definition geth (s : st) (h : nat) : hnd := nth h (hs s) dflt_h.

Definition set_cs (s : st) (l : list ctx) : st :=
  mkSt (clock s) (now s) (tctr s) (hs s) l (inflight s) (done s) (closingq s) (hq s) (ut s).
Definition set_hs (s : st) (l : list hnd) : st :=
  mkSt (clock s) (now s) (tctr s) l (cs s) (inflight s) (done s) (closingq s) (hq s) (ut s).
Definition set_inflight (s : st) (l : list nat) : st :=
  mkSt (clock s) (now s) (tctr s) (hs s) (cs s) l (done s) (closingq s) (hq s) (ut s).
Definition set_done (s : st) (l : list (nat * sres)) : st :=
  mkSt (clock s) (now s) (tctr s) (hs s) (cs s) (inflight s) l (closingq s) (hq s) (ut s).
Definition set_closingq (s : st) (l : list citem) : st :=
  mkSt (clock s) (now s) (tctr s) (hs s) (cs s) (inflight s) (done s) l (hq s) (ut s).
Definition set_hq (s : st) (l : list nat) : st :=
  mkSt (clock s) (now s) (tctr s) (hs s) (cs s) (inflight s) (done s) (closingq s) l (ut s).
Definition set_tctr (s : st) (v : Z) : st :=
  mkSt (clock s) (now s) v (hs s) (cs s) (inflight s) (done s) (closingq s) (hq s) (ut s).
Definition set_now (s : st) (v : Z) : st :=
  mkSt (clock s) v (tctr s) (hs s) (cs s) (inflight s) (done s) (closingq s) (hq s) (ut s).
Definition set_ut (s : st) (l : list (nat * Z * Z)) : st :=
  mkSt (clock s) (now s) (tctr s) (hs s) (cs s) (inflight s) (done s) (closingq s) (hq s) l.
Definition set_clock (s : st) (v : Z) : st :=
  mkSt v (now s) (tctr s) (hs s) (cs s) (inflight s) (done s) (closingq s) (hq s) (ut s).

Definition upd_c (s : st) (c : nat) (f : ctx -> ctx) : st := set_cs s (upd c f (cs s)).
Definition upd_h (s : st) (h : nat) (f : hnd -> hnd) : st := set_hs s (upd h f (hs s)).

Definition c_set_timer (t : tst) (x : ctx) : ctx :=
  mkCtx (c_parent x) (c_busy x) (c_interval x) (c_start x) (c_cb x) (c_path x) (c_sb x)
        t (c_inflight x) (c_freed x).
Definition c_set_inflight (b : bool) (x : ctx) : ctx :=
  mkCtx (c_parent x) (c_busy x) (c_interval x) (c_start x) (c_cb x) (c_path x) (c_sb x)
        (c_timer x) b (c_freed x).
Definition c_set_busy (v : Z) (x : ctx) : ctx :=
  mkCtx (c_parent x) v (c_interval x) (c_start x) (c_cb x) (c_path x) (c_sb x)
        (c_timer x) (c_inflight x) (c_freed x).
Definition c_set_sb (sb : statbuf) (x : ctx) : ctx :=
  mkCtx (c_parent x) (c_busy x) (c_interval x) (c_start x) (c_cb x) (c_path x) sb
        (c_timer x) (c_inflight x) (c_freed x).
Definition c_set_start (v : Z) (x : ctx) : ctx :=
  mkCtx (c_parent x) (c_busy x) (c_interval x) v (c_cb x) (c_path x) (c_sb x)
        (c_timer x) (c_inflight x) (c_freed x).
Definition c_set_freed (x : ctx) : ctx :=
  mkCtx (c_parent x) (c_busy x) (c_interval x) (c_start x) (c_cb x) (c_path x) (c_sb x)
        TClosed (c_inflight x) true.

Definition h_set_active (b : bool) (x : hnd) : hnd :=
  mkH b (h_closing x) (h_closed x) (h_chain x).
Definition h_set_closing (x : hnd) : hnd := mkH (h_active x) true (h_closed x) (h_chain x).
Definition h_set_closed (x : hnd) : hnd := mkH (h_active x) (h_closing x) true (h_chain x).
Definition h_set_chain (l : list nat) (x : hnd) : hnd :=
  mkH (h_active x) (h_closing x) (h_closed x) l.

Definition remove_nat (c : nat) (l : list nat) : list nat :=
  filter (fun j => negb (Nat.eqb c j)) l.

Definition UV_ENOMEM : Z := -12.
Definition UV_EBUSY : Z := -16.

Inductive op :=
| OInit                                                   (* uv_fs_poll_init *)
| OStart (h cb path : nat) (interval : Z) (fail : nat)    (* fail: see do_start *)
| OStop (h : nat)
| OClose (h : nat)                                        (* uv_close *)
| OObs
| OWalk                          (* uv_walk: note every handle visited, then uv_close each one not closing *)
| ORelease (res : nat -> sres)   (* the pool runs every queued stat; res path = the answer *)
| OAdvance (d : Z)               (* the clock moves *)
| ORun                           (* one loop iteration (uv_run NOWAIT) *)
| OTimer (id : nat) (delay : Z)  (* the script starts a one-shot uv_timer of its own (top level only) *)
| ODrain (res : nat -> sres).    (* the script's timers are closed; run until the loop is not alive, then uv_loop_close *)

Inductive event :=
| ERet (code : Z)
| EPoll (h cb path : nat) (status : Z) (prev curr : statbuf)   (* user callback *)
| EClosed (h : nat) (g_live : nat)      (* close callback; ghost: contexts of h not freed at that moment *)
| EStat (path : nat)                                           (* a worker stats [path] *)
| EIter                                                        (* a loop iteration begins *)
| EUser (id : nat)                                             (* callback of the script's timer id *)
| EWalk (l : list nat)                                         (* the fs_poll handles uv_walk visited *)
| EObs (l : list (bool * bool * option nat))                   (* active, closing, getpath *)
| EFinal (rc : Z) (live : nat).                                (* uv_loop_close, contexts not freed *)

(* uv_close(&ctx->timer_handle, timer_close_cb): uv__timer_close + uv__make_close_pending *)
Definition close_timer (s : st) (c : nat) : st :=
  set_closingq (upd_c s c (c_set_timer TClosing)) (CTimer c :: closingq s).

Definition is_head (s : st) (h c : nat) : bool :=
  match h_chain (geth s h) with c0 :: _ => Nat.eqb c0 c | [] => false end.

(* uv_fs_poll_start, fs-poll.c:66-118.  [fail]: 0 = nothing fails, 1 = the context allocation
   fails, 2 = uv_fs_stat fails (the stat is submitted before uv_timer_init, so nothing refers to
   the context yet: it is freed and that is all), 3 = history, the code before 9bc8132: uv_fs_stat
   failed after uv_timer_init, the context was freed with its timer linked in loop->handle_queue *)
Definition do_start (s : st) (h cb path : nat) (interval : Z) (fail : nat) : st * Z :=
  if h_active (geth s h) then (s, 0) else
  let c := length (cs s) in
  let nc := mkCtx h 0 (if interval =? 0 then 1 else interval) (now s) cb path zero_sb
                  TIdle false false in
  match fail with
  | 1%nat => (s, UV_ENOMEM)
  | 2%nat => (set_cs s (cs s ++ [c_set_freed nc]), UV_ENOMEM)
  | 3%nat => (set_hq (set_cs s (cs s ++ [c_set_freed nc])) (hq s ++ [c]), UV_ENOMEM)
  | _ =>
      (* uv_fs_stat submitted; uv_timer_init links the timer into loop->handle_queue *)
      let s1 := set_hq (set_cs s (cs s ++ [c_set_inflight true nc])) (hq s ++ [c]) in
      let s2 := set_inflight s1 (inflight s1 ++ [c]) in
      (upd_h s2 h (fun x => h_set_active true (h_set_chain (c :: h_chain x) x)), 0)
  end.

(* uv_fs_poll_stop, fs-poll.c:116-135.  The timer is closed only when it is active (armed).  When
   it is idle a stat is in flight; when it is TReady (already taken into the ready queue of the
   uv__run_timers pass that is running -- stop called from another timer's callback) it is
   inactive too: nothing happens now, timer_cb still runs later in the pass and (since 56a9a49)
   tears the context down there *)
Definition do_stop (s : st) (h : nat) : st :=
  if negb (h_active (geth s h)) then s else
  let s1 := match h_chain (geth s h) with
            | c :: _ => if timer_active (c_timer (getc s c)) then close_timer s c else s
            | [] => s
            end in
  upd_h s1 h (h_set_active false).

(* uv_close on the fs_poll handle: flag, uv__fs_poll_close *)
Definition do_close (s : st) (h : nat) : st :=
  let s1 := do_stop (upd_h s h h_set_closing) h in
  match h_chain (geth s1 h) with
  | [] => set_closingq s1 (CHandle h :: closingq s1)
  | _ => s1
  end.

Definition valid (s : st) (h : nat) : bool := Nat.ltb h (length (hs s)).

Definition observe (s : st) : event :=
  EObs (map (fun x => (h_active x, h_closing x,
                       if h_active x then match h_chain x with
                                          | c :: _ => Some (c_path (getc s c))
                                          | [] => None end
                       else None)) (hs s)).

(* loop->handle_queue as far as this model goes: the fs_poll handles that are initialised and not
   yet closed, and the timers of the contexts (hq).  uv_walk skips handles flagged
   UV_HANDLE_INTERNAL, which uv_fs_poll_start sets on every context timer. *)
Inductive qitem := QH (h : nat) | QT (c : nat).
Definition internal (it : qitem) : bool := match it with QT _ => true | QH _ => false end.
Definition handle_queue (s : st) : list qitem :=
  map QH (filter (fun h => negb (h_closed (geth s h))) (seq 0 (length (hs s)))) ++ map QT (hq s).
Definition uv_walk (s : st) : list qitem := filter (fun it => negb (internal it)) (handle_queue s).
Definition walk_targets (s : st) : list nat :=
  flat_map (fun it => match it with QH h => [h] | QT _ => [] end) (uv_walk s).

(* the walk-and-close-all teardown: uv_close on every visited handle that is not closing; the
   script's own timers are visited and closed too (those that are armed or in the ready queue
   never fire) *)
Definition do_walk (s : st) : st :=
  let s1 := fold_left (fun s h => if h_closing (geth s h) then s else do_close s h) (walk_targets s) s in
  match ut s1 with [] => s1 | _ => set_ut s1 [] end.

(* one API call; calls on handles that do not exist, start/close on a closing
   handle are not made (neither by the harness) *)
Definition api (s : st) (o : op) : st * list event :=
  match o with
  | OInit => (set_hs s (hs s ++ [mkH false false false []]), [])
  | OStart h cb path iv fail =>
      if valid s h && negb (h_closing (geth s h))
      then let '(s', r) := do_start s h cb path iv fail in (s', [ERet r]) else (s, [])
  | OStop h => if valid s h && negb (h_closed (geth s h)) then (do_stop s h, [ERet 0]) else (s, [])
  | OClose h => if valid s h && negb (h_closing (geth s h)) then (do_close s h, []) else (s, [])
  | OObs => (s, [observe s])
  | OWalk => (do_walk s, [EWalk (walk_targets s)])
  | _ => (s, [])
  end.

Fixpoint apis (s : st) (os : list op) : st * list event :=
  match os with
  | [] => (s, [])
  | o :: os' => let '(s1, e1) := api s o in
                let '(s2, e2) := apis s1 os' in (s2, e1 ++ e2)
  end.

Section Variant.
Variable fx : bool.

(* the test at the top and at [out:] of poll_cb *)
Definition gone (s : st) (h c : nat) : bool :=
  negb (h_active (geth s h)) || h_closing (geth s h) || (fx && negb (is_head s h c)).

(* the user callback: event, then the scripted behaviour *)
Definition user_cb (s : st) (ev : event) (beh : nat -> list op) (cnt : nat)
  : st * list event * nat :=
  let '(s', e) := apis s (beh cnt) in (s', ev :: e, S cnt).

(* poll_cb, fs-poll.c:188-234 *)
Definition poll_cb (s : st) (c : nat) (res : sres) (beh : nat -> list op) (cnt : nat)
  : st * list event * nat :=
  let s := upd_c s c (c_set_inflight false) in
  let x := getc s c in
  let h := c_parent x in
  let '(s1, ev, cnt1) :=
    if gone s h c then (s, [], cnt) else
    let '(r, sb) := res in
    if negb (r =? 0) then
      if negb (c_busy x =? r) then
        let '(s', e, n) := user_cb s (EPoll h (c_cb x) (c_path x) r (c_sb x) zero_sb) beh cnt in
        (upd_c s' c (c_set_busy r), e, n)
      else (s, [], cnt)
    else
      let '(s', e, n) :=
        if negb (c_busy x =? 0) && ((c_busy x <? 0) || negb (statbuf_eq (c_sb x) sb))
        then user_cb s (EPoll h (c_cb x) (c_path x) 0 (c_sb x) sb) beh cnt
        else (s, [], cnt) in
      (upd_c s' c (fun y => c_set_busy 1 (c_set_sb sb y)), e, n) in
  (* out: *)
  if gone s1 h c then (close_timer s1 c, ev, cnt1)
  else
    let y := getc s1 c in
    let iv := c_interval y in
    let t := iv - ((now s1 - c_start y) mod iv) in
    (set_tctr (upd_c s1 c (c_set_timer (TArmed (now s1 + t) (tctr s1)))) (tctr s1 + 1), ev, cnt1).

(* uv__work_done over the detached loop->wq *)
Fixpoint work_done (l : list (nat * sres)) (s : st) (beh : nat -> list op) (cnt : nat)
  : st * list event * nat :=
  match l with
  | [] => (s, [], cnt)
  | (c, r) :: l' =>
      let '(s1, e1, n1) := poll_cb s c r beh cnt in
      let '(s2, e2, n2) := work_done l' s1 beh n1 in
      (s2, e1 ++ e2, n2)
  end.

(* timer_close_cb, fs-poll.c:237-258 (after uv__finish_close unlinked the timer) *)
Definition timer_close_cb (s : st) (c : nat) : st :=
  let h := c_parent (getc s c) in
  let s0 := set_hq s (remove_nat c (hq s)) in
  let s1 :=
    match h_chain (geth s0 h) with
    | c0 :: rest =>
        if Nat.eqb c0 c then
          let s' := upd_h s0 h (h_set_chain rest) in
          match rest with
          | [] => if h_closing (geth s' h) then set_closingq s' (CHandle h :: closingq s') else s'
          | _ => s'
          end
        else upd_h s0 h (h_set_chain (c0 :: remove_nat c rest))
    | [] => s0
    end in
  upd_c s1 c c_set_freed.

(* ghost: the contexts of handle h that are allocated *)
Definition live_of (s : st) (h : nat) : nat :=
  length (filter (fun x => negb (c_freed x) && Nat.eqb (c_parent x) h) (cs s)).

(* uv__run_closing_handles over the detached list *)
Fixpoint run_closing (q : list citem) (s : st) (beh : nat -> list op) (cnt : nat)
  : st * list event * nat :=
  match q with
  | [] => (s, [], cnt)
  | CTimer c :: q' => run_closing q' (timer_close_cb s c) beh cnt
  | CHandle h :: q' =>
      let '(s1, e1, n1) := user_cb (upd_h s h h_set_closed) (EClosed h (live_of s h)) beh cnt in
      let '(s2, e2, n2) := run_closing q' s1 beh n1 in
      (s2, e1 ++ e2, n2)
  end.

(* the timers that are due, in (timeout, start_id) order *)
Definition tkey_lt {A} (a b : Z * Z * A) : bool :=
  let '(d1, q1, _) := a in let '(d2, q2, _) := b in
  if d1 <? d2 then true else if d2 <? d1 then false else q1 <? q2.

Fixpoint tinsert {A} (x : Z * Z * A) (l : list (Z * Z * A)) : list (Z * Z * A) :=
  match l with
  | [] => [x]
  | y :: l' => if tkey_lt x y then x :: l else y :: tinsert x l'
  end.

Fixpoint due_from (i : nat) (l : list ctx) (nw : Z) : list (Z * Z * nat) :=
  match l with
  | [] => []
  | x :: l' =>
      let r := due_from (S i) l' nw in
      match c_timer x with
      | TArmed d q => if d <=? nw then tinsert (d, q, i) r else r
      | _ => r
      end
  end.

(* an entry of the ready queue of uv__run_timers *)
Inductive ritem := RCtx (c : nat) | RUser (id : nat).

Definition due_items (s : st) : list (Z * Z * ritem) :=
  fold_right (fun u acc => let '(id, d, q) := u in
                           if d <=? now s then tinsert (d, q, RUser id) acc else acc)
             (map (fun k => (fst (fst k), snd (fst k), RCtx (snd k))) (due_from 0 (cs s) (now s)))
             (ut s).

(* first loop of uv__run_timers: every due timer is stopped (off the heap, inactive) and put
   on the ready queue *)
Definition collect (s : st) (items : list ritem) : st :=
  fold_left (fun s it => match it with
                         | RCtx c => upd_c s c (c_set_timer TReady)
                         | RUser _ => s end) items s.

Definition ut_has (s : st) (id : nat) : bool := existsb (fun u => Nat.eqb (fst (fst u)) id) (ut s).
Definition ut_remove (s : st) (id : nat) : st :=
  set_ut s (filter (fun u => negb (Nat.eqb (fst (fst u)) id)) (ut s)).

(* timer_cb, fs-poll.c:178-199: the timer has fired (inactive again).  Since 56a9a49 (fx = true) a
   context whose handle has been stopped, or which has been superseded -- uv_fs_poll_stop / stop +
   start called from another timer's callback in this pass, after this timer went to the ready
   queue -- closes its timer right here; otherwise a stat is submitted.  History (fx = false): the
   stat was submitted whatever the handle's state (and an assert failed in debug builds). *)
Definition timer_fire (s : st) (c : nat) : st :=
  let h := c_parent (getc s c) in
  if fx && (negb (h_active (geth s h)) || negb (is_head s h c)) then close_timer s c
  else
    let s1 := upd_c s c (fun x => c_set_inflight true (c_set_start (now s) (c_set_timer TIdle x))) in
    set_inflight s1 (inflight s1 ++ [c]).

Section Timers.
Variable beh : nat -> list op.

(* second loop of uv__run_timers: the callbacks, in order *)
Fixpoint fire_ready (l : list ritem) (s : st) (cnt : nat) : st * list event * nat :=
  match l with
  | [] => (s, [], cnt)
  | RCtx c :: l' => fire_ready l' (timer_fire s c) cnt
  | RUser id :: l' =>
      (* a timer of the script that was closed meanwhile (uv_walk in an earlier callback of this
         pass) has left the ready queue *)
      if ut_has s id then
        let '(s1, e1) := apis (ut_remove s id) (beh cnt) in
        let '(s2, e2, n2) := fire_ready l' s1 (S cnt) in
        (s2, EUser id :: e1 ++ e2, n2)
      else fire_ready l' s cnt
  end.

Definition run_timers (s : st) (cnt : nat) : st * list event * nat :=
  let items := map snd (due_items s) in
  fire_ready items (collect s items) cnt.
End Timers.

(* one iteration of uv_run with something keeping the loop alive: poll phase
   (uv__io_poll updates loop->time after epoll_pwait, then uv__work_done),
   closing handles, uv__update_time, timers *)
Definition iteration (s : st) (beh : nat -> list op) (cnt : nat) : st * list event * nat :=
  let s := set_now s (clock s) in
  let '(s1, e1, n1) := work_done (done s) (set_done s []) beh cnt in
  let '(s2, e2, n2) := run_closing (closingq s1) (set_closingq s1 []) beh n1 in
  let '(s3, e3, n3) := run_timers beh (set_now s2 (clock s2)) n2 in
  (s3, e1 ++ e2 ++ e3, n3).

(* the worker thread runs every queued stat *)
Definition release (s : st) (res : nat -> sres) : st * list event :=
  (set_inflight (set_done s (done s ++ map (fun c => (c, res (c_path (getc s c)))) (inflight s))) [],
   map (fun c => EStat (c_path (getc s c))) (inflight s)).

(* uv__loop_alive without the harness's own blocker request *)
Definition alive (s : st) : bool :=
  existsb h_active (hs s) ||
  negb (match inflight s with [] => true | _ => false end) ||
  negb (match done s with [] => true | _ => false end) ||
  negb (match closingq s with [] => true | _ => false end).

Fixpoint drain (fuel : nat) (s : st) (res : nat -> sres) (beh : nat -> list op) (cnt : nat)
  : st * list event * nat :=
  match fuel with
  | O => (s, [], cnt)
  | S f =>
      let '(s1, e1) := release s res in
      let '(s2, e2, n2) := iteration s1 beh cnt in
      if alive s2 then
        let '(s3, e3, n3) := drain f s2 res beh n2 in (s3, e1 ++ EIter :: e2 ++ e3, n3)
      else (s2, e1 ++ EIter :: e2, n2)
  end.

Definition live_ctx (s : st) : nat := length (filter (fun x => negb (c_freed x)) (cs s)).

(* uv_loop_close: UV_EBUSY while a request is active or a non-internal handle
   is still in the handle queue (the context timers are UV_HANDLE_INTERNAL) *)
Definition loop_close (s : st) : Z :=
  if forallb h_closed (hs s) &&
     match inflight s with [] => true | _ => false end &&
     match done s with [] => true | _ => false end
  then 0 else UV_EBUSY.

Definition drain_fuel : nat := 64.

(* a whole script *)
Fixpoint run (s : st) (os : list op) (beh : nat -> list op) (cnt : nat) : st * list event :=
  match os with
  | [] => (s, [])
  | ORelease res :: os' =>
      let '(s1, e1) := release s res in
      let '(s2, e2) := run s1 os' beh cnt in (s2, e1 ++ e2)
  | OAdvance d :: os' => run (set_clock s (clock s + Z.max 0 d)) os' beh cnt
  | ORun :: os' =>
      let '(s1, e1, n1) := iteration s beh cnt in
      let '(s2, e2) := run s1 os' beh n1 in (s2, EIter :: e1 ++ e2)
  | OTimer id delay :: os' =>
      (* uv_timer_start(t, cb, delay, 0) at the top level: due = loop->time + delay *)
      run (set_tctr (set_ut s (ut s ++ [(id, now s + Z.max 0 delay, tctr s)])) (tctr s + 1)) os' beh cnt
  | ODrain res :: os' =>
      let '(s1, e1, n1) := drain drain_fuel (set_ut s []) res beh cnt in
      let '(s2, e2) := run s1 os' beh n1 in
      (s2, e1 ++ EFinal (loop_close s1) (live_ctx s1) :: e2)
  | o :: os' =>
      let '(s1, e1) := api s o in
      let '(s2, e2) := run s1 os' beh cnt in (s2, e1 ++ e2)
  end.

End Variant.
