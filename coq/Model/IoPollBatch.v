(* C14, second layer: the for(;;) loop of uv__io_poll (src/unix/linux.c) around the parts that
   Model/IoWatch.v already has (registration loop = [poll_prepare], one epoll_pwait = [poll_fetch],
   dispatch loop = [dispatch]).  What is added here is the re-poll inside ONE uv__io_poll call:

     nfds = epoll_pwait(epollfd, events, ARRAY_SIZE(events), timeout, sigmask);
     ... dispatch, nevents = number of watcher callbacks made ...
     if (nevents != 0) {
       if (nfds == ARRAY_SIZE(events) && --count != 0) { timeout = 0; continue; }
       break;
     }
   update_timeout:
     if (timeout == 0) break;   ... otherwise poll again with what is left of the timeout

   loop->watcher_queue is only drained by the registration loop at the top of the function, so
   handles started (or re-armed) by callbacks of a batch are NOT yet registered with the kernel
   when the loop body runs again.  The statement of interest (Properties_C14_batch.v): a call of
   epoll_pwait that may block (timeout <> 0) is only ever made in a state where no watcher
   callback has run since the registration loop.

   [cap] = ARRAY_SIZE(events) (1024 in the code; a parameter, the theorems hold for every value),
   the fuel [count] = 48.  The arithmetic of the timed retry (update_timeout with timeout > 0) is
   the subject of the C16 model (Model/Faults.v, io_poll_loop); here that exit is reported as
   [r_retry] = true: the function would poll again with a non-zero timeout. *)
From UV Require Import Lib.Base Model.IoWatch.
Local Open Scope Z_scope.

Record pwcall := mkPW {
  pw_timeout : Z;                 (* the timeout passed *)
  pw_at : state;                  (* the state in which the call is made *)
  pw_ncb : nat;                   (* ghost: user callbacks made so far (ncb) *)
  pw_ans : list (Z * mask)        (* the answer *)
}.

Record bres := mkB {
  b_state : state;
  b_calls : list pwcall;          (* oldest first *)
  b_events : list event;
  b_retry : bool                  (* left through update_timeout with timeout <> 0 *)
}.

Fixpoint repoll (count cap : nat) (fdo : nat -> Z) (pw : nat -> list (Z * mask)) (beh : nat -> list op)
         (s : state) (t : Z) : bres :=
  match count with
  | O => mkB s [] [] false
  | S c =>
    let ans := pw (npw s) in
    let s1 := poll_fetch s ans in
    let '(s4, evs) := dispatch (length ans) fdo beh s1 in
    let s5 := set_batch s4 [] in
    let call := mkPW t s (ncb s) ans in
    if Nat.eqb (ncb s4) (ncb s1) then
      (* nevents == 0: update_timeout *)
      mkB s5 [call] evs (negb (t =? 0))
    else if Nat.eqb (length ans) cap && negb (Nat.eqb c 0) && negb (aborted s4) then
      (* a completely filled batch and --count != 0: timeout = 0; continue *)
      let r := repoll c cap fdo pw beh s5 0 in
      mkB (b_state r) (call :: b_calls r) (evs ++ b_events r) (b_retry r)
    else mkB s5 [call] evs false
  end.

(* uv__io_poll(loop, timeout): registration loop, then the polling loop *)
Definition io_poll_full (cap : nat) (fdo : nat -> Z) (pw : nat -> list (Z * mask)) (beh : nat -> list op)
           (s : state) (timeout : Z) : bres :=
  let s2 := poll_prepare s in
  if aborted s2 then mkB s2 [] [EAbort] false
  else repoll 48 cap fdo pw beh s2 timeout.

(* the skeleton the full-batch harness is compared with: the timeouts of the successive
   epoll_pwait calls of one uv__io_poll, given how many events each call returns and whether
   its dispatch made a callback *)
Fixpoint plan (count cap : nat) (t : Z) (ns : list (nat * bool)) : list Z :=
  match count, ns with
  | O, _ => []
  | _, [] => [t]
  | S c, (n, cbs) :: r =>
    if negb cbs then [t]
    else if Nat.eqb n cap && negb (Nat.eqb c 0) then t :: plan c cap 0 r
    else [t]
  end.
