(* Model of the loop core: the handle flags and the two counters of
   src/uv-common.h (uv__handle_start/stop/ref/unref), uv_close /
   uv__finish_close / uv__run_closing_handles, uv__loop_alive,
   uv__backend_timeout, uv_run, uv_stop, uv_loop_close of src/unix/core.c,
   the idle/prepare/check watchers of src/unix/loop-watcher.c, the async
   handles of src/unix/async.c as seen from the loop thread, work requests
   (uv_queue_work whose work function has already finished on the pool),
   and the timers of Model/Timer.v.

   The outside world: a virtual clock ([clock], ms) advanced by the script
   and by a blocking poll; the eventfd of the loop ([efd]).  A callback's
   behaviour is a script: the k-th callback of a case runs [beh k]. *)
From UV Require Import Lib.Base Model.Heap Model.Timer.

Local Open Scope Z_scope.

Inductive hkind := KTimer | KIdle | KPrepare | KCheck | KAsync.

Definition hkind_eqb (a b : hkind) : bool :=
  match a, b with
  | KTimer, KTimer | KIdle, KIdle | KPrepare, KPrepare | KCheck, KCheck | KAsync, KAsync => true
  | _, _ => false
  end.

Record hrec := mkH {
  h_kind : hkind;
  h_active : bool;        (* UV_HANDLE_ACTIVE *)
  h_ref : bool;           (* UV_HANDLE_REF *)
  h_closing : bool;       (* UV_HANDLE_CLOSING *)
  h_closed : bool;        (* UV_HANDLE_CLOSED *)
  h_hascb : bool;         (* idle/prepare/check/async: callback pointer non-NULL *)
  h_pending : bool        (* async: pending flag *)
}.

Record wrec := mkW { w_has_after : bool; w_delivered : bool }.

Record lstate := mkL {
  ts : tstate;            (* timers; [now ts] is loop->time *)
  clock : Z;              (* virtual hrtime, ms *)
  hs : list hrec;         (* every handle ever initialised, by identity *)
  nact : Z;               (* loop->active_handles *)
  nreq : Z;               (* loop->active_reqs.count *)
  closing : list nat;     (* loop->closing_handles, head first *)
  idle_q : list nat;
  prepare_q : list nat;
  check_q : list nat;
  lq : list nat;          (* detached queue of the watcher phase in progress *)
  async_q : list nat;     (* loop->async_handles (user handles; wq_async is implicit, first) *)
  alq : list nat;         (* detached queue of uv__async_io in progress *)
  wq_pending : bool;      (* wq_async.pending *)
  efd : bool;             (* eventfd counter > 0 *)
  wq : list nat;          (* loop->wq: finished work requests awaiting uv__work_done *)
  works : list wrec;
  stop_flag : bool;
  cbcount : nat;          (* callbacks run so far in this case *)
  metrics : bool;         (* UV_METRICS_IDLE_TIME configured *)
  io_dirty : bool         (* loop->watcher_queue non-empty (registrations not yet applied) *)
}.

Definition linit (t0 : Z) (m : bool) : lstate :=
  mkL (tinit t0) t0 [] 0 0 [] [] [] [] [] [] [] false false [] [] false O m true.

Definition dflt_h : hrec := mkH KIdle false false false true false false.
Definition hget (s : lstate) (i : nat) : hrec := nth i (hs s) dflt_h.

(* field updaters *)
Definition set_ts s v := mkL v (clock s) (hs s) (nact s) (nreq s) (closing s) (idle_q s) (prepare_q s) (check_q s) (lq s) (async_q s) (alq s) (wq_pending s) (efd s) (wq s) (works s) (stop_flag s) (cbcount s) (metrics s) (io_dirty s).
Definition set_clock s v := mkL (ts s) v (hs s) (nact s) (nreq s) (closing s) (idle_q s) (prepare_q s) (check_q s) (lq s) (async_q s) (alq s) (wq_pending s) (efd s) (wq s) (works s) (stop_flag s) (cbcount s) (metrics s) (io_dirty s).
Definition set_hs s v := mkL (ts s) (clock s) v (nact s) (nreq s) (closing s) (idle_q s) (prepare_q s) (check_q s) (lq s) (async_q s) (alq s) (wq_pending s) (efd s) (wq s) (works s) (stop_flag s) (cbcount s) (metrics s) (io_dirty s).
Definition set_nact s v := mkL (ts s) (clock s) (hs s) v (nreq s) (closing s) (idle_q s) (prepare_q s) (check_q s) (lq s) (async_q s) (alq s) (wq_pending s) (efd s) (wq s) (works s) (stop_flag s) (cbcount s) (metrics s) (io_dirty s).
Definition set_nreq s v := mkL (ts s) (clock s) (hs s) (nact s) v (closing s) (idle_q s) (prepare_q s) (check_q s) (lq s) (async_q s) (alq s) (wq_pending s) (efd s) (wq s) (works s) (stop_flag s) (cbcount s) (metrics s) (io_dirty s).
Definition set_closing s v := mkL (ts s) (clock s) (hs s) (nact s) (nreq s) v (idle_q s) (prepare_q s) (check_q s) (lq s) (async_q s) (alq s) (wq_pending s) (efd s) (wq s) (works s) (stop_flag s) (cbcount s) (metrics s) (io_dirty s).
Definition set_idle s v := mkL (ts s) (clock s) (hs s) (nact s) (nreq s) (closing s) v (prepare_q s) (check_q s) (lq s) (async_q s) (alq s) (wq_pending s) (efd s) (wq s) (works s) (stop_flag s) (cbcount s) (metrics s) (io_dirty s).
Definition set_prepare s v := mkL (ts s) (clock s) (hs s) (nact s) (nreq s) (closing s) (idle_q s) v (check_q s) (lq s) (async_q s) (alq s) (wq_pending s) (efd s) (wq s) (works s) (stop_flag s) (cbcount s) (metrics s) (io_dirty s).
Definition set_check s v := mkL (ts s) (clock s) (hs s) (nact s) (nreq s) (closing s) (idle_q s) (prepare_q s) v (lq s) (async_q s) (alq s) (wq_pending s) (efd s) (wq s) (works s) (stop_flag s) (cbcount s) (metrics s) (io_dirty s).
Definition set_lq s v := mkL (ts s) (clock s) (hs s) (nact s) (nreq s) (closing s) (idle_q s) (prepare_q s) (check_q s) v (async_q s) (alq s) (wq_pending s) (efd s) (wq s) (works s) (stop_flag s) (cbcount s) (metrics s) (io_dirty s).
Definition set_async s v := mkL (ts s) (clock s) (hs s) (nact s) (nreq s) (closing s) (idle_q s) (prepare_q s) (check_q s) (lq s) v (alq s) (wq_pending s) (efd s) (wq s) (works s) (stop_flag s) (cbcount s) (metrics s) (io_dirty s).
Definition set_alq s v := mkL (ts s) (clock s) (hs s) (nact s) (nreq s) (closing s) (idle_q s) (prepare_q s) (check_q s) (lq s) (async_q s) v (wq_pending s) (efd s) (wq s) (works s) (stop_flag s) (cbcount s) (metrics s) (io_dirty s).
Definition set_wqp s v := mkL (ts s) (clock s) (hs s) (nact s) (nreq s) (closing s) (idle_q s) (prepare_q s) (check_q s) (lq s) (async_q s) (alq s) v (efd s) (wq s) (works s) (stop_flag s) (cbcount s) (metrics s) (io_dirty s).
Definition set_efd s v := mkL (ts s) (clock s) (hs s) (nact s) (nreq s) (closing s) (idle_q s) (prepare_q s) (check_q s) (lq s) (async_q s) (alq s) (wq_pending s) v (wq s) (works s) (stop_flag s) (cbcount s) (metrics s) (io_dirty s).
Definition set_wq s v := mkL (ts s) (clock s) (hs s) (nact s) (nreq s) (closing s) (idle_q s) (prepare_q s) (check_q s) (lq s) (async_q s) (alq s) (wq_pending s) (efd s) v (works s) (stop_flag s) (cbcount s) (metrics s) (io_dirty s).
Definition set_works s v := mkL (ts s) (clock s) (hs s) (nact s) (nreq s) (closing s) (idle_q s) (prepare_q s) (check_q s) (lq s) (async_q s) (alq s) (wq_pending s) (efd s) (wq s) v (stop_flag s) (cbcount s) (metrics s) (io_dirty s).
Definition set_stop s v := mkL (ts s) (clock s) (hs s) (nact s) (nreq s) (closing s) (idle_q s) (prepare_q s) (check_q s) (lq s) (async_q s) (alq s) (wq_pending s) (efd s) (wq s) (works s) v (cbcount s) (metrics s) (io_dirty s).
Definition set_cbcount s v := mkL (ts s) (clock s) (hs s) (nact s) (nreq s) (closing s) (idle_q s) (prepare_q s) (check_q s) (lq s) (async_q s) (alq s) (wq_pending s) (efd s) (wq s) (works s) (stop_flag s) v (metrics s) (io_dirty s).
Definition set_metrics s v := mkL (ts s) (clock s) (hs s) (nact s) (nreq s) (closing s) (idle_q s) (prepare_q s) (check_q s) (lq s) (async_q s) (alq s) (wq_pending s) (efd s) (wq s) (works s) (stop_flag s) (cbcount s) v (io_dirty s).
Definition set_dirty s v := mkL (ts s) (clock s) (hs s) (nact s) (nreq s) (closing s) (idle_q s) (prepare_q s) (check_q s) (lq s) (async_q s) (alq s) (wq_pending s) (efd s) (wq s) (works s) (stop_flag s) (cbcount s) (metrics s) v.

Definition upd_h (s : lstate) (i : nat) (f : hrec -> hrec) : lstate := set_hs s (upd i f (hs s)).

Definition with_active (b : bool) (h : hrec) := mkH (h_kind h) b (h_ref h) (h_closing h) (h_closed h) (h_hascb h) (h_pending h).
Definition with_ref (b : bool) (h : hrec) := mkH (h_kind h) (h_active h) b (h_closing h) (h_closed h) (h_hascb h) (h_pending h).
Definition with_closing (b : bool) (h : hrec) := mkH (h_kind h) (h_active h) (h_ref h) b (h_closed h) (h_hascb h) (h_pending h).
Definition with_closed (b : bool) (h : hrec) := mkH (h_kind h) (h_active h) (h_ref h) (h_closing h) b (h_hascb h) (h_pending h).
Definition with_hascb (b : bool) (h : hrec) := mkH (h_kind h) (h_active h) (h_ref h) (h_closing h) (h_closed h) b (h_pending h).
Definition with_pending (b : bool) (h : hrec) := mkH (h_kind h) (h_active h) (h_ref h) (h_closing h) (h_closed h) (h_hascb h) b.

(* the four macros of uv-common.h *)
Definition handle_start (s : lstate) (i : nat) : lstate :=
  let h := hget s i in
  if h_active h then s
  else let s1 := upd_h s i (with_active true) in
       if h_ref h then set_nact s1 (nact s1 + 1) else s1.

Definition handle_stop (s : lstate) (i : nat) : lstate :=
  let h := hget s i in
  if h_active h then
    let s1 := upd_h s i (with_active false) in
    if h_ref h then set_nact s1 (nact s1 - 1) else s1
  else s.

Definition handle_ref (s : lstate) (i : nat) : lstate :=
  let h := hget s i in
  if h_ref h then s
  else let s1 := upd_h s i (with_ref true) in
       if h_closing h then s1
       else if h_active h then set_nact s1 (nact s1 + 1) else s1.

Definition handle_unref (s : lstate) (i : nat) : lstate :=
  let h := hget s i in
  if h_ref h then
    let s1 := upd_h s i (with_ref false) in
    if h_closing h then s1
    else if h_active h then set_nact s1 (nact s1 - 1) else s1
  else s.

(* uv__handle_init: flags = UV_HANDLE_REF, linked into handle_queue *)
Definition handle_init (s : lstate) (k : hkind) : lstate :=
  let s1 := set_hs s (hs s ++ [mkH k false true false false false false]) in
  set_ts s1 (timer_init (ts s1)).

Definition remove_q (i : nat) (l : list nat) : list nat := remove_id i l.

(* timers: Model/Timer.v plus the handle accounting of uv__handle_start/stop *)
Definition sync_timer_active (s : lstate) (i : nat) : lstate :=
  if t_active (get (ts s) i) then handle_start s i else handle_stop s i.

Definition l_timer_start (s : lstate) (i : nat) (cb : option nat) (t r : Z) : lstate * Z :=
  let '(ts', c) := timer_start (ts s) i cb t r in
  (* uv_timer_start: uv_timer_stop (handle_stop), then handle_start *)
  let s0 := if Z.eqb c 0 then handle_stop s i else s in
  (sync_timer_active (set_ts s0 ts') i, c).

Definition l_timer_stop (s : lstate) (i : nat) : lstate :=
  sync_timer_active (set_ts s (timer_stop (ts s) i)) i.

Definition l_timer_again (s : lstate) (i : nat) : lstate * Z :=
  let '(ts', c) := timer_again (ts s) i in
  let rearmed := andb (Z.eqb c 0) (negb (Z.eqb (t_repeat (get (ts s) i)) 0)) in
  let s0 := if rearmed then handle_stop s i else s in
  (sync_timer_active (set_ts s0 ts') i, c).

(* uv_{idle,prepare,check}_start / stop *)
Definition wq_get (s : lstate) (k : hkind) : list nat :=
  match k with KIdle => idle_q s | KPrepare => prepare_q s | KCheck => check_q s | _ => [] end.
Definition wq_set (s : lstate) (k : hkind) (v : list nat) : lstate :=
  match k with KIdle => set_idle s v | KPrepare => set_prepare s v | KCheck => set_check s v | _ => s end.

Definition watcher_start (s : lstate) (i : nat) (hascb : bool) : lstate * Z :=
  let h := hget s i in
  if h_active h then (s, 0)
  else if negb hascb then (s, UV_EINVAL)
  else let s1 := wq_set s (h_kind h) (i :: wq_get s (h_kind h)) in
       let s2 := upd_h s1 i (with_hascb true) in
       (handle_start s2 i, 0).

Definition watcher_stop (s : lstate) (i : nat) : lstate :=
  let h := hget s i in
  if h_active h then
    let s1 := wq_set s (h_kind h) (remove_q i (wq_get s (h_kind h))) in
    let s2 := set_lq s1 (remove_q i (lq s1)) in
    handle_stop s2 i
  else s.

(* uv_async_send from the loop thread *)
Definition async_send (s : lstate) (i : nat) : lstate :=
  let h := hget s i in
  if h_pending h then s
  else set_efd (upd_h s i (with_pending true)) true.

(* uv_queue_work whose work function has already run on the pool: the worker
   queued it on loop->wq and did uv_async_send(&loop->wq_async) *)
Definition work_submit (s : lstate) (has_after : bool) : lstate :=
  let id := length (works s) in
  let s1 := set_works s (works s ++ [mkW has_after false]) in
  let s2 := set_nreq s1 (nreq s1 + 1) in
  let s3 := set_wq s2 (wq s2 ++ [id]) in
  if wq_pending s3 then s3 else set_efd (set_wqp s3 true) true.

(* uv_close *)
Definition l_close (s : lstate) (i : nat) : lstate :=
  let h := hget s i in
  if h_closing h then s    (* assert(!uv__is_closing(handle)): not issued by the harness *)
  else
    let s1 := upd_h s i (with_closing true) in
    let s2 := match h_kind h with
              | KTimer =>
                  let s' := set_ts s1 (timer_close (ts s1) i) in handle_stop s' i
              | KIdle | KPrepare | KCheck => watcher_stop s1 i
              | KAsync =>
                  let s' := upd_h s1 i (with_pending true) in
                  let s'' := set_async s' (remove_q i (async_q s')) in
                  let s''' := set_alq s'' (remove_q i (alq s'')) in
                  handle_stop s''' i
              end in
    set_closing s2 (i :: closing s2).

(* uv__loop_alive (pending_queue is always empty in this model) *)
Definition loop_alive (s : lstate) : bool :=
  (0 <? nact s) || (0 <? nreq s) || negb (match closing s with [] => true | _ => false end).

(* uv__backend_timeout *)
Definition backend_timeout (s : lstate) : Z :=
  if negb (stop_flag s) && ((0 <? nact s) || (0 <? nreq s)) &&
     (match idle_q s with [] => true | _ => false end) &&
     (match closing s with [] => true | _ => false end)
  then next_timeout (ts s) else 0.

Definition update_time (s : lstate) : lstate :=
  set_ts s (mkT (clock s) (counter (ts s)) (hp (ts s)) (tms (ts s)) (ready (ts s))).

(* operations a script or a callback can perform *)
Inductive lop :=
| LInit (k : hkind) (hascb : bool)        (* hascb: async_cb non-NULL *)
| LTStart (i : nat) (cb : option nat) (t r : Z)
| LTAgain (i : nat)
| LTSetRepeat (i : nat) (r : Z)
| LStart (i : nat) (hascb : bool)         (* idle/prepare/check *)
| LStop (i : nat)                         (* any kind but async *)
| LRef (i : nat)
| LUnref (i : nat)
| LClose (i : nat)
| LSend (i : nat)
| LWork (has_after : bool)
| LStopLoop
| LAdv (d : Z)
| LAlive
| LObs
| LBackendTimeout
| LRun (mode : nat)                       (* 0 DEFAULT, 1 ONCE, 2 NOWAIT; top level only *)
| LLoopClose.                             (* top level only *)

Inductive levent :=
| VRet (c : Z)
| VCb (tag : nat) (i : nat) (nw : Z)      (* tag: 0 timer 1 idle 2 prepare 3 check 4 async 5 after_work 6 close *)
| VPoll (timeout : Z) (idle closing stop work : bool)   (* + what the blocking rules depend on *)
| VHang
| VAlive (b : bool)
| VObs (nact nreq : Z) (flags : list (bool * bool * bool * bool))   (* active, ref, closing, closed *)
| VBt (t : Z)
| VRunStart (mode : nat) (alive : bool)
| VStopReq
| VRun (r : bool)
| VLoopClose (c : Z).

Definition UV_EBUSY : Z := -16.

Definition lvalid (s : lstate) (i : nat) : bool := Nat.ltb i (length (hs s)).
Definition usable (s : lstate) (i : nat) : bool := lvalid s i && negb (h_closed (hget s i)).
Definition kind_is (s : lstate) (i : nat) (k : hkind) : bool := hkind_eqb (h_kind (hget s i)) k.
Definition is_watcher (s : lstate) (i : nat) : bool :=
  kind_is s i KIdle || kind_is s i KPrepare || kind_is s i KCheck.

Definition obs (s : lstate) : levent :=
  VObs (nact s) (nreq s) (map (fun h => (h_active h, h_ref h, h_closing h, h_closed h)) (hs s)).

(* One API call.  Calls the harness does not issue (unknown handle, a handle
   whose close callback already ran, wrong kind, start on a closing watcher)
   are ignored by both sides. *)
Definition lapi (s : lstate) (o : lop) : lstate * list levent :=
  match o with
  | LInit k hascb =>
      let s1 := handle_init s k in
      let i := length (hs s) in
      match k with
      | KAsync =>
          let s2 := upd_h s1 i (with_hascb hascb) in
          let s3 := set_async s2 (async_q s2 ++ [i]) in
          (handle_start s3 i, [])
      | _ => (s1, [])
      end
  | LTStart i cb t r =>
      if usable s i && kind_is s i KTimer then
        let '(s', c) := l_timer_start s i cb t r in (s', [VRet c]) else (s, [])
  | LTAgain i =>
      if usable s i && kind_is s i KTimer then
        let '(s', c) := l_timer_again s i in (s', [VRet c]) else (s, [])
  | LTSetRepeat i r =>
      if usable s i && kind_is s i KTimer then
        (set_ts s (timer_set_repeat (ts s) i r), []) else (s, [])
  | LStart i hascb =>
      if usable s i && is_watcher s i && negb (h_closing (hget s i)) then
        let '(s', c) := watcher_start s i hascb in (s', [VRet c]) else (s, [])
  | LStop i =>
      if usable s i then
        if kind_is s i KTimer then (l_timer_stop s i, [VRet 0])
        else if is_watcher s i then (watcher_stop s i, [VRet 0])
        else (s, [])
      else (s, [])
  | LRef i => if usable s i then (handle_ref s i, []) else (s, [])
  | LUnref i => if usable s i then (handle_unref s i, []) else (s, [])
  | LClose i => if usable s i && negb (h_closing (hget s i)) then (l_close s i, []) else (s, [])
  | LSend i =>
      if usable s i && kind_is s i KAsync then (async_send s i, [VRet 0]) else (s, [])
  | LWork a => (work_submit s a, [VRet 0])
  | LStopLoop => (set_stop s true, [VStopReq])
  | LAdv d => (set_clock s (clock s + Z.max 0 d), [])
  | LAlive => (s, [VAlive (loop_alive s)])
  | LObs => (s, [obs s])
  | LBackendTimeout => (s, [VBt (if io_dirty s then 0 else backend_timeout s)])
  | LRun _ => (s, [])
  | LLoopClose => (s, [])
  end.

Fixpoint lapis (s : lstate) (os : list lop) : lstate * list levent :=
  match os with
  | [] => (s, [])
  | o :: os' => let '(s1, e1) := lapi s o in
                let '(s2, e2) := lapis s1 os' in (s2, e1 ++ e2)
  end.

(* A user callback: the event, then the scripted behaviour.  After [cap]
   callbacks the case is wound down: uv_stop and close everything. *)
Definition cap : nat := 80.

Definition close_all (s : lstate) : list lop :=
  map LClose (seq 0 (length (hs s))).

Definition callback (s : lstate) (beh : nat -> list lop) (tag i : nat) : lstate * list levent :=
  let k := cbcount s in
  let s1 := set_cbcount s (S k) in
  let ops := if Nat.eqb k cap then LStopLoop :: close_all s1
             else if Nat.ltb cap k then []
             else beh k in
  let '(s2, evs) := lapis s1 ops in
  (s2, VCb tag i (now (ts s)) :: VAlive (loop_alive s) :: evs).

(* uv__run_idle / prepare / check: detached iteration *)
Fixpoint run_lq (fuel : nat) (s : lstate) (beh : nat -> list lop) (k : hkind) (tag : nat)
  : lstate * list levent :=
  match fuel with
  | O => (s, [])
  | S f =>
      match lq s with
      | [] => (s, [])
      | i :: rest =>
          let s1 := set_lq s rest in
          let s2 := wq_set s1 k (wq_get s1 k ++ [i]) in
          let '(s3, e1) := callback s2 beh tag i in
          let '(s4, e2) := run_lq f s3 beh k tag in
          (s4, e1 ++ e2)
      end
  end.

Definition run_watchers (s : lstate) (beh : nat -> list lop) (k : hkind) (tag : nat)
  : lstate * list levent :=
  let q := wq_get s k in
  let s1 := set_lq (wq_set s k []) q in
  run_lq (length q) s1 beh k tag.

(* uv__work_done *)
Fixpoint run_wq (l : list nat) (s : lstate) (beh : nat -> list lop) : lstate * list levent :=
  match l with
  | [] => (s, [])
  | w :: rest =>
      let s1 := set_nreq s (nreq s - 1) in
      let s2 := set_works s1 (upd w (fun r => mkW (w_has_after r) true) (works s1)) in
      let '(s3, e1) := if w_has_after (nth w (works s) (mkW false false))
                       then callback s2 beh 5 w else (s2, []) in
      let '(s4, e2) := run_wq rest s3 beh in
      (s4, e1 ++ e2)
  end.

(* the scan of uv__async_io over the detached handle list *)
Fixpoint run_alq (fuel : nat) (s : lstate) (beh : nat -> list lop) : lstate * list levent :=
  match fuel with
  | O => (s, [])
  | S f =>
      match alq s with
      | [] => (s, [])
      | i :: rest =>
          let s1 := set_alq s rest in
          let s2 := set_async s1 (async_q s1 ++ [i]) in
          let h := hget s2 i in
          let '(s4, e1) :=
            if h_pending h then
              let s3 := upd_h s2 i (with_pending false) in
              if h_hascb h then callback s3 beh 4 i else (s3, [])
            else (s2, []) in
          let '(s5, e2) := run_alq f s4 beh in
          (s5, e1 ++ e2)
      end
  end.

Definition vpoll (s : lstate) (t : Z) : levent :=
  VPoll t (existsb (fun h => hkind_eqb (h_kind h) KIdle && h_active h) (hs s))
          (existsb (fun h => h_closing h && negb (h_closed h)) (hs s))
          (stop_flag s)
          ((0 <? nreq s) || existsb (fun h => h_active h && h_ref h && negb (h_closing h)) (hs s)).

(* uv__io_poll as far as this model's handles are concerned *)
Definition io_poll (s : lstate) (beh : nat -> list lop) (timeout : Z) : lstate * list levent :=
  if efd s then
    (* the eventfd is readable: epoll returns at once; uv__async_io *)
    let s0 := update_time s in
    let s1 := set_efd s0 false in
    (* wq_async is the first handle of the list *)
    let '(s2, e1) :=
      if wq_pending s1 then
        let s' := set_wqp s1 false in
        let l := wq s' in
        run_wq l (set_wq s' []) beh
      else (s1, []) in
    let q := async_q s2 in
    let s3 := set_alq (set_async s2 []) q in
    let '(s4, e2) := run_alq (length q) s3 beh in
    (s4, vpoll s (if metrics s then 0 else timeout) :: e1 ++ e2)
  else if timeout =? 0 then (update_time s, [vpoll s 0])
  else if timeout <? 0 then
    (* nothing can wake the loop: reported, then the harness breaks the block *)
    (set_stop (update_time s) true, [vpoll s timeout; VHang])
  else if metrics s then
    (* UV_METRICS_IDLE_TIME: a non-blocking poll first; the time that passed
       since the timeout was computed (loop->time is refreshed after that
       poll) is taken off the timeout *)
    let rem := timeout - (clock s - now (ts s)) in
    if rem <=? 0 then (update_time s, [vpoll s 0])
    else (update_time (set_clock s (clock s + rem)), [vpoll s rem])
  else (update_time (set_clock s (clock s + timeout)), [vpoll s timeout]).

(* uv__run_closing_handles *)
Fixpoint run_closing (l : list nat) (s : lstate) (beh : nat -> list lop) : lstate * list levent :=
  match l with
  | [] => (s, [])
  | i :: rest =>
      let s1 := upd_h s i (with_closed true) in
      let s2 := handle_unref s1 i in
      let '(s3, e1) := callback s2 beh 6 i in
      let '(s4, e2) := run_closing rest s3 beh in
      (s4, e1 ++ e2)
  end.

(* uv__run_timers with loop-level callbacks *)
Fixpoint l_fire (fuel : nat) (s : lstate) (beh : nat -> list lop) : lstate * list levent :=
  match fuel with
  | O => (s, [])
  | S f =>
      match ready (ts s) with
      | [] => (s, [])
      | i :: rest =>
          let t0 := ts s in
          let s0 := set_ts s (mkT (now t0) (counter t0) (hp t0) (tms t0) rest) in
          let s1 := fst (l_timer_again s0 i) in
          let '(s2, e1) := callback s1 beh 0 i in
          let '(s3, e2) := l_fire f s2 beh in
          (s3, e1 ++ e2)
      end
  end.

Fixpoint l_collect (fuel : nat) (s : lstate) : lstate :=
  match fuel with
  | O => s
  | S f =>
      match heap_min (hp (ts s)) with
      | None => s
      | Some k =>
          if now (ts s) <? k_timeout k then s
          else let s1 := l_timer_stop s (k_id k) in
               let t1 := ts s1 in
               l_collect f (set_ts s1 (mkT (now t1) (counter t1) (hp t1) (tms t1)
                                           (ready t1 ++ [k_id k])))
      end
  end.

Definition l_run_timers (s : lstate) (beh : nat -> list lop) : lstate * list levent :=
  let s1 := l_collect (S (N.to_nat (h_n (hp (ts s))))) s in
  l_fire (length (ready (ts s1))) s1 beh.

(* one iteration of the while loop of uv_run *)
Definition iteration (s : lstate) (beh : nat -> list lop) (mode : nat) : lstate * list levent :=
  let can_sleep := match idle_q s with [] => true | _ => false end in
  let '(s1, e1) := run_watchers s beh KIdle 1 in
  let '(s2, e2) := run_watchers s1 beh KPrepare 2 in
  let timeout := if (Nat.eqb mode 1 && can_sleep) || Nat.eqb mode 0
                 then backend_timeout s2 else 0 in
  let '(s3, e3) := io_poll (set_dirty s2 false) beh timeout in
  let '(s4, e4) := run_watchers s3 beh KCheck 3 in
  let cl := closing s4 in
  let '(s5, e5) := run_closing cl (set_closing s4 []) beh in
  let s6 := update_time s5 in
  let '(s7, e6) := l_run_timers s6 beh in
  (s7, e1 ++ e2 ++ e3 ++ e4 ++ e5 ++ e6).

Fixpoint run_loop (fuel : nat) (s : lstate) (beh : nat -> list lop) (mode : nat)
  : lstate * list levent * bool :=
  match fuel with
  | O => (s, [], loop_alive s)
  | S f =>
      let '(s1, e1) := iteration s beh mode in
      let r := loop_alive s1 in
      if negb (Nat.eqb mode 0) then (s1, e1, r)
      else if r && negb (stop_flag s1) then
        let '(s2, e2, r2) := run_loop f s1 beh mode in (s2, e1 ++ e2, r2)
      else (s1, e1, r)
  end.

(* uv_run *)
Definition uv_run (fuel : nat) (s : lstate) (beh : nat -> list lop) (mode : nat)
  : lstate * list levent :=
  let r := loop_alive s in
  let s0 := if r then s else update_time s in
  let '(s1, e0) :=
    if Nat.eqb mode 0 && r && negb (stop_flag s0)
    then l_run_timers (update_time s0) beh else (s0, []) in
  (* after the initial timer pass: if (loop->stop_flag != 0) r = uv__loop_alive(loop) *)
  let r1 :=
    if Nat.eqb mode 0 && r && negb (stop_flag s0) && stop_flag s1 then loop_alive s1 else r in
  let '(s2, e1, r') :=
    if r1 && negb (stop_flag s1) then run_loop fuel s1 beh mode else (s1, [], r1) in
  (set_stop s2 false, e0 ++ e1 ++ [VRun r']).

(* uv_loop_close *)
Definition loop_close_code (s : lstate) : Z :=
  if (0 <? nreq s) || existsb (fun h => negb (h_closed h)) (hs s) then UV_EBUSY else 0.

Definition run_fuel : nat := 400.

Fixpoint lrun (s : lstate) (os : list lop) (beh : nat -> list lop) : lstate * list levent :=
  match os with
  | [] => (s, [])
  | LRun m :: os' =>
      let '(s1, e1) := uv_run run_fuel s beh m in
      let '(s2, e2) := lrun s1 os' beh in (s2, VRunStart m (loop_alive s) :: e1 ++ e2)
  | LLoopClose :: os' =>
      let '(s2, e2) := lrun s os' beh in (s2, VLoopClose (loop_close_code s) :: e2)
  | o :: os' =>
      let '(s1, e1) := lapi s o in
      let '(s2, e2) := lrun s1 os' beh in (s2, e1 ++ e2)
  end.
