(* Model of src/unix/process.c (Linux, fork/exec route).

   (a) uv__process_child_init's descriptor shuffle (process.c:320-380) and
       exec on an explicit descriptor table;
   (b) uv_spawn / uv__spawn_and_init_child (process.c:860-1093): creation of
       the stdio pairs and of the error pipe, the error paths and their
       closes, the exec_errorno protocol, activation;
   (c) uv__wait_children (process.c:101-177) over a waitpid oracle, status
       decoding.

   Trusted base of the table part: the POSIX rules "a new descriptor is the
   lowest free one (at or above the given minimum for F_DUPFD)", "dup2 and
   open/dup clear FD_CLOEXEC on the new descriptor", "exec closes the
   FD_CLOEXEC descriptors".  No proofs here. *)
From UV Require Import Lib.Base.

(* ------------------------------------------------------------------ *)
(* Descriptor tables                                                    *)
(* ------------------------------------------------------------------ *)

(* an open descriptor: the open file it refers to (an identity: device/inode
   in the correspondence check) and its FD_CLOEXEC flag *)
Record entry := mkE { e_file : nat; e_cx : bool }.

(* descriptor number -> entry; index = descriptor, None = closed; numbers
   beyond the end are closed *)
Definition tbl := list (option entry).

Definition get (t : tbl) (fd : nat) : option entry := nth fd t None.

Fixpoint set (t : tbl) (fd : nat) (v : option entry) : tbl :=
  match fd, t with
  | O, [] => [v]
  | O, _ :: r => v :: r
  | S n, [] => None :: set [] n v
  | S n, x :: r => x :: set r n v
  end.

Definition is_none {A} (o : option A) : bool :=
  match o with None => true | Some _ => false end.

(* lowest closed descriptor >= min; [s] is the part of the table from index [i] *)
Fixpoint lowest_free_from (s : tbl) (i min : nat) : nat :=
  match s with
  | [] => Nat.max i min
  | x :: r => if (min <=? i) && is_none x then i else lowest_free_from r (S i) min
  end.
Definition lowest_free (t : tbl) (min : nat) : nat := lowest_free_from t 0 min.

Definition devnull : nat := 0.       (* the file id of /dev/null *)

(* close(fd) (result ignored by all callers modelled here) *)
Definition close (t : tbl) (fd : nat) : tbl := set t fd None.
Definition close_opt (t : tbl) (fd : option nat) : tbl :=
  match fd with Some n => close t n | None => t end.

(* a new descriptor for [file] at the lowest free number >= min *)
Definition alloc (t : tbl) (min file : nat) (cx : bool) : tbl * nat :=
  let r := lowest_free t min in (set t r (Some (mkE file cx)), r).

(* open(path, flags without O_CLOEXEC) *)
Definition open_ (t : tbl) (file : nat) : tbl * nat := alloc t 0 file false.

(* fcntl(fd, F_DUPFD_CLOEXEC, min); None = EBADF *)
Definition dupfd_cloexec (t : tbl) (fd min : nat) : option (tbl * nat) :=
  match get t fd with
  | None => None
  | Some e => Some (alloc t min (e_file e) true)
  end.

(* dup2(old, new); None = EBADF; old = new leaves the descriptor untouched *)
Definition dup2 (t : tbl) (old new : nat) : option tbl :=
  match get t old with
  | None => None
  | Some e => if old =? new then Some t else Some (set t new (Some (mkE (e_file e) false)))
  end.

(* uv__cloexec(fd, b): fcntl(F_SETFD); None = EBADF *)
Definition set_cloexec (t : tbl) (fd : nat) (b : bool) : option tbl :=
  match get t fd with
  | None => None
  | Some e => Some (set t fd (Some (mkE (e_file e) b)))
  end.

(* execve: FD_CLOEXEC descriptors are closed *)
Definition exec_entry (o : option entry) : option entry :=
  match o with
  | Some e => if e_cx e then None else Some e
  | None => None
  end.
Definition exec (t : tbl) : tbl := map exec_entry t.

(* the open descriptors, for printing *)
Fixpoint dump_from (s : tbl) (i : nat) : list (nat * entry) :=
  match s with
  | [] => []
  | Some e :: r => (i, e) :: dump_from r (S i)
  | None :: r => dump_from r (S i)
  end.
Definition dump (t : tbl) : list (nat * entry) := dump_from t 0.

(* ------------------------------------------------------------------ *)
(* uv_disable_stdio_inheritance (core.c:805-814)                         *)
(* ------------------------------------------------------------------ *)
(* for (fd = 0; ; fd++) if (uv__cloexec(fd, 1) && fd > 15) break;
   every descriptor from 0 is tried; the loop ends at the first number above 15
   on which fcntl fails (not open).  [fuel] bounds the walk: numbers beyond the
   end of the table are closed. *)
Fixpoint disable_from (fuel fd : nat) (t : tbl) : tbl :=
  match fuel with
  | O => t
  | S f =>
      match set_cloexec t fd true with
      | Some t1 => disable_from f (S fd) t1
      | None => if (15 <? fd)%nat then t else disable_from f (S fd) t
      end
  end.

Definition disable_stdio_inheritance (t : tbl) : tbl := disable_from (17 + length t) 0 t.

(* ------------------------------------------------------------------ *)
(* (a) uv__process_child_init                                           *)
(* ------------------------------------------------------------------ *)
Local Open Scope Z_scope.

Definition EBADF : Z := 9.
Definition UV_EINVAL : Z := -22.
Definition UV_ENFILE : Z := -23.
Definition UV_EMFILE : Z := -24.
Definition UV_EAGAIN : Z := -11.

(* the child either reaches a successful exec with this table, or stops in
   uv__write_errno/uv__write_int(error_fd, err) with the table of that moment
   and the value error_fd has at that moment *)
Inductive cres :=
| CExec (t : tbl)
| CFail (t : tbl) (efd : nat) (err : Z).

Inductive res (A : Type) :=
| Ok (a : A)
| Fail (t : tbl) (err : Z).
Arguments Ok {A} a.
Arguments Fail {A} t err.

(* process.c:324-340.  [us] = pipes[fd..][1] (None = -1), [sc] = stdio_count *)
Fixpoint pass1 (sc fd : nat) (us : list (option nat)) (t : tbl)
  : res (tbl * list (option nat)) :=
  match us with
  | [] => Ok (t, [])
  | u :: rest =>
      match u with
      | Some use_fd =>
          if (use_fd <? fd)%nat then
            match dupfd_cloexec t use_fd sc with
            | None => Fail t (- EBADF)
            | Some (t1, r) =>
                match pass1 sc (S fd) rest t1 with
                | Ok (t2, l) => Ok (t2, Some r :: l)
                | Fail t2 e => Fail t2 e
                end
            end
          else
            match pass1 sc (S fd) rest t with
            | Ok (t2, l) => Ok (t2, u :: l)
            | Fail t2 e => Fail t2 e
            end
      | None =>
          match pass1 sc (S fd) rest t with
          | Ok (t2, l) => Ok (t2, None :: l)
          | Fail t2 e => Fail t2 e
          end
      end
  end.

(* process.c:343-379, one iteration *)
Definition step2 (sc fd : nat) (u : option nat) (t : tbl) : res tbl :=
  match u with
  | None =>
      if (3 <=? fd)%nat then Ok t
      else
        let t1 := close t fd in                      (* uv__close_nocheckstdio(fd) *)
        let '(t2, r) := open_ t1 devnull in          (* use_fd = close_fd = r *)
        let t3 := if (fd =? r)%nat then Some t2 else dup2 t2 r fd in
        match t3 with
        | None => Fail t2 (- EBADF)
        | Some t3 => Ok (if (sc <=? r)%nat then close t3 r else t3)
        end
  | Some use_fd =>
      if (fd =? use_fd)%nat then
        match set_cloexec t use_fd false with
        | None => Fail t (- EBADF)
        | Some t1 => Ok t1
        end
      else
        match dup2 t use_fd fd with
        | None => Fail t (- EBADF)
        | Some t1 => Ok t1
        end
  end.

Fixpoint pass2 (sc fd : nat) (us : list (option nat)) (t : tbl) : res tbl :=
  match us with
  | [] => Ok t
  | u :: rest =>
      match step2 sc fd u t with
      | Ok t1 => pass2 sc (S fd) rest t1
      | Fail t1 e => Fail t1 e
      end
  end.

(* process.c:320-337 (commit a79de05): the error pipe is created after the
   stdio pairs, so its number can be below stdio_count; it is moved above
   first.  None = the fcntl failed (uv__write_errno on the old number). *)
Definition move_efd (sc efd : nat) (t : tbl) : option (tbl * nat) :=
  if (efd <? sc)%nat then dupfd_cloexec t efd sc else Some (t, efd).

(* [us]: one element per slot 0..stdio_count-1; [efd]: error_fd; [exec_err]:
   errno of execvp, None when it succeeds.  cwd/uid/gid/signals are not modelled. *)
Definition child_init (us : list (option nat)) (efd : nat) (exec_err : option Z) (t : tbl)
  : cres :=
  let sc := length us in
  match move_efd sc efd t with
  | None => CFail t efd (- EBADF)
  | Some (t0, efd1) =>
      match pass1 sc 0 us t0 with
      | Fail t1 e => CFail t1 efd1 e
      | Ok (t1, us1) =>
          match pass2 sc 0 us1 t1 with
          | Fail t2 e => CFail t2 efd1 e
          | Ok t2 =>
              match exec_err with
              | None => CExec (exec t2)
              | Some e => CFail t2 efd1 (- e)
              end
          end
      end
  end.

(* ------------------------------------------------------------------ *)
(* (c) waitpid answers and status words                                  *)
(* ------------------------------------------------------------------ *)
Inductive wans :=
| WEintr               (* -1, EINTR *)
| WZero                (* 0: not exited yet (WNOHANG) *)
| WEchild              (* -1, ECHILD *)
| WPid (status : Z)    (* the pid; status word *)
| WOther.              (* -1, another errno: abort() *)

(* glibc's <bits/waitstatus.h> *)
Definition WTERMSIG (s : Z) : Z := Z.land s 127.
Definition WEXITSTATUS (s : Z) : Z := Z.shiftr (Z.land s 65280) 8.
Definition WIFEXITED (s : Z) : bool := WTERMSIG s =? 0.
(* ((signed char) ((s & 0x7f) + 1) >> 1) > 0 *)
Definition WIFSIGNALED (s : Z) : bool :=
  let t := Z.land s 127 + 1 in
  let sc := if 128 <=? t then t - 256 else t in
  0 <? Z.shiftr sc 1.

(* process.c:166-172 *)
Definition decode (s : Z) : Z * Z :=
  (if WIFEXITED s then WEXITSTATUS s else 0,
   if WIFSIGNALED s then WTERMSIG s else 0).

(* do waitpid while (-1 && EINTR): first answer that is not EINTR; None when
   the oracle is exhausted *)
Fixpoint wait_retry (o : list wans) : option wans * list wans :=
  match o with
  | [] => (None, [])
  | WEintr :: r => wait_retry r
  | a :: r => (Some a, r)
  end.

(* ------------------------------------------------------------------ *)
(* the calling thread's signal mask around fork (process.c:819-858)      *)
(* ------------------------------------------------------------------ *)
(* index = signal number (0 unused), true = blocked *)
Definition sigmask := list bool.

(* sigfillset minus KILL STOP TRAP SEGV BUS ILL SYS ABRT (and glibc's two
   internal signals 32, 33, which sigfillset/pthread_sigmask leave alone) *)
Definition fork_blocked (sig : nat) : bool :=
  negb (existsb (Nat.eqb sig) [9; 19; 5; 11; 7; 4; 31; 6; 32; 33])%nat.

Fixpoint block_from (i : nat) (m : sigmask) : sigmask :=
  match m with
  | [] => []
  | b :: r => (b || ((1 <=? i)%nat && fork_blocked i)) :: block_from (S i) r
  end.

(* uv__spawn_and_init_child_fork: returns the mask the forked child starts
   with (None: fork failed) and the caller's mask on return *)
Definition fork_sigmask (m : sigmask) (fork_fail : bool) : option sigmask * sigmask :=
  let sigoldset := m in
  let during := block_from 0 m in          (* pthread_sigmask(SIG_BLOCK, &signewset, &sigoldset) *)
  let child := if fork_fail then None else Some during in   (* fork() *)
  (child, sigoldset).                      (* pthread_sigmask(SIG_SETMASK, &sigoldset, NULL),
                                              before the test of *pid == -1 *)

(* ------------------------------------------------------------------ *)
(* credentials: UV_PROCESS_SETGID / UV_PROCESS_SETUID (process.c:404-419)  *)
(* ------------------------------------------------------------------ *)
(* real, effective, saved id *)
Record creds := mkC { c_r : nat; c_e : nat; c_s : nat }.

(* setuid(2)/setgid(2) on Linux (trusted base): a privileged caller (effective
   uid 0, i.e. CAP_SETUID/CAP_SETGID) gets all three ids set; an unprivileged
   one may only make its real or saved id effective; otherwise EPERM (None) *)
Definition setid (c : creds) (privileged : bool) (id : nat) : option creds :=
  if privileged then Some (mkC id id id)
  else if (id =? c_r c)%nat || (id =? c_s c)%nat then Some (mkC (c_r c) id (c_s c))
  else None.

(* the child after the shuffle: setgid first (still with the old uid), then
   setuid; each only when its flag is set, never skipped because an id "is
   already" the requested one.  None = EPERM (uv__write_errno). *)
Definition child_creds (uc gc : creds) (set_gid set_uid : option nat) : option (creds * creds) :=
  match (match set_gid with
         | Some g => setid gc (c_e uc =? 0)%nat g
         | None => Some gc
         end) with
  | None => None
  | Some gc1 =>
      match (match set_uid with
             | Some u => setid uc (c_e uc =? 0)%nat u
             | None => Some uc
             end) with
      | None => None
      | Some uc1 => Some (uc1, gc1)
      end
  end.

Definition EPERM : Z := 1.

(* execve: the saved set-user/group-ID becomes a copy of the effective one *)
Definition exec_creds (c : creds) : creds := mkC (c_r c) (c_e c) (c_e c).

(* ------------------------------------------------------------------ *)
(* (b) uv_spawn                                                          *)
(* ------------------------------------------------------------------ *)
Inductive stdio :=
| SIgnore                 (* UV_IGNORE *)
| SPipe                   (* UV_CREATE_PIPE with a uv_pipe_t *)
| SFd (fd : nat)          (* UV_INHERIT_FD / UV_INHERIT_STREAM *)
| SBad.                   (* UV_INHERIT_FD of -1, CREATE_PIPE of a non-pipe: UV_EINVAL *)

Record spec := mkSpec {
  s_tbl : tbl;                 (* the parent's table on entry *)
  s_stdio : list stdio;        (* options->stdio[0 .. options->stdio_count-1] *)
  s_cb : bool;                 (* options->exit_cb != NULL *)
  s_pid : nat;                 (* what fork() returns *)
  s_fresh : nat;               (* file ids >= s_fresh are unused *)
  s_sp_fail : option nat;      (* this socketpair() call (0-based) fails with ENFILE *)
  s_pipe_fail : bool;          (* pipe2() of the error pipe fails with EMFILE *)
  s_fork_fail : bool;          (* fork() fails with EAGAIN *)
  s_exec_err : option Z;       (* errno of execvp, None = success *)
  s_mask : sigmask;            (* the calling thread's signal mask on entry *)
  s_uid : creds;               (* the caller's real/effective/saved uid *)
  s_gid : creds;               (* ... gid *)
  s_setuid : option nat;       (* UV_PROCESS_SETUID with options->uid *)
  s_setgid : option nat        (* UV_PROCESS_SETGID with options->gid *)
}.

(* what stops the child after the shuffle: EPERM from setgid/setuid, else the
   errno of execvp; both are reported by uv__write_errno(error_fd) with the
   same table *)
Definition eff_exec_err (s : spec) : option Z :=
  match child_creds (s_uid s) (s_gid s) (s_setgid s) (s_setuid s) with
  | None => Some EPERM
  | Some _ => s_exec_err s
  end.

Definition pipes := list (option nat * option nat).

(* uv_spawn:1012-1016 with uv__process_init_stdio.  Returns the table, the
   pipes[][] rows filled so far, the next fresh file id, the number of
   socketpair calls made and the error that stopped the loop. *)
Fixpoint init_stdio (cs : list stdio) (t : tbl) (fresh nsp : nat) (spf : option nat)
  : tbl * pipes * nat * option Z :=
  match cs with
  | [] => (t, [], fresh, None)
  | c :: r =>
      match c with
      | SIgnore =>
          let '(t1, ps, f1, e) := init_stdio r t fresh nsp spf in
          (t1, (None, None) :: ps, f1, e)
      | SFd fd =>
          let '(t1, ps, f1, e) := init_stdio r t fresh nsp spf in
          (t1, (None, Some fd) :: ps, f1, e)
      | SBad => (t, [], fresh, Some UV_EINVAL)
      | SPipe =>
          if match spf with Some k => (k =? nsp)%nat | None => false end
          then (t, [], fresh, Some UV_ENFILE)
          else
            let '(t1, a) := alloc t 0 fresh true in           (* SOCK_CLOEXEC *)
            let '(t2, b) := alloc t1 0 (S fresh) true in
            let '(t3, ps, f1, e) := init_stdio r t2 (S (S fresh)) (S nsp) spf in
            (t3, (Some a, Some b) :: ps, f1, e)
      end
  end.

(* the cleanup after "error:" (1075-1089): rows of inherited slots are skipped *)
Fixpoint error_closes (cs : list stdio) (ps : pipes) (t : tbl) : tbl :=
  match cs, ps with
  | c :: cr, (a, b) :: pr =>
      let t1 := match c with
                | SFd _ => t
                | _ => close_opt (close_opt t a) b
                end in
      error_closes cr pr t1
  | _, _ => t
  end.

(* rows up to max(stdio_count, 3) *)
Fixpoint pad3 (n : nat) (us : list (option nat)) : list (option nat) :=
  match n with
  | O => us
  | S n' => match us with
            | [] => None :: pad3 n' []
            | u :: r => u :: pad3 n' r
            end
  end.

(* uv__process_open_stream over all slots (1059-1068; uv__stream_open is
   assumed to succeed): close the child's end, the stream keeps the parent's *)
Fixpoint open_streams (cs : list stdio) (ps : pipes) (i : nat) (t : tbl)
  : tbl * list (nat * nat) :=
  match cs, ps with
  | c :: cr, (a, b) :: pr =>
      match c, a with
      | SPipe, Some pa =>
          let '(t1, l) := open_streams cr pr (S i) (close_opt t b) in
          (t1, (i, pa) :: l)
      | _, _ => open_streams cr pr (S i) t
      end
  | _, _ => (t, [])
  end.

Record sres := mkRes {
  r_ret : Z;                        (* what uv_spawn returns *)
  r_active : bool;                  (* handle queued in loop->process_handles *)
  r_ptbl : tbl;                     (* parent's table on return *)
  r_child : option cres;            (* the forked child, if any *)
  r_streams : list (nat * nat);     (* (slot, descriptor) handed to uv__stream_open *)
  r_wrote : option (option nat * Z);(* failing child: file the error int went to (None = EBADF) *)
  r_reaped : option (option wans);  (* blocking waitpid of a child whose exec failed *)
  r_mask : sigmask;                 (* the calling thread's signal mask on return *)
  r_child_mask : option sigmask;    (* the mask the forked child starts with (it empties it
                                       just before exec, process.c:405-408) *)
  r_creds : option (creds * creds); (* uid and gid triples of the exec'ed child *)
  r_trip : bool                     (* an assert-enabled build aborts inside uv_spawn:
                                       uv__close() of a descriptor <= 2 (core.c:651) *)
}.

(* Since /repo 298b4fa every close() the parent does inside uv_spawn goes through
   uv__close_nocheckstdio (error pipe: both ends; stdio pairs: the child's end
   in uv__process_open_stream, all rows on the error path), so no descriptor
   reaches the checking uv__close(): *)
Definition checked_closes (t : tbl) (ps : pipes) : list nat := [].

(* uv__spawn_and_init_child (860-963) on the table after init_stdio.
   Returns exec_errorno, the parent's table, the child, where the child wrote,
   the blocking wait's answer, the remaining oracle. *)
Definition spawn_child (t : tbl) (us : list (option nat)) (fresh : nat)
           (pipe_fail fork_fail : bool) (exec_err : option Z) (wo : list wans)
  : Z * tbl * option cres * option (option nat * Z) * option (option wans) * list wans :=
  if pipe_fail then (UV_EMFILE, t, None, None, None, wo) else
  let '(t1, rfd) := alloc t 0 fresh true in            (* pipe2(O_CLOEXEC) *)
  let '(t2, wfd) := alloc t1 0 (S fresh) true in
  if fork_fail then (UV_EAGAIN, close (close t2 wfd) rfd, None, None, None, wo) else
  let c := child_init us wfd exec_err t2 in            (* the child works on a copy *)
  let tp := close t2 wfd in
  match c with
  | CExec _ => (0, close tp rfd, Some c, None, None, wo)      (* r == 0: EOF *)
  | CFail tc efd e =>
      match get tc efd with
      | Some w =>
          if (e_file w =? S fresh)%nat then
            (* the int arrives: r == sizeof(int); reap the child *)
            let '(a, wo1) := wait_retry wo in
            (e, close tp rfd, Some c, Some (Some (e_file w), e), Some a, wo1)
          else
            (* error_fd names another file: the parent sees EOF *)
            (0, close tp rfd, Some c, Some (Some (e_file w), e), None, wo)
      | None => (0, close tp rfd, Some c, Some (None, e), None, wo)
      end
  end.

Definition uv_spawn (s : spec) (wo : list wans) : sres * list wans :=
  let '(t1, ps, fresh1, err) := init_stdio (s_stdio s) (s_tbl s) (s_fresh s) 0 (s_sp_fail s) in
  match err with
  | Some e =>
      (mkRes e false (error_closes (s_stdio s) ps t1) None [] None None (s_mask s) None None false, wo)
  | None =>
      let us := pad3 3 (map snd ps) in
      let '(eno, t2, c, wrote, reaped, wo1) :=
        spawn_child t1 us fresh1 (s_pipe_fail s) (s_fork_fail s) (eff_exec_err s) wo in
      let '(t3, streams) := open_streams (s_stdio s) ps 0 t2 in
      (* the mask: untouched when pipe2 failed (uv__spawn_and_init_child returns at 923-924) *)
      let masks := if s_pipe_fail s then (None, s_mask s)
                   else fork_sigmask (s_mask s) (s_fork_fail s) in
      let cr := match c with
                | Some (CExec _) =>
                    match child_creds (s_uid s) (s_gid s) (s_setgid s) (s_setuid s) with
                    | Some (u, g) => Some (exec_creds u, exec_creds g)
                    | None => None
                    end
                | _ => None
                end in
      let trip := existsb (fun fd => (fd <=? 2)%nat) (checked_closes t1 ps) in
      (mkRes eno (eno =? 0) t3 c streams wrote reaped (snd masks) (fst masks) cr trip, wo1)
  end.

(* ------------------------------------------------------------------ *)
(* uv_kill / uv_process_kill (process.c:1119-1136)                       *)
(* ------------------------------------------------------------------ *)
Inductive kans :=
| KOk                  (* kill(2) returned 0 *)
| KErr (errno : Z).    (* -1 with this errno *)

(* the kill(2) call made (pid and signal exactly as given: positive pid, 0,
   or a negative one naming a process group) and the value returned *)
Definition uv_kill (pid sig : Z) (a : kans) : (Z * Z) * Z :=
  ((pid, sig), match a with KOk => 0 | KErr e => - e end).

Definition uv_process_kill (process_pid sig : Z) (a : kans) : (Z * Z) * Z :=
  uv_kill process_pid sig a.

(* ------------------------------------------------------------------ *)
(* (c) uv__wait_children and the loop-level script                       *)
(* ------------------------------------------------------------------ *)
Record proc := mkP { p_h : nat; p_pid : nat; p_cb : bool }.

Inductive event :=
| ESpawn (h : nat) (r : sres)
| EWait (h : nat) (a : wans)         (* an answer consumed by waitpid(pid, WNOHANG) *)
| EReap (h : nat) (status : Z) (cb : bool) (* process->status = status; moved to pending; cb: exit_cb != NULL *)
| EStop (h : nat)                    (* uv__handle_stop *)
| EExit (h : nat) (es ts : Z)        (* exit_cb(process, es, ts) *)
| EShort                             (* oracle exhausted inside a scan *)
| EExtra                             (* answers left over after a scan *)
| EAbort.

(* first loop of uv__wait_children: returns the processes that stay queued,
   the pending ones with their status, the events, the unused answers, and
   whether abort() was reached *)
Fixpoint collect (q : list proc) (o : list wans)
  : list proc * list (proc * Z) * list event * list wans * bool :=
  match q with
  | [] => ([], [], [], o, false)
  | p :: rest =>
      let '(a, o1) := wait_retry o in
      match a with
      | None => (q, [], [EShort], [], false)
      | Some WZero | Some WEchild | Some WEintr =>
          let '(keep, pend, ev, o2, ab) := collect rest o1 in
          (p :: keep, pend,
           EWait (p_h p) (match a with Some x => x | None => WZero end) :: ev, o2, ab)
      | Some WOther => (q, [], [EWait (p_h p) WOther; EAbort], o1, true)
      | Some (WPid st) =>
          let '(keep, pend, ev, o2, ab) := collect rest o1 in
          (keep, (p, st) :: pend, EWait (p_h p) (WPid st) :: EReap (p_h p) st (p_cb p) :: ev, o2, ab)
      end
  end.

(* second loop *)
Fixpoint deliver (pend : list (proc * Z)) : list event :=
  match pend with
  | [] => []
  | (p, st) :: rest =>
      EStop (p_h p) ::
      (if p_cb p then [EExit (p_h p) (fst (decode st)) (snd (decode st))] else [])
      ++ deliver rest
  end.

Record lstate := mkL { l_q : list proc; l_abort : bool }.

Definition wait_children (s : lstate) (o : list wans) : lstate * list event :=
  let '(keep, pend, ev, o1, ab) := collect (l_q s) o in
  if ab then (mkL keep true, ev)
  else (mkL keep false,
        ev ++ deliver pend ++ (match o1 with [] => [] | _ => [EExtra] end)).

Inductive op :=
| OSpawn (h : nat) (s : spec) (wo : list wans)   (* uv_spawn; [wo] serves the blocking wait *)
| OScan (o : list wans)                         (* one uv__wait_children call *)
| OClose (h : nat).                             (* uv_close(process): uv__process_close *)

Definition step (s : lstate) (o : op) : lstate * list event :=
  if l_abort s then (s, []) else
  match o with
  | OSpawn h sp wo =>
      let '(r, _) := uv_spawn sp wo in
      (mkL (if r_active r then l_q s ++ [mkP h (s_pid sp) (s_cb sp)] else l_q s) false,
       [ESpawn h r])
  | OScan ans => wait_children s ans
  | OClose h => (mkL (filter (fun p => negb (p_h p =? h)%nat) (l_q s)) false, [])
  end.

Fixpoint run (s : lstate) (ops : list op) : lstate * list event :=
  match ops with
  | [] => (s, [])
  | o :: r => let '(s1, e1) := step s o in
              let '(s2, e2) := run s1 r in (s2, e1 ++ e2)
  end.

Definition linit : lstate := mkL [] false.
