(* C07 (accept side): executable model of the descriptor hand-over in
   src/unix/stream.c and src/unix/pipe.c of the pinned tree.

     uv__stream_queue_fd   stream.c:942-981   -> queue_fd, q_put, q_grow
     uv__stream_recv_cmsg  stream.c:984-1022  -> recv_cmsg
     uv__emfile_trick      stream.c:484-505   -> shed (the accept-and-close loop)
     uv__server_io         stream.c:508-533   -> server_io
     uv_accept             stream.c:536-598   -> uv_accept, q_pop (the memmove shift)
     uv__stream_close      stream.c:1571-1620 -> stream_close (descriptor part)
     uv_pipe_pending_count/type  pipe.c       -> pending_count, pending_type
     uv__accept (core.c:559-589) -> accept_retry (EINTR retry)

   Descriptors are integers >= 0 (the check renames them to the identity of the
   connection / of the sent descriptor).  Everything that leaves libuv is an
   oracle: the answers of accept4(2), the result of the malloc/realloc calls of
   uv__stream_queue_fd, the result of re-opening the spare descriptor, and
   uv_guess_handle (a function [kind]).  User callbacks are a script
   [beh : nat -> list op] indexed by the callback's occurrence number.
   No proofs in this file. *)
From UV Require Import Lib.Base.
Local Open Scope Z_scope.

Definition UV_EAGAIN : Z := -11.
Definition UV_ENOMEM : Z := -12.
Definition UV_EBUSY : Z := -16.
Definition UV_EINVAL : Z := -22.
Definition UV_ENFILE : Z := -23.
Definition UV_EMFILE : Z := -24.

(* ------------------------------------------------------------------ *)
(* uv__stream_queued_fds_t: { unsigned size; unsigned offset; int fds[size] } *)
Record qarr := mkQ { q_size : nat; q_offset : nat; q_fds : list Z }.

(* queued_fds->fds[queued_fds->offset++] = fd *)
Definition q_put (a : qarr) (fd : Z) : qarr :=
  mkQ (q_size a) (S (q_offset a)) (upd (q_offset a) (fun _ => fd) (q_fds a)).

(* uv__realloc to size + 8 slots: the old contents are kept, the new slots are
   whatever the allocator left there (0 here; never read before written). *)
Definition q_grow (a : qarr) : qarr :=
  let n := (q_size a + 8)%nat in
  mkQ n (q_offset a) (firstn n (q_fds a) ++ repeat 0 (n - length (q_fds a))).

Definition next_bool (al : list bool) : bool * list bool :=
  match al with [] => (true, []) | b :: r => (b, r) end.

(* uv__stream_queue_fd; [al] = answers of the allocator (true = success),
   consumed only when the function allocates. *)
Definition queue_fd (q : option qarr) (fd : Z) (al : list bool)
  : option qarr * Z * list bool :=
  match q with
  | None =>
      let (ok, al') := next_bool al in
      if ok then (Some (q_put (mkQ 8 0 (repeat 0 8%nat)) fd), 0, al')
      else (None, UV_ENOMEM, al')
  | Some a =>
      if Nat.eqb (q_size a) (q_offset a) then
        let (ok, al') := next_bool al in
        if ok then (Some (q_put (q_grow a) fd), 0, al')
        else (Some a, UV_ENOMEM, al')
      else (Some (q_put a fd), 0, al)
  end.

(* uv_accept, "Process queued fds": read fds[0]; --offset; free when 0, else
   memmove(fds, fds + 1, offset * sizeof(int)). *)
Definition q_pop (a : qarr) : Z * option qarr :=
  let fd := nth 0 (q_fds a) (-1) in
  let off := pred (q_offset a) in
  if Nat.eqb off 0 then (fd, None)
  else (fd, Some (mkQ (q_size a) off
                      (firstn off (skipn 1 (q_fds a)) ++ skipn off (q_fds a)))).

(* ------------------------------------------------------------------ *)
(* the fields of uv_stream_t this property is about *)
Record stream := mkS {
  s_acc : Z;               (* accepted_fd, -1 = none *)
  s_q : option qarr;       (* queued_fds *)
  s_pollin : bool;         (* POLLIN requested on io_watcher *)
  s_closing : bool;
  s_ipc : bool;            (* uv_pipe_t with ipc = 1 (reading); false: listening server *)
  s_rearm : bool           (* variant: false = the current uv_accept (POLLIN re-armed only if (err == 0));
                              true = the code with notes/C07_fix_accept_rearm.diff (guard dropped) *)
}.

Definition set_acc (s : stream) (f : Z) := mkS f (s_q s) (s_pollin s) (s_closing s) (s_ipc s) (s_rearm s).
Definition set_q (s : stream) (q : option qarr) := mkS (s_acc s) q (s_pollin s) (s_closing s) (s_ipc s) (s_rearm s).
Definition set_pollin (s : stream) (b : bool) := mkS (s_acc s) (s_q s) b (s_closing s) (s_ipc s) (s_rearm s).

Inductive ev :=
| EKeep (f : Z)      (* the kernel handed f to libuv (accept4 / SCM_RIGHTS) and libuv stored it *)
| EShed (f : Z)      (* handed to libuv and closed at once (EMFILE trick, UV_ENOMEM) *)
| ECb                (* connection_cb(server, 0) *)
| EClaim (f : Z)     (* uv_accept gave f to the client handle *)
| EDrop (f : Z)      (* uv_accept failed and closed f *)
| EShutC (f : Z)     (* closed by uv_close of the holding stream *)
| ERet (c : Z)       (* return value of uv_accept *)
| ECount (n : Z)     (* uv_pipe_pending_count *)
| EType (k : Z)      (* uv_pipe_pending_type *)
| ERead (c : Z).     (* read_cb: 1 = data, < 0 = error code *)

(* what the client handle given to uv_accept is like *)
Inductive cl :=
| ClFresh            (* initialised stream/udp handle without descriptor: open succeeds *)
| ClBusy             (* handle that already has a descriptor: uv__stream_open -> UV_EBUSY *)
| ClBadType.         (* not tcp/pipe/udp: UV_EINVAL *)

Inductive op :=
| OAccept (c : cl)
| OClose
| OCount
| OType
| ORun (readable : bool)          (* server: one loop iteration; kernel reports POLLIN or not *)
| ORecv (msgs : list (list Z)).   (* ipc pipe: one loop iteration in which recvmsg returned
                                     these messages' SCM_RIGHTS descriptors, in order *)

Definition uv_accept (s : stream) (c : cl) : stream * list ev :=
  if s_acc s =? -1 then (s, [ERet UV_EAGAIN]) else
  match c with
  | ClBadType => (s, [ERet UV_EINVAL])
  | _ =>
      let err := match c with ClFresh => 0 | _ => UV_EBUSY end in
      let e1 := match c with ClFresh => EClaim (s_acc s) | _ => EDrop (s_acc s) end in
      let s' := match s_q s with
                | Some a => let (fd, q') := q_pop a in
                            mkS fd q' (s_pollin s) (s_closing s) (s_ipc s) (s_rearm s)
                | None => mkS (-1) None (if (err =? 0) || s_rearm s then true else s_pollin s)
                              (s_closing s) (s_ipc s) (s_rearm s)
                end in
      (s', [e1; ERet err])
  end.

Definition pending_count (s : stream) : Z :=
  if negb (s_ipc s) then 0 else
  if s_acc s =? -1 then 0 else
  match s_q s with None => 1 | Some a => Z.of_nat (q_offset a) + 1 end.

Definition pending_type (kind : Z -> Z) (s : stream) : Z :=
  if negb (s_ipc s) then 0 else
  if s_acc s =? -1 then 0 else kind (s_acc s).

(* the descriptor part of uv__stream_close *)
Definition stream_close (s : stream) : stream * list ev :=
  let e1 := if s_acc s =? -1 then [] else [EShutC (s_acc s)] in
  let e2 := match s_q s with
            | None => []
            | Some a => map EShutC (firstn (q_offset a) (q_fds a))
            end in
  (mkS (-1) None false true (s_ipc s) (s_rearm s), e1 ++ e2).

(* operations a callback (or the program between loop iterations) can perform *)
Definition exec_simple (kind : Z -> Z) (s : stream) (o : op) : stream * list ev :=
  match o with
  | OAccept c => uv_accept s c
  | OClose => if s_closing s then (s, []) else stream_close s
  | OCount => (s, [ECount (pending_count s)])
  | OType => (s, [EType (pending_type kind s)])
  | _ => (s, [])
  end.

Fixpoint exec_cb (kind : Z -> Z) (s : stream) (os : list op) : stream * list ev :=
  match os with
  | [] => (s, [])
  | o :: r => let (s1, e1) := exec_simple kind s o in
              let (s2, e2) := exec_cb kind s1 r in (s2, e1 ++ e2)
  end.

(* ------------------------------------------------------------------ *)
(* accept4 answers *)
Inductive acc := AFd (f : Z) | AAgain | AIntr | AEmfile | AEnfile | AErr (e : Z).

Definition acc_code (a : acc) : Z :=
  match a with
  | AFd f => f | AAgain => UV_EAGAIN | AIntr => -4 | AEmfile => UV_EMFILE
  | AEnfile => UV_ENFILE | AErr e => e
  end.

(* accept_retry: retry while EINTR; an exhausted oracle answers EAGAIN *)
Fixpoint accept_retry (o : list acc) : acc * list acc :=
  match o with
  | [] => (AAgain, [])
  | AIntr :: r => accept_retry r
  | a :: r => (a, r)
  end.

(* the loop of uv__emfile_trick: accept and close until accept fails *)
Fixpoint shed (o : list acc) : list ev * Z * list acc :=
  match o with
  | [] => ([], UV_EAGAIN, [])
  | AIntr :: r => shed r
  | AFd f :: r => let '(e, c, r') := shed r in (EShed f :: e, c, r')
  | a :: r => ([], acc_code a, r)
  end.

Record st := mkSt {
  sv : stream;
  emf : bool;              (* loop->emfile_fd != -1 *)
  acc_o : list acc;        (* accept4 answers still to come *)
  alloc_o : list bool;     (* allocator answers for uv__stream_queue_fd *)
  open_o : list bool;      (* answers of re-opening the spare descriptor *)
  cbn : nat                (* callbacks made so far (index into the behaviour script) *)
}.

Definition server_io (kind : Z -> Z) (x : st) (beh : nat -> list op) : st * list ev :=
  let (a, r) := accept_retry (acc_o x) in
  match a with
  | AFd f =>
      let s1 := set_acc (sv x) f in
      let (s2, e) := exec_cb kind s1 (beh (cbn x)) in
      let s3 := if s_acc s2 =? -1 then s2 else set_pollin s2 false in
      (mkSt s3 (emf x) r (alloc_o x) (open_o x) (S (cbn x)), EKeep f :: ECb :: e)
  | AEmfile | AEnfile =>
      if emf x then
        let '(e, _, r') := shed r in
        let (ok, op') := next_bool (open_o x) in
        (mkSt (sv x) ok r' (alloc_o x) op' (cbn x), e)
      else (mkSt (sv x) false r (alloc_o x) (open_o x) (cbn x), [])
  | _ => (mkSt (sv x) (emf x) r (alloc_o x) (open_o x) (cbn x), [])
  end.

(* uv__stream_recv_cmsg over the descriptors of one message *)
Fixpoint recv_cmsg (s : stream) (fds : list Z) (err : Z) (al : list bool)
  : stream * Z * list bool * list ev :=
  match fds with
  | [] => (s, err, al, [])
  | fd :: r =>
      if err =? 0 then
        if s_acc s =? -1 then
          let '(s', c, al', e) := recv_cmsg (set_acc s fd) r 0 al in (s', c, al', EKeep fd :: e)
        else
          let '(q', c, al1) := queue_fd (s_q s) fd al in
          let '(s', c', al', e) := recv_cmsg (set_q s q') r c al1 in
          (s', c', al', (if c =? 0 then EKeep fd else EShed fd) :: e)
      else
        let '(s', c, al', e) := recv_cmsg s r err al in (s', c, al', EShed fd :: e)
  end.

(* the successful-read branch of uv__read for each message of this iteration *)
Fixpoint recv_msgs (kind : Z -> Z) (x : st) (msgs : list (list Z)) (beh : nat -> list op)
  : st * list ev :=
  match msgs with
  | [] => (x, [])
  | m :: r =>
      if s_pollin (sv x) && negb (s_closing (sv x)) then
        let '(s1, c, al', e1) := recv_cmsg (sv x) m 0 (alloc_o x) in
        let (s2, e2) := exec_cb kind s1 (beh (cbn x)) in
        let x' := mkSt s2 (emf x) (acc_o x) al' (open_o x) (S (cbn x)) in
        let (x'', e3) := recv_msgs kind x' r beh in
        (x'', e1 ++ ERead (if c =? 0 then 1 else c) :: e2 ++ e3)
      else recv_msgs kind x r beh
  end.

Definition step (kind : Z -> Z) (x : st) (o : op) (beh : nat -> list op) : st * list ev :=
  match o with
  | ORun readable =>
      if negb (s_ipc (sv x)) && s_pollin (sv x) && negb (s_closing (sv x)) && readable
      then server_io kind x beh else (x, [])
  | ORecv msgs =>
      if s_ipc (sv x) then recv_msgs kind x msgs beh else (x, [])
  | _ =>
      let (s', e) := exec_simple kind (sv x) o in
      (mkSt s' (emf x) (acc_o x) (alloc_o x) (open_o x) (cbn x), e)
  end.

Fixpoint run (kind : Z -> Z) (x : st) (os : list op) (beh : nat -> list op) : st * list ev :=
  match os with
  | [] => (x, [])
  | o :: r => let (x1, e1) := step kind x o beh in
              let (x2, e2) := run kind x1 r beh in (x2, e1 ++ e2)
  end.

(* a listening server after uv_listen / an ipc pipe after uv_read_start *)
Definition init_v (rearm : bool) (ipc : bool) (ao : list acc) (al : list bool) (oo : list bool) : st :=
  mkSt (mkS (-1) None true false ipc rearm) true ao al oo 0.
(* the current code *)
Definition init := init_v false.

(* descriptors the stream holds, in the order uv_accept will hand them out *)
Definition held (s : stream) : list Z :=
  (if s_acc s =? -1 then [] else [s_acc s]) ++
  match s_q s with None => [] | Some a => firstn (q_offset a) (q_fds a) end.
