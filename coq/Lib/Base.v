(* Shared prelude: imports, lia set-up, 64-bit word helpers. No proofs of
   properties here; models import this file only. *)
From Coq Require Export List Bool Arith ZArith NArith PArith Lia.
From Coq Require Export ZifyBool ZifyNat ZifyN.
Export ListNotations.

Ltac Zify.zify_post_hook ::= Z.div_mod_to_equations.

Definition two64 : Z := 18446744073709551616%Z.
Definition two32 : Z := 4294967296%Z.
Definition wrap64 (z : Z) : Z := (z mod two64)%Z.
Definition wrap32 (z : Z) : Z := (z mod two32)%Z.
Definition max64 : Z := (two64 - 1)%Z.
Definition int_max : Z := 2147483647%Z.

(* Update the n-th element of a list (no-op when out of range). *)
Fixpoint upd {A} (n : nat) (f : A -> A) (l : list A) : list A :=
  match l, n with
  | [], _ => []
  | x :: xs, O => f x :: xs
  | x :: xs, S n' => x :: upd n' f xs
  end.

Lemma upd_length {A} n (f : A -> A) l : length (upd n f l) = length l.
Proof. revert n; induction l as [|x xs IH]; intros [|n]; simpl; auto. Qed.

Lemma nth_error_upd_same {A} n (f : A -> A) l x :
  nth_error l n = Some x -> nth_error (upd n f l) n = Some (f x).
Proof.
  revert n; induction l as [|y ys IH]; intros [|n]; simpl; try discriminate.
  - intros H; inversion H; reflexivity.
  - apply IH.
Qed.

Lemma nth_error_upd_other {A} n m (f : A -> A) l :
  n <> m -> nth_error (upd n f l) m = nth_error l m.
Proof.
  revert n m; induction l as [|y ys IH]; intros [|n] [|m] H; simpl; auto.
  - congruence.
Qed.
