import sys
name, path = sys.argv[1], sys.argv[2]
p = path + '/src/unix/async.c'
s = open(p).read()
def rep(a, b, cnt=1):
    global s
    assert s.count(a) >= 1, (name, a)
    s = s.replace(a, b, cnt)
if name == 'M1_drain_after_scan':
    # move the read loop after the scan
    a = s.index('#if UV__KQUEUE_EVFILT_USER\n  for (;!kqueue_evfilt_user_support;) {')
    b = s.index('  uv__queue_move(&loop->async_handles, &queue);\n  while (!uv__queue_empty(&queue)) {\n    q = uv__queue_head(&queue);\n    h = uv__queue_data(q, uv_async_t, queue);\n\n    uv__queue_remove(q);\n    uv__queue_insert_tail(&loop->async_handles, q);\n')
    drain = s[a:b]
    s = s[:a] + s[b:]
    # insert the drain before the closing brace of uv__async_io
    c = s.index('    h->async_cb(h);\n  }\n}') + len('    h->async_cb(h);\n  }\n')
    s = s[:c] + '\n' + drain + s[c:]
elif name == 'M2_skip_write_when_other_busy':
    rep('  if (atomic_exchange(pending, 1) == 0)\n    uv__async_send(handle->loop);',
        '  if (atomic_exchange(pending, 1) == 0)\n    if (atomic_load(busy) == 1)\n      uv__async_send(handle->loop);')
elif name == 'M3_clear_after_cb':
    rep('    if (atomic_exchange(pending, 0) == 0)\n      continue;', '    if (atomic_load(pending) == 0)\n      continue;')
    rep('    h->async_cb(h);\n  }', '    h->async_cb(h);\n    atomic_store(pending, 0);\n  }')
elif name == 'M4_spin_gives_up':
    rep('    sched_yield();\n  }', '    return;\n  }')
elif name == 'M5_no_pending_store_in_close':
    rep('  atomic_store(pending, 1);\n\n  for (;;) {', '  for (;;) {')
elif name == 'M8_no_busy_dec':
    rep('  atomic_fetch_add(busy, -1);\n', '  if (0) atomic_fetch_add(busy, -1);\n')
elif name == 'M11_no_unlink':
    rep('  uv__async_spin(handle);\n  uv__queue_remove(&handle->queue);\n  uv__handle_stop(handle);', '  uv__async_spin(handle);\n  uv__handle_stop(handle);')
elif name == 'M12_cheap_check_inverted_window':
    # skip the write when pending was 0 but busy shows we are alone and the eventfd "must" be set: wrong shortcut
    rep('  if (atomic_exchange(pending, 1) == 0)\n    uv__async_send(handle->loop);',
        '  if (atomic_exchange(pending, 1) == 0 && handle->loop->async_io_watcher.fd >= 0)\n    uv__async_send(handle->loop);')
elif name == 'M7_write_before_exchange':
    rep('  if (atomic_exchange(pending, 1) == 0)\n    uv__async_send(handle->loop);',
        '  if (atomic_load(pending) == 0)\n    uv__async_send(handle->loop);\n  atomic_exchange(pending, 1);')
elif name == 'M13_read_loop_never_ends':
    rep('    if (errno == EAGAIN || errno == EWOULDBLOCK)\n      break;\n\n    if (errno == EINTR)', '    if (errno == EAGAIN || errno == EWOULDBLOCK)\n      continue;\n\n    if (errno == EINTR)')
elif name == 'M14_read_loop_spins':
    rep('    if (errno == EAGAIN || errno == EWOULDBLOCK)\n      break;\n\n    if (errno == EINTR)', '    if (errno == EAGAIN || errno == EWOULDBLOCK)\n      continue;\n\n    if (errno == EINTR)')
    rep('    if (r != -1)\n      break;', '    if (r != -1)\n      continue;')
elif name == 'F1_fork_keeps_eventfd':
    rep('''  if (loop->async_io_watcher.fd == -1) /* never started */
    return 0;

  uv__queue_move(&loop->async_handles, &queue);
  while (!uv__queue_empty(&queue)) {
    q = uv__queue_head(&queue);
    h = uv__queue_data(q, uv_async_t, queue);

    uv__queue_remove(q);
    uv__queue_insert_tail(&loop->async_handles, q);

    /* The state of any thread''', '''  if (loop->async_io_watcher.fd == -1) /* never started */
    return 0;

#ifdef __linux__
  /* An eventfd holds no per-process state. */
  if (loop->async_wfd == -1)
    return 0;
#endif

  uv__queue_move(&loop->async_handles, &queue);
  while (!uv__queue_empty(&queue)) {
    q = uv__queue_head(&queue);
    h = uv__queue_data(q, uv_async_t, queue);

    uv__queue_remove(q);
    uv__queue_insert_tail(&loop->async_handles, q);

    /* The state of any thread''')
elif name == 'F2_fork_keeps_pending':
    rep('    h->pending = 0;\n', '    (void) 0;\n')
elif name == 'S1_stop_breaks_scan':
    rep('''    h->async_cb(h);
  }''', '''    h->async_cb(h);

    /* Honour uv_stop() promptly; the rest keep their pending flag. */
    if (loop->stop_flag != 0) {
      while (!uv__queue_empty(&queue)) {
        q = uv__queue_head(&queue);
        uv__queue_remove(q);
        uv__queue_insert_tail(&loop->async_handles, q);
      }
      break;
    }
  }''')
elif name == 'P1_poll_init_checks_fd_first':
    pp = path + '/src/unix/poll.c'
    t = open(pp).read()
    a = '''  if (uv__fd_exists(loop, fd))
    return UV_EEXIST;

  err = uv__io_check_fd(loop, fd);
  if (err)
    return err;
'''
    assert a in t
    t = t.replace(a, '''  err = uv__io_check_fd(loop, fd);
  if (err)
    return err;

  if (uv__fd_exists(loop, fd))
    return UV_EEXIST;
''')
    open(pp, 'w').write(t)
elif name == 'N1_null_check_before_exchange':
    rep('''    /* Atomically fetch and clear pending flag */
    pending = (_Atomic int*) &h->pending;
    if (atomic_exchange(pending, 0) == 0)
      continue;

    if (h->async_cb == NULL)
      continue;
''', '''    /* Nothing to run, don't bother with the atomic. */
    if (h->async_cb == NULL)
      continue;

    /* Atomically fetch and clear pending flag */
    pending = (_Atomic int*) &h->pending;
    if (atomic_exchange(pending, 0) == 0)
      continue;
''')
elif name == 'B1_busy_as_flag':
    rep('  atomic_fetch_add(busy, 1);\n', '  atomic_store(busy, 1);\n')
    rep('  atomic_fetch_add(busy, -1);\n', '  atomic_store(busy, 0);\n')
elif name == 'R1_refactor':
    rep('  atomic_fetch_add(busy, -1);\n', '  atomic_fetch_sub(busy, 1);\n')
    rep('  uv__queue_remove(&handle->queue);\n  uv__handle_stop(handle);', '  uv__handle_stop(handle);\n  uv__queue_remove(&handle->queue);')
    rep('    if (atomic_exchange(pending, 0) == 0)\n      continue;\n\n    if (h->async_cb == NULL)\n      continue;\n',
        '    if (atomic_exchange(pending, 0) != 0 && h->async_cb != NULL) {\n    } else {\n      continue;\n    }\n')
else:
    raise SystemExit('unknown ' + name)
open(p, 'w').write(s)
